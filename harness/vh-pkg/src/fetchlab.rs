//! Helpers for C30 (crash-safe git dependency fetching): the scenario (a local bare git repository
//! + a project that depends on it through `git = "file://…"`), the `build-once` subprocess, a
//! parser for `strace -f -y -o` logs, the classification of mutating syscalls into phases of the
//! fetch, and the byte-for-byte comparison of a checkout directory against the reference tree that
//! the system `git` produces for the pinned commit.

use std::collections::BTreeMap;
use std::path::{Path, PathBuf};
use std::process::{Command, Stdio};
use std::time::{Duration, Instant};

pub const DEP_NAME: &str = "c30_dep";
pub const PROJ_NAME: &str = "c30_proj";

/// `c30 build-once <project dir> [offline]`: exactly what `forc build` does for a project directory
/// (`forc/src/ops/forc_build.rs`: `forc_pkg::build_with_options`, whose first step is
/// `BuildPlan::from_pkg_opts`), nothing else. Exit 0 = build succeeded, 3 = build failed (error
/// chain on stderr).
pub fn build_once(rest: &[String]) -> i32 {
    let Some(dir) = rest.first() else {
        eprintln!("usage: build-once <project dir> [offline]");
        return 2;
    };
    let offline = rest.get(1).map(|s| s == "offline").unwrap_or(false);
    let opts = forc_pkg::BuildOpts {
        pkg: forc_pkg::PkgOpts {
            path: Some(dir.clone()),
            offline,
            ..Default::default()
        },
        build_profile: forc_pkg::BuildProfile::DEBUG.into(),
        ..Default::default()
    };
    match forc_pkg::build_with_options(&opts, None) {
        Ok(_) => 0,
        Err(e) => {
            eprintln!("BUILD-ERROR: {e:#}");
            3
        }
    }
}

// ---------------------------------------------------------------------------------------------
// Scenario

#[derive(Clone, Copy, Debug, PartialEq, Eq, PartialOrd, Ord)]
pub enum RefKind {
    Branch,
    Rev,
    Tag,
    DefaultBranch,
}

impl RefKind {
    pub fn as_str(&self) -> &'static str {
        match self {
            RefKind::Branch => "branch",
            RefKind::Rev => "rev",
            RefKind::Tag => "tag",
            RefKind::DefaultBranch => "default-branch",
        }
    }
    pub fn parse(s: &str) -> Option<RefKind> {
        Some(match s {
            "branch" => RefKind::Branch,
            "rev" => RefKind::Rev,
            "tag" => RefKind::Tag,
            "default-branch" => RefKind::DefaultBranch,
            _ => return None,
        })
    }
    pub const ALL: [RefKind; 4] = [RefKind::Branch, RefKind::Rev, RefKind::Tag, RefKind::DefaultBranch];
}

#[derive(Clone, Debug, PartialEq, Eq)]
pub enum Entry {
    File { bytes: Vec<u8>, exec: bool },
    Symlink(String),
}

pub type Tree = BTreeMap<String, Entry>;

pub struct Scenario {
    pub root: PathBuf,
    pub bare: PathBuf,
    pub url: String,
    /// the commit every reference form resolves to (HEAD of master, tag v1)
    pub commit: String,
    /// the tree of `commit`, extracted by the system git (`git archive | tar -x`)
    pub ref_tree: Tree,
}

fn git(dir: &Path, args: &[&str]) -> String {
    let out = Command::new("git")
        .current_dir(dir)
        .args(args)
        .env_clear()
        .env("PATH", std::env::var("PATH").unwrap_or_else(|_| "/usr/bin:/bin".into()))
        .env("HOME", dir)
        .env("GIT_CONFIG_GLOBAL", "/dev/null")
        .env("GIT_CONFIG_SYSTEM", "/dev/null")
        .env("GIT_AUTHOR_NAME", "verif")
        .env("GIT_AUTHOR_EMAIL", "verif@example.org")
        .env("GIT_COMMITTER_NAME", "verif")
        .env("GIT_COMMITTER_EMAIL", "verif@example.org")
        .env("GIT_AUTHOR_DATE", "2024-01-01T00:00:00Z")
        .env("GIT_COMMITTER_DATE", "2024-01-01T00:00:00Z")
        .output();
    match out {
        Ok(o) if o.status.success() => String::from_utf8_lossy(&o.stdout).trim().to_string(),
        Ok(o) => vhcore::machinery_failure(&format!(
            "git {args:?} failed: {}",
            String::from_utf8_lossy(&o.stderr)
        )),
        Err(e) => vhcore::machinery_failure(&format!("cannot run the system git: {e}")),
    }
}

fn write(p: &Path, s: &str) {
    if let Some(d) = p.parent() {
        let _ = std::fs::create_dir_all(d);
    }
    std::fs::write(p, s).unwrap_or_else(|e| vhcore::machinery_failure(&format!("write {}: {e}", p.display())));
}

/// The dependency: a small Sway library (no std) with a nested module directory, one file the
/// compiler never reads (`zz_notes.txt`, checked out last) and two commits.
pub fn make_scenario(root: &Path) -> Scenario {
    let src = root.join("src-repo");
    write(
        &src.join("Forc.toml"),
        &format!(
            "[project]\nauthors = [\"verif\"]\nentry = \"lib.sw\"\nlicense = \"Apache-2.0\"\nname = \"{DEP_NAME}\"\nimplicit-std = false\n"
        ),
    );
    write(&src.join("README.md"), "# c30_dep\n");
    write(&src.join("src/lib.sw"), "library;\n\npub mod inner;\n\npub fn one() -> u64 {\n    0\n}\n");
    write(&src.join("src/inner.sw"), "library;\n\npub mod sub;\n\npub fn two() -> u64 {\n    2\n}\n");
    write(&src.join("src/inner/sub.sw"), "library;\n\npub fn seven() -> u64 {\n    7\n}\n");
    write(&src.join("zz_notes.txt"), "notes, not needed by the compiler\n");
    git(&src, &["init", "-q", "-b", "master", "."]);
    git(&src, &["add", "-A"]);
    git(&src, &["commit", "-q", "-m", "one"]);
    write(&src.join("src/lib.sw"), "library;\n\npub mod inner;\n\npub fn one() -> u64 {\n    1\n}\n");
    write(&src.join("zz_notes.txt"), "notes, not needed by the compiler\nsecond commit\n");
    git(&src, &["add", "-A"]);
    git(&src, &["commit", "-q", "-m", "two"]);
    git(&src, &["tag", "v1"]);
    let bare = root.join("dep.git");
    git(root, &["clone", "-q", "--bare", src.to_str().unwrap(), bare.to_str().unwrap()]);
    let commit = git(&bare, &["rev-parse", "HEAD"]);
    if commit.len() != 40 {
        vhcore::machinery_failure(&format!("unexpected commit id {commit:?}"));
    }
    // reference tree by the system git
    let reft = root.join("ref-tree");
    let _ = std::fs::create_dir_all(&reft);
    let st = Command::new("sh")
        .arg("-c")
        .arg(format!(
            "git --git-dir='{}' archive --format=tar {} | tar -x -C '{}'",
            bare.display(),
            commit,
            reft.display()
        ))
        .env("GIT_CONFIG_GLOBAL", "/dev/null")
        .env("GIT_CONFIG_SYSTEM", "/dev/null")
        .status();
    if !matches!(st, Ok(s) if s.success()) {
        vhcore::machinery_failure("git archive | tar failed");
    }
    let ref_tree = read_tree(&reft);
    if ref_tree.len() != 6 {
        vhcore::machinery_failure(&format!("reference tree has {} files, expected 6", ref_tree.len()));
    }
    Scenario {
        root: root.to_path_buf(),
        url: format!("file://{}", bare.display()),
        bare,
        commit,
        ref_tree,
    }
}

/// Write the dependent project (a library, `implicit-std = false`) into `dir`.
pub fn make_project(dir: &Path, sc: &Scenario, rk: RefKind) {
    let reference = match rk {
        RefKind::Branch => ", branch = \"master\"".to_string(),
        RefKind::Rev => format!(", rev = \"{}\"", sc.commit),
        RefKind::Tag => ", tag = \"v1\"".to_string(),
        RefKind::DefaultBranch => String::new(),
    };
    write(
        &dir.join("Forc.toml"),
        &format!(
            "[project]\nauthors = [\"verif\"]\nentry = \"lib.sw\"\nlicense = \"Apache-2.0\"\nname = \"{PROJ_NAME}\"\nimplicit-std = false\n\n[dependencies]\n{DEP_NAME} = {{ git = \"{}\"{} }}\n",
            sc.url, reference
        ),
    );
    write(
        &dir.join("src/lib.sw"),
        "library;\n\nuse c30_dep::inner::sub::seven;\nuse c30_dep::inner::two;\nuse c30_dep::one;\n\npub fn ten() -> u64 {\n    __add(__add(seven(), two()), one())\n}\n",
    );
}

/// All files and symlinks below `dir` (relative paths), ignoring a top-level `.forc_index` (forc's
/// own index file, not part of the commit).
pub fn read_tree(dir: &Path) -> Tree {
    fn walk(base: &Path, d: &Path, out: &mut Tree) {
        let Ok(rd) = std::fs::read_dir(d) else { return };
        for e in rd.filter_map(|e| e.ok()) {
            let p = e.path();
            let rel = p.strip_prefix(base).unwrap().to_string_lossy().to_string();
            let Ok(md) = std::fs::symlink_metadata(&p) else { continue };
            if md.file_type().is_symlink() {
                let t = std::fs::read_link(&p).map(|t| t.to_string_lossy().to_string()).unwrap_or_default();
                out.insert(rel, Entry::Symlink(t));
            } else if md.is_dir() {
                walk(base, &p, out);
            } else {
                if rel == ".forc_index" {
                    continue;
                }
                use std::os::unix::fs::PermissionsExt;
                let exec = md.permissions().mode() & 0o100 != 0;
                out.insert(rel, Entry::File { bytes: std::fs::read(&p).unwrap_or_default(), exec });
            }
        }
    }
    let mut out = Tree::new();
    walk(dir, dir, &mut out);
    out
}

#[derive(Clone, Debug, PartialEq, Eq)]
pub enum CheckoutState {
    /// no directory for the pinned commit
    Absent,
    /// equals the commit's tree byte for byte
    Complete,
    /// directory exists and differs from the commit's tree
    Partial(String),
}

impl CheckoutState {
    pub fn short(&self) -> String {
        match self {
            CheckoutState::Absent => "absent".into(),
            CheckoutState::Complete => "complete".into(),
            CheckoutState::Partial(d) => format!("partial({d})"),
        }
    }
}

/// `$HOME/.forc/git/checkouts/<dep>-<url hash>/<commit>` (the hash directory is discovered, not
/// recomputed).
pub fn checkout_dirs(home: &Path, commit: &str) -> Vec<PathBuf> {
    let base = home.join(".forc/git/checkouts");
    let mut out = vec![];
    if let Ok(rd) = std::fs::read_dir(&base) {
        for e in rd.filter_map(|e| e.ok()) {
            let n = e.file_name().to_string_lossy().to_string();
            if n.starts_with(&format!("{DEP_NAME}-")) {
                out.push(e.path().join(commit));
            }
        }
    }
    out.sort();
    out
}

pub fn checkout_state(home: &Path, sc: &Scenario) -> CheckoutState {
    let dirs = checkout_dirs(home, &sc.commit);
    let Some(dir) = dirs.into_iter().find(|d| d.exists()) else {
        return CheckoutState::Absent;
    };
    let got = read_tree(&dir);
    if got == sc.ref_tree {
        return CheckoutState::Complete;
    }
    let mut missing = vec![];
    let mut differing = vec![];
    let mut extra = vec![];
    for (k, v) in &sc.ref_tree {
        match got.get(k) {
            None => missing.push(k.clone()),
            Some(g) if g != v => {
                let (a, b) = match (g, v) {
                    (Entry::File { bytes: a, .. }, Entry::File { bytes: b, .. }) => (a.len(), b.len()),
                    _ => (0, 0),
                };
                differing.push(format!("{k}[{a}/{b} bytes]"));
            }
            _ => {}
        }
    }
    for k in got.keys() {
        if !sc.ref_tree.contains_key(k) {
            extra.push(k.clone());
        }
    }
    let mut d = vec![];
    if !missing.is_empty() {
        d.push(format!("missing {}", missing.join(",")));
    }
    if !differing.is_empty() {
        d.push(format!("differing {}", differing.join(",")));
    }
    if !extra.is_empty() {
        d.push(format!("extra {}", extra.join(",")));
    }
    CheckoutState::Partial(d.join("; "))
}

// ---------------------------------------------------------------------------------------------
// Running the subprocess (optionally under strace)

#[derive(Clone, Debug)]
pub struct Inject {
    pub syscall: String,
    /// `when=` expression, e.g. `17` or `17..18`
    pub when: String,
    /// `signal=SIGKILL` or `error=EIO`
    pub action: String,
}

#[derive(Clone, Debug)]
pub struct RunOut {
    /// Some(code) when the process exited, None when it was killed by a signal
    pub code: Option<i32>,
    pub signal: Option<i32>,
    pub stderr: String,
    pub timed_out: bool,
    pub wall_ms: u128,
}

impl RunOut {
    pub fn ok(&self) -> bool {
        self.code == Some(0)
    }
    pub fn short(&self) -> String {
        if self.timed_out {
            return "timeout".into();
        }
        match (self.code, self.signal) {
            (Some(0), _) => "ok".into(),
            (Some(c), _) => format!("exit {c}: {}", first_error_line(&self.stderr)),
            (None, Some(s)) => format!("killed by signal {s}"),
            _ => "unknown".into(),
        }
    }
}

pub fn first_error_line(stderr: &str) -> String {
    let l = stderr
        .lines()
        .find(|l| l.contains("BUILD-ERROR") || l.contains("panicked"))
        .or_else(|| stderr.lines().find(|l| !l.trim().is_empty()))
        .unwrap_or("");
    vhcore::truncate(l.trim(), 300)
}

pub const TRACED: &str = "open,openat,openat2,creat,write,pwrite64,writev,pwritev,pwritev2,mkdir,mkdirat,rename,renameat,renameat2,unlink,unlinkat,rmdir,link,linkat,symlink,symlinkat,chmod,fchmod,fchmodat,chown,fchown,lchown,fchownat,truncate,ftruncate,fallocate,fsync,fdatasync,utimensat,utime,utimes,futimesat,flock,mknod,mknodat,setxattr,lsetxattr,fsetxattr,copy_file_range,sendfile,clone,clone3,fork,vfork,execve";

/// Run `<exe> build-once <proj>` with `HOME=home`, nothing else in the environment but PATH.
/// With `trace = Some(file)`, under `strace -f -y -o file -e trace=<mutating candidates>` and the
/// given injections.
pub fn run_build_once(
    exe: &Path,
    home: &Path,
    proj: &Path,
    trace: Option<&Path>,
    injects: &[Inject],
    stderr_file: &Path,
    timeout: Duration,
) -> RunOut {
    let mut cmd;
    if let Some(t) = trace {
        cmd = Command::new("strace");
        cmd.arg("-f");
        // --seccomp-bpf: only the traced syscalls stop the tracee (much cheaper with -f). Not for
        // signal injection: in that mode the syscall-entry stop is a seccomp event stop, and a signal
        // passed when resuming from it is not delivered (observed: the process runs to completion).
        if !injects.iter().any(|i| i.action.starts_with("signal")) {
            cmd.arg("--seccomp-bpf");
        }
        cmd.arg("-y").arg("-s").arg("8").arg("-o").arg(t);
        cmd.arg("-e").arg(format!("trace={TRACED}"));
        for i in injects {
            cmd.arg("-e").arg(format!("inject={}:{}:when={}", i.syscall, i.action, i.when));
        }
        cmd.arg(exe);
    } else {
        cmd = Command::new(exe);
    }
    cmd.arg("build-once").arg(proj);
    cmd.env_clear()
        .env("PATH", std::env::var("PATH").unwrap_or_else(|_| "/usr/bin:/bin".into()))
        .env("HOME", home)
        .current_dir(proj)
        .stdin(Stdio::null())
        .stdout(Stdio::null());
    let errf = std::fs::File::create(stderr_file)
        .unwrap_or_else(|e| vhcore::machinery_failure(&format!("create {}: {e}", stderr_file.display())));
    cmd.stderr(Stdio::from(errf));
    let t0 = Instant::now();
    let mut child = cmd
        .spawn()
        .unwrap_or_else(|e| vhcore::machinery_failure(&format!("cannot spawn build-once: {e}")));
    let mut timed_out = false;
    let status = loop {
        match child.try_wait() {
            Ok(Some(s)) => break s,
            Ok(None) => {
                if t0.elapsed() > timeout {
                    timed_out = true;
                    let _ = child.kill();
                    break child.wait().unwrap();
                }
                std::thread::sleep(Duration::from_millis(3));
            }
            Err(e) => vhcore::machinery_failure(&format!("wait: {e}")),
        }
    };
    use std::os::unix::process::ExitStatusExt;
    RunOut {
        code: status.code(),
        signal: status.signal(),
        stderr: std::fs::read_to_string(stderr_file).unwrap_or_default(),
        timed_out,
        wall_ms: t0.elapsed().as_millis(),
    }
}

// ---------------------------------------------------------------------------------------------
// strace log parsing

#[derive(Clone, Debug)]
pub struct Sys {
    pub tid: u32,
    pub name: String,
    /// ordinal (1-based) among the calls of `name` made by this thread — strace's `when=` counter
    pub k: usize,
    pub mutating: bool,
    /// paths the call refers to (absolute where they could be resolved)
    pub paths: Vec<String>,
    /// text after `= ` (None for `<unfinished ...>` entries)
    pub ret: Option<String>,
    pub injected: bool,
    pub raw: String,
}

#[derive(Default, Debug)]
pub struct Trace {
    pub calls: Vec<Sys>,
    /// thread ids in order of first appearance (the first is the main thread)
    pub tids: Vec<u32>,
    pub killed_by: Option<String>,
    pub exit_line: Option<String>,
}

fn quoted_strings(s: &str) -> Vec<String> {
    let b = s.as_bytes();
    let mut out = vec![];
    let mut i = 0;
    while i < b.len() {
        if b[i] == b'"' {
            let mut j = i + 1;
            let mut cur = Vec::new();
            while j < b.len() && b[j] != b'"' {
                if b[j] == b'\\' && j + 1 < b.len() {
                    cur.push(b[j + 1]);
                    j += 2;
                } else {
                    cur.push(b[j]);
                    j += 1;
                }
            }
            out.push(String::from_utf8_lossy(&cur).to_string());
            i = j + 1;
        } else {
            i += 1;
        }
    }
    out
}

/// `<…>` annotations that `-y` attaches to file descriptors, in order, quoted strings skipped.
fn fd_annotations(s: &str) -> Vec<String> {
    let b = s.as_bytes();
    let mut out = vec![];
    let mut i = 0;
    while i < b.len() {
        match b[i] {
            b'"' => {
                i += 1;
                while i < b.len() && b[i] != b'"' {
                    if b[i] == b'\\' {
                        i += 1;
                    }
                    i += 1;
                }
                i += 1;
            }
            b'<' => {
                let st = i + 1;
                let mut j = st;
                while j < b.len() && b[j] != b'>' {
                    j += 1;
                }
                let a = &s[st..j.min(s.len())];
                if a.starts_with('/') {
                    out.push(a.to_string());
                }
                i = j + 1;
            }
            _ => i += 1,
        }
    }
    out
}

fn join(dir: Option<&String>, name: &str) -> String {
    if name.starts_with('/') {
        name.to_string()
    } else {
        match dir {
            Some(d) => format!("{}/{}", d.trim_end_matches('/'), name),
            None => name.to_string(),
        }
    }
}

fn call_paths(name: &str, args: &str) -> Vec<String> {
    // the argument text up to the result (a returned fd is annotated as well: cut it off)
    let args = match args.rfind(" = ") {
        Some(p) => &args[..p],
        None => args,
    };
    let q = quoted_strings(args);
    let f = fd_annotations(args);
    match name {
        "write" | "pwrite64" | "writev" | "pwritev" | "pwritev2" | "fchmod" | "fchown" | "ftruncate"
        | "fallocate" | "fsync" | "fdatasync" | "flock" | "fsetxattr" => f.first().cloned().into_iter().collect(),
        "openat" | "openat2" | "mkdirat" | "unlinkat" | "fchmodat" | "fchownat" | "utimensat" | "mknodat"
        | "futimesat" => match q.first() {
            Some(n) => vec![join(f.first(), n)],
            None => f.first().cloned().into_iter().collect(),
        },
        "renameat" | "renameat2" | "linkat" => {
            // (olddirfd, old, newdirfd, new): annotations appear only for real fds / AT_FDCWD
            let mut out = vec![];
            if let Some(a) = q.first() {
                out.push(join(f.first(), a));
            }
            if let Some(b) = q.get(1) {
                out.push(join(f.last(), b));
            }
            out
        }
        "symlinkat" => q.get(1).map(|n| join(f.first(), n)).into_iter().collect(),
        "symlink" => q.get(1).cloned().into_iter().collect(),
        "rename" | "link" => q.into_iter().take(2).collect(),
        "copy_file_range" | "sendfile" => f,
        _ => q.into_iter().take(1).collect(),
    }
}

fn is_mutating(name: &str, args: &str) -> bool {
    match name {
        "open" | "openat" | "openat2" => {
            ["O_WRONLY", "O_RDWR", "O_CREAT", "O_TRUNC", "O_APPEND", "O_TMPFILE"].iter().any(|f| args.contains(f))
        }
        "clone" | "clone3" | "fork" | "vfork" | "execve" => false,
        _ => true,
    }
}

pub fn parse_trace(path: &Path) -> Trace {
    let txt = std::fs::read(path).unwrap_or_default();
    let txt = String::from_utf8_lossy(&txt);
    let mut t = Trace::default();
    let mut counters: BTreeMap<(u32, String), usize> = BTreeMap::new();
    for line in txt.lines() {
        let Some((pid, rest)) = line.split_once(' ') else { continue };
        let Ok(tid) = pid.trim().parse::<u32>() else { continue };
        let rest = rest.trim_start();
        if !t.tids.contains(&tid) {
            t.tids.push(tid);
        }
        if rest.starts_with("+++") {
            if rest.contains("killed by") {
                t.killed_by = Some(rest.to_string());
            } else if tid == t.tids[0] {
                t.exit_line = Some(rest.to_string());
            }
            continue;
        }
        if rest.starts_with("---") || rest.starts_with("<...") {
            continue;
        }
        let Some(p) = rest.find('(') else { continue };
        let name = &rest[..p];
        if !name.chars().all(|c| c.is_ascii_alphanumeric() || c == '_') {
            continue;
        }
        let args = &rest[p + 1..];
        let c = counters.entry((tid, name.to_string())).or_insert(0);
        *c += 1;
        let ret = args.rfind(" = ").map(|q| args[q + 3..].to_string());
        t.calls.push(Sys {
            tid,
            name: name.to_string(),
            k: *c,
            mutating: is_mutating(name, args),
            paths: call_paths(name, args),
            injected: args.contains("(INJECTED)"),
            ret,
            raw: vhcore::truncate(rest, 400),
        });
    }
    t
}

// ---------------------------------------------------------------------------------------------
// Phases

/// Normalises the run-specific parts of a path and names the phase of the build it belongs to.
pub struct Phaser {
    pub home: String,
    pub proj: String,
    pub commit: String,
    /// how many times the temporary clone directory was created so far (1 = pin pass, 2 = fetch pass)
    tmp_created: usize,
}

impl Phaser {
    pub fn new(home: &Path, proj: &Path, commit: &str) -> Phaser {
        Phaser {
            home: home.to_string_lossy().to_string(),
            proj: proj.to_string_lossy().to_string(),
            commit: commit.to_string(),
            tmp_created: 0,
        }
    }

    pub fn norm(&self, p: &str) -> String {
        let co = format!("{}/.forc/git/checkouts/", self.home);
        if let Some(r) = p.strip_prefix(&co) {
            if let Some(r) = r.strip_prefix("tmp/") {
                // <fetch id>-<name>-<url hash>[/…]; libgit2 also uses random suffixes for its own
                // temporary files (_git2_XXXX, pack_git2_XXXX)
                let (first, tail) = match r.split_once('/') {
                    Some((a, b)) => (a, format!("/{b}")),
                    None => (r, String::new()),
                };
                let first = match first.split_once('-') {
                    Some((_, b)) => format!("<id>-{b}"),
                    None => first.to_string(),
                };
                return format!("$CHECKOUTS/tmp/{}{}", strip_url_hash(&first), scrub_random(&tail));
            }
            let (first, tail) = match r.split_once('/') {
                Some((a, b)) => (a, format!("/{b}")),
                None => (r, String::new()),
            };
            return format!("$CHECKOUTS/{}{}", strip_url_hash(first), tail.replace(&self.commit, "<commit>"));
        }
        if let Some(r) = p.strip_prefix(&format!("{}/.forc/.locks", self.home)) {
            return format!("$HOME/.forc/.locks{}", if r.is_empty() { "" } else { "/<lock>" });
        }
        if let Some(r) = p.strip_prefix(&self.home) {
            return format!("$HOME{r}");
        }
        if let Some(r) = p.strip_prefix(&self.proj) {
            return format!("$PROJ{r}");
        }
        p.to_string()
    }

    /// Phase of one call; must be fed the calls of a trace in order.
    pub fn phase(&mut self, s: &Sys) -> String {
        let n: Vec<String> = s.paths.iter().map(|p| self.norm(p)).collect();
        let dep = format!("$CHECKOUTS/{DEP_NAME}-<h>");
        let fin = format!("{dep}/<commit>");
        let tmp_root = format!("$CHECKOUTS/tmp/<id>-{DEP_NAME}-<h>");
        if s.name == "mkdir" && n.first().map(|p| p == &tmp_root).unwrap_or(false) {
            self.tmp_created += 1;
        }
        let cls = |p: &String| -> Option<&'static str> {
            if p == &format!("{fin}/.forc_index") {
                Some("forc-index")
            } else if p == &fin || p.starts_with(&format!("{fin}/")) {
                Some("checkout-final")
            } else if p.starts_with(&format!("{dep}/")) {
                Some("checkout-staging")
            } else {
                None
            }
        };
        // a rename into the final path counts as belonging to the final path
        for want in ["forc-index", "checkout-final", "checkout-staging"] {
            if n.iter().any(|p| cls(p) == Some(want)) {
                return want.to_string();
            }
        }
        let Some(p) = n.first() else { return "other".into() };
        if p.starts_with("$CHECKOUTS/tmp/") {
            if p.contains("/checkout") && !p.contains("/.git/") {
                return "checkout-staging".into();
            }
            return match self.tmp_created {
                0 | 1 => "pin-clone".into(),
                _ => "fetch-clone".into(),
            };
        }
        if p.starts_with("$HOME/.forc/.locks") {
            return "lock-file".into();
        }
        if p == &dep || p.starts_with("$CHECKOUTS") || p == "$HOME/.forc" || p == "$HOME/.forc/git" || p == "$HOME/.forc/git/checkouts" {
            return "cache-dirs".into();
        }
        if p == "$PROJ/Forc.lock" {
            return "project-lock".into();
        }
        if p.starts_with("$PROJ/out") {
            return "build-output".into();
        }
        "other".into()
    }
}

/// `name-<16 hex>` → `name-<h>`
fn strip_url_hash(s: &str) -> String {
    match s.rsplit_once('-') {
        Some((a, b)) if b.len() >= 8 && b.chars().all(|c| c.is_ascii_hexdigit()) => format!("{a}-<h>"),
        _ => s.to_string(),
    }
}

/// libgit2's random temporary names: `_git2_<16 hex>`, `pack_git2_<hex>…`
fn scrub_random(s: &str) -> String {
    let mut out = String::new();
    let mut rest = s;
    while let Some(p) = rest.find("_git2_") {
        out.push_str(&rest[..p + 6]);
        let tail = &rest[p + 6..];
        let n = tail.chars().take_while(|c| c.is_ascii_hexdigit()).count();
        out.push_str("<r>");
        rest = &tail[n..];
    }
    out.push_str(rest);
    out
}

pub fn copy_dir(from: &Path, to: &Path) {
    let _ = std::fs::create_dir_all(to);
    if let Ok(rd) = std::fs::read_dir(from) {
        for e in rd.filter_map(|e| e.ok()) {
            let p = e.path();
            let q = to.join(e.file_name());
            if p.is_dir() {
                copy_dir(&p, &q);
            } else {
                let _ = std::fs::copy(&p, &q);
            }
        }
    }
}

/// `vhcore::work_dir(id)` wipes the directory; proposed fix patches (`fix-<n>.patch`) that live
/// there are carried over.
pub fn work_dir_keeping_patches(id: &str) -> PathBuf {
    let d = vhcore::verif_root().join("work").join(id);
    let mut keep = vec![];
    if let Ok(rd) = std::fs::read_dir(&d) {
        for e in rd.filter_map(|e| e.ok()) {
            let n = e.file_name().to_string_lossy().to_string();
            if n.starts_with("fix-") && n.ends_with(".patch") {
                if let Ok(b) = std::fs::read(e.path()) {
                    keep.push((n, b));
                }
            }
        }
    }
    let d = vhcore::work_dir(id);
    for (n, b) in keep {
        let _ = std::fs::write(d.join(n), b);
    }
    d
}

//! C22 — Build order respects dependencies.
//!
//! Bounded-exhaustive: every directed graph on 1..=4 labelled nodes (every subset of the n*n ordered
//! pairs, self loops included) with the edge-kind labellings of DESIGN.md §C22, every such graph again
//! with a vacant slot in the `StableGraph` (a node added and removed, as `remove_deps` does), and in
//! the thorough tier every loop-free digraph on 5 nodes (2^20 edge sets, which contains all 29281 DAGs).
//! Every case calls the real `forc_pkg::compilation_order`.
//!
//! Oracle (own code, transitive closure on bitmasks): acyclic ⇒ Ok(order) with every live node exactly
//! once and, for every edge a→b ("a depends on b"), b before a; cyclic (incl. self loop) ⇒ Err.

use forc_pkg::{compilation_order, DepKind, Edge, Graph, NodeIx, Pinned};
use serde_json::{json, Value};
use std::collections::BTreeMap;
use vhcore::{Args, Distinct, Reporter, Tier};

#[derive(Clone, Debug)]
struct Case {
    n: usize,
    /// (a, b, contract?) : a depends on b
    edges: Vec<(usize, usize, bool)>,
    /// slot index (0..=n) of a node that is added and removed again, leaving a vacant index
    hole: Option<usize>,
}

impl Case {
    fn to_json(&self) -> Value {
        json!({
            "n": self.n,
            "edges": self.edges.iter().map(|(a, b, c)| json!([a, b, if *c { "contract" } else { "library" }])).collect::<Vec<_>>(),
            "hole": self.hole,
        })
    }
    fn from_json(v: &Value) -> Option<Case> {
        let n = v["n"].as_u64()? as usize;
        let mut edges = vec![];
        for e in v["edges"].as_array()? {
            edges.push((
                e[0].as_u64()? as usize,
                e[1].as_u64()? as usize,
                e[2].as_str()? == "contract",
            ));
        }
        let hole = v["hole"].as_u64().map(|h| h as usize);
        Some(Case { n, edges, hole })
    }
}

fn kind(contract: bool, salt_byte: u8) -> DepKind {
    if contract {
        DepKind::Contract {
            salt: fuel_tx::Salt::new([salt_byte; 32]),
        }
    } else {
        DepKind::Library
    }
}

/// Builds the real `forc_pkg::Graph`. Returns the graph and the `NodeIx` of logical node i.
fn build(c: &Case, member: &forc_pkg::source::Pinned) -> (Graph, Vec<NodeIx>) {
    let mut g = Graph::default();
    let mut ix = Vec::with_capacity(c.n);
    let mut extra = None;
    let slots = c.n + usize::from(c.hole.is_some());
    for slot in 0..slots {
        if Some(slot) == c.hole {
            extra = Some(g.add_node(Pinned {
                name: "removed".to_string(),
                source: member.clone(),
            }));
        } else {
            let i = ix.len();
            ix.push(g.add_node(Pinned {
                name: format!("p{i}"),
                source: member.clone(),
            }));
        }
    }
    if let Some(x) = extra {
        // give the doomed node edges in both directions (they disappear with the node)
        if let (Some(&f), Some(&l)) = (ix.first(), ix.last()) {
            g.update_edge(x, f, Edge::new("p0".into(), DepKind::Library));
            g.update_edge(l, x, Edge::new("removed".into(), DepKind::Library));
        }
    }
    for (k, &(a, b, contract)) in c.edges.iter().enumerate() {
        g.update_edge(ix[a], ix[b], Edge::new(format!("p{b}"), kind(contract, k as u8)));
    }
    if let Some(x) = extra {
        g.remove_node(x);
    }
    (g, ix)
}

/// Independent cyclicity oracle: Warshall closure on bitmask rows.
fn is_cyclic(n: usize, edges: &[(usize, usize, bool)]) -> bool {
    let mut reach = [0u32; 8];
    for &(a, b, _) in edges {
        reach[a] |= 1 << b;
    }
    for k in 0..n {
        for i in 0..n {
            if reach[i] & (1 << k) != 0 {
                reach[i] |= reach[k];
            }
        }
    }
    (0..n).any(|i| reach[i] & (1 << i) != 0)
}

enum Verdict {
    OkOrder(Vec<usize>),
    OkErr,
    Bad(String, String),
}

fn check_case(c: &Case, member: &forc_pkg::source::Pinned) -> Verdict {
    let (g, ix) = build(c, member);
    let cyclic = is_cyclic(c.n, &c.edges);
    let has_self_loop = c.edges.iter().any(|(a, b, _)| a == b);
    let res = vhcore::catch(std::panic::AssertUnwindSafe(|| compilation_order(&g)));
    let res = match res {
        Ok(r) => r,
        Err(msg) => {
            return Verdict::Bad(
                format!("panic@{}", vh_pkg::mk::rel_loc(&vhcore::take_panic_loc())),
                format!("compilation_order panicked: {msg}"),
            )
        }
    };
    match (cyclic, res) {
        (true, Err(_)) => Verdict::OkErr,
        (true, Ok(order)) => Verdict::Bad(
            format!(
                "cyclic-graph-got-order|{}",
                if has_self_loop { "self-loop" } else { "cycle-of-length>=2" }
            ),
            format!("graph has a dependency cycle but compilation_order returned Ok({order:?})"),
        ),
        (false, Err(e)) => Verdict::Bad(
            "acyclic-graph-got-error".to_string(),
            format!("graph is acyclic but compilation_order failed: {e}"),
        ),
        (false, Ok(order)) => {
            // every live node exactly once
            let mut pos: BTreeMap<NodeIx, usize> = BTreeMap::new();
            for (p, nx) in order.iter().enumerate() {
                if pos.insert(*nx, p).is_some() {
                    return Verdict::Bad(
                        "order-repeats-a-node".into(),
                        format!("node {nx:?} appears twice in {order:?}"),
                    );
                }
            }
            let mut logical = Vec::with_capacity(order.len());
            for nx in &order {
                match ix.iter().position(|i| i == nx) {
                    Some(i) => logical.push(i),
                    None => {
                        return Verdict::Bad(
                            "order-contains-unknown-node".into(),
                            format!("node {nx:?} of {order:?} is not a live node of the graph"),
                        )
                    }
                }
            }
            if order.len() != c.n {
                return Verdict::Bad(
                    "order-misses-a-node".into(),
                    format!("order {logical:?} has {} of {} nodes", order.len(), c.n),
                );
            }
            for &(a, b, contract) in &c.edges {
                if pos[&ix[b]] >= pos[&ix[a]] {
                    return Verdict::Bad(
                        format!(
                            "dependency-after-dependent|edge-kind={}",
                            if contract { "contract" } else { "library" }
                        ),
                        format!("p{a} depends on p{b} but the order is {logical:?}"),
                    );
                }
            }
            Verdict::OkOrder(logical)
        }
    }
}

/// Edge list of an n-node digraph from a bitmask over the n*n ordered pairs (bit a*n+b = edge a→b).
fn edges_of_mask(n: usize, mask: u32) -> Vec<(usize, usize)> {
    let mut v = vec![];
    for a in 0..n {
        for b in 0..n {
            if mask & (1 << (a * n + b)) != 0 {
                v.push((a, b));
            }
        }
    }
    v
}

/// Kind labellings of DESIGN §C22 for an edge list: all library, all contract, exactly one contract
/// (every choice); for n ≤ 3 every library/contract labelling. Deduplicated.
fn labellings(n: usize, e: usize) -> Vec<Vec<bool>> {
    if n <= 3 {
        return (0..(1u32 << e))
            .map(|m| (0..e).map(|i| m & (1 << i) != 0).collect())
            .collect();
    }
    let mut out: Vec<Vec<bool>> = vec![vec![false; e]];
    if e >= 1 {
        out.push(vec![true; e]);
    }
    if e >= 2 {
        for i in 0..e {
            let mut l = vec![false; e];
            l[i] = true;
            out.push(l);
        }
    }
    out
}

fn labellings_count(n: usize, e: usize) -> u64 {
    if n <= 3 {
        1u64 << e
    } else {
        match e {
            0 => 1,
            1 => 2,
            _ => 2 + e as u64,
        }
    }
}

fn binom(n: u64, k: u64) -> u64 {
    let mut r = 1u64;
    for i in 0..k {
        r = r * (n - i) / (i + 1);
    }
    r
}

/// Number of labelled DAGs on n nodes (Robinson's recurrence).
fn dag_count(n: u64) -> u64 {
    let mut a = vec![1i128];
    for m in 1..=n {
        let mut s = 0i128;
        for k in 1..=m {
            let sign = if k % 2 == 1 { 1 } else { -1 };
            s += sign * binom(m, k) as i128 * (1i128 << (k * (m - k))) * a[(m - k) as usize];
        }
        a.push(s);
    }
    a[n as usize] as u64
}

#[derive(Default)]
struct Acc {
    evaluations: u64,
    ok_orders: u64,
    ok_errs: u64,
    nontrivial: u64,
    dags_all_library_no_hole: BTreeMap<usize, u64>,
    distinct_orders: Distinct,
    bad: Vec<(String, String, Value)>,
    samples: Vec<Value>,
}

impl Acc {
    fn merge(&mut self, o: Acc) {
        self.evaluations += o.evaluations;
        self.ok_orders += o.ok_orders;
        self.ok_errs += o.ok_errs;
        self.nontrivial += o.nontrivial;
        for (k, v) in o.dags_all_library_no_hole {
            *self.dags_all_library_no_hole.entry(k).or_default() += v;
        }
        self.distinct_orders.merge(o.distinct_orders);
        self.bad.extend(o.bad);
        for smp in o.samples {
            // keep at most 3 acyclic and 3 cyclic examples, preferring the larger node counts seen later
            let is_order = smp["result"].is_object();
            if self.samples.iter().filter(|s| s["result"].is_object() == is_order).count() < 3 {
                self.samples.push(smp);
            }
        }
    }
    fn run(&mut self, c: &Case, member: &forc_pkg::source::Pinned) {
        self.evaluations += 1;
        if c.edges.iter().filter(|(a, b, _)| a != b).count() >= 2 {
            self.nontrivial += 1;
        }
        match check_case(c, member) {
            Verdict::OkOrder(o) => {
                self.ok_orders += 1;
                if c.hole.is_none() && c.edges.iter().all(|e| !e.2) {
                    *self.dags_all_library_no_hole.entry(c.n).or_default() += 1;
                }
                self.distinct_orders.add(&(c.n, &o));
                if c.n >= 3 && c.edges.len() >= 3 && !self.samples.iter().any(|s| s["result"].is_object()) {
                    self.samples
                        .push(json!({"case": c.to_json(), "result": {"order": o}}));
                }
            }
            Verdict::OkErr => {
                self.ok_errs += 1;
                if c.n >= 3
                    && c.edges.len() == 3
                    && c.edges.iter().all(|(a, b, _)| a != b)
                    && !self.samples.iter().any(|s| s["result"].is_string())
                {
                    self.samples
                        .push(json!({"case": c.to_json(), "result": "Err(dependency cycle detected)"}));
                }
            }
            Verdict::Bad(key, what, ) => {
                if self.bad.len() < 40 {
                    self.bad.push((key, what, c.to_json()));
                }
            }
        }
    }
}

fn run(a: &Args) -> i32 {
    let mut rep = Reporter::from_args(a, "model_checking");
    let member = vh_pkg::mk::member();
    let mut total = Acc::default();
    let mut expected_cases: u64 = 0;

    // ---- all digraphs on 1..=4 nodes, with kind labellings and with vacant-slot variants
    for n in 1..=4usize {
        let bits = n * n;
        let nmasks = 1u64 << bits;
        // closed form: Σ_e C(bits,e) * labellings(e), plus (n+1) hole positions × all-library per edge set
        for e in 0..=bits {
            expected_cases += binom(bits as u64, e as u64) * labellings_count(n, e);
        }
        expected_cases += nmasks * (n as u64 + 1);
        let shards = 64usize.min(nmasks as usize);
        let per = (nmasks as usize).div_ceil(shards);
        let accs = vhcore::par_map_idx(shards, a.jobs, |s| {
            let mut acc = Acc::default();
            let lo = s * per;
            let hi = ((s + 1) * per).min(nmasks as usize);
            for mask in lo..hi {
                let el = edges_of_mask(n, mask as u32);
                for lab in labellings(n, el.len()) {
                    let c = Case {
                        n,
                        edges: el.iter().zip(&lab).map(|(&(x, y), &k)| (x, y, k)).collect(),
                        hole: None,
                    };
                    acc.run(&c, &member);
                }
                for hole in 0..=n {
                    let c = Case {
                        n,
                        edges: el.iter().map(|&(x, y)| (x, y, false)).collect(),
                        hole: Some(hole),
                    };
                    acc.run(&c, &member);
                }
            }
            acc
        });
        for acc in accs {
            total.merge(acc);
        }
    }

    // ---- both tiers: every loop-free digraph on 5 nodes (all library); every DAG among them again with
    //      all-contract / exactly-one-contract labellings and with every vacant-slot position
    let five_note;
    {
        let n = 5usize;
        let pairs: Vec<(usize, usize)> = (0..n)
            .flat_map(|x| (0..n).filter(move |&y| y != x).map(move |y| (x, y)))
            .collect();
        let nmasks = 1usize << pairs.len();
        let shards = 256usize;
        let per = nmasks / shards;
        let accs = vhcore::par_map_idx(shards, a.jobs, |s| {
            let mut acc = Acc::default();
            let mut extra_expected = 0u64;
            for mask in s * per..(s + 1) * per {
                let el: Vec<(usize, usize)> = pairs
                    .iter()
                    .enumerate()
                    .filter(|(i, _)| mask & (1 << i) != 0)
                    .map(|(_, p)| *p)
                    .collect();
                let base = Case {
                    n,
                    edges: el.iter().map(|&(x, y)| (x, y, false)).collect(),
                    hole: None,
                };
                acc.run(&base, &member);
                if !is_cyclic(n, &base.edges) {
                    for lab in labellings(n, el.len()).into_iter().skip(1) {
                        let c = Case {
                            n,
                            edges: el.iter().zip(&lab).map(|(&(x, y), &k)| (x, y, k)).collect(),
                            hole: None,
                        };
                        acc.run(&c, &member);
                        extra_expected += 1;
                    }
                    for hole in 0..=n {
                        let mut c = base.clone();
                        c.hole = Some(hole);
                        acc.run(&c, &member);
                        extra_expected += 1;
                    }
                }
            }
            (acc, extra_expected)
        });
        expected_cases += nmasks as u64;
        for (acc, extra) in accs {
            expected_cases += extra;
            total.merge(acc);
        }
        five_note = format!("all {nmasks} loop-free digraphs on 5 nodes");
    }

    // ---- thorough: every labelled DAG on 6 nodes (built by extending every 5-node DAG with a sixth node in all
    //      4^5 ways and keeping the acyclic results), and for each of them every single back edge that closes a
    //      cycle ("injected cycle": an edge x→y between distinct nodes, not present, with x reachable from y)
    let mut six_note = "not run in the quick tier".to_string();
    if a.tier == Tier::Thorough {
        let n = 6usize;
        let pairs5: Vec<(usize, usize)> = (0..5usize)
            .flat_map(|x| (0..5usize).filter(move |&y| y != x).map(move |y| (x, y)))
            .collect();
        let dags5: Vec<Vec<(usize, usize, bool)>> = (0..1usize << pairs5.len())
            .map(|mask| {
                pairs5
                    .iter()
                    .enumerate()
                    .filter(|(i, _)| mask & (1 << i) != 0)
                    .map(|(_, p)| (p.0, p.1, false))
                    .collect::<Vec<_>>()
            })
            .filter(|el| !is_cyclic(5, el))
            .collect();
        if dags5.len() as u64 != dag_count(5) {
            vhcore::machinery_failure("5-node DAG enumeration does not match Robinson's count");
        }
        let shards = 512usize;
        let per = dags5.len().div_ceil(shards);
        let accs = vhcore::par_map_idx(shards, a.jobs, |s| {
            let mut acc = Acc::default();
            let mut injected = 0u64;
            let lo = (s * per).min(dags5.len());
            let hi = ((s + 1) * per).min(dags5.len());
            for d in &dags5[lo..hi] {
                for m in 0..1usize << 10 {
                    let mut el = d.clone();
                    for j in 0..5 {
                        if m & (1 << j) != 0 {
                            el.push((5, j, false));
                        }
                        if m & (1 << (5 + j)) != 0 {
                            el.push((j, 5, false));
                        }
                    }
                    if is_cyclic(n, &el) {
                        continue;
                    }
                    let base = Case { n, edges: el, hole: None };
                    acc.run(&base, &member);
                    for lab in labellings(n, base.edges.len()).into_iter().skip(1) {
                        let mut c = base.clone();
                        for (e, &k) in c.edges.iter_mut().zip(&lab) {
                            e.2 = k;
                        }
                        acc.run(&c, &member);
                        injected += 1;
                    }
                    for hole in 0..=n {
                        let mut c = base.clone();
                        c.hole = Some(hole);
                        acc.run(&c, &member);
                        injected += 1;
                    }
                    for x in 0..n {
                        for y in 0..n {
                            if x == y || base.edges.iter().any(|e| e.0 == x && e.1 == y) {
                                continue;
                            }
                            let mut c = base.clone();
                            c.edges.push((x, y, false));
                            if is_cyclic(n, &c.edges) {
                                acc.run(&c, &member);
                                injected += 1;
                            }
                        }
                    }
                }
            }
            (acc, injected)
        });
        let mut injected_total = 0u64;
        for (acc, injected) in accs {
            injected_total += injected;
            total.merge(acc);
        }
        expected_cases += dag_count(6) + injected_total;
        six_note = format!(
            "all {} labelled DAGs on 6 nodes, each all-library, all-contract, with exactly one contract edge (every choice), with every vacant-slot position, and with every single cycle-closing back edge ({} derived cases)",
            dag_count(6),
            injected_total
        );
    }

    // ---- vacuity / enumerator guards
    if total.evaluations != expected_cases {
        vhcore::machinery_failure(&format!(
            "enumerator produced {} cases, closed form says {}",
            total.evaluations, expected_cases
        ));
    }
    if total.bad.is_empty() {
        let top = if a.tier == Tier::Thorough { 6 } else { 5 };
        for n in 1..=top {
            let got = total.dags_all_library_no_hole.get(&n).copied().unwrap_or(0);
            if got != dag_count(n as u64) {
                vhcore::machinery_failure(&format!(
                    "number of acyclic {n}-node graphs accepted ({got}) differs from the number of labelled DAGs ({})",
                    dag_count(n as u64)
                ));
            }
        }
        if total.ok_orders == 0 || total.ok_errs == 0 {
            vhcore::machinery_failure("fewer than 2 distinct outcomes observed (vacuous run)");
        }
    }

    for (key, what, replay) in std::mem::take(&mut total.bad) {
        rep.violation(&key, &what, replay);
    }
    for s in std::mem::take(&mut total.samples) {
        rep.sample(s);
    }
    rep.set("evaluations", total.evaluations);
    rep.set("states", total.evaluations);
    rep.set("transitions", total.evaluations);
    rep.set("traces_validated_against_impl", total.evaluations);
    rep.set("distinct_nontrivial", total.nontrivial);
    rep.set(
        "rule",
        "cases = (node count, edge set, library/contract labelling, vacant-slot position), all distinct by construction; \
         a case is non-trivial when it has >= 2 edges between distinct nodes (ordering constraints can interact). \
         Every case is one call of the real forc_pkg::compilation_order on a real forc_pkg::Graph.",
    );
    rep.set("acyclic_cases_ok_order", total.ok_orders);
    rep.set("cyclic_cases_err", total.ok_errs);
    rep.set("distinct_orders_returned", total.distinct_orders.len() as u64);
    rep.set(
        "labelled_dags_accepted_by_node_count",
        json!(total.dags_all_library_no_hole),
    );
    rep.set(
        "bounds",
        json!({
            "digraphs": "all 2^(n*n) edge sets (self loops included) for n = 1..4",
            "labellings": "n<=3: every library/contract labelling; n=4: all-library, all-contract, exactly one contract edge (every choice)",
            "vacant_slot": "every edge set (all-library) additionally with a node added+removed at each of the n+1 slot positions",
            "five_nodes": five_note,
            "six_nodes": six_note,
        }),
    );
    rep.set("exhaustive", true);
    rep.assume("node payloads (package name/source) do not influence compilation_order; all nodes are member packages p0..p5");
    rep.assume("contract edges carry distinct non-zero salts; salt values are not varied further");
    rep.finish()
}

fn replay(a: &Args) -> i32 {
    let Some(p) = &a.replay else {
        vhcore::machinery_failure("usage: replay C22 <path>")
    };
    let txt = std::fs::read_to_string(p)
        .unwrap_or_else(|e| vhcore::machinery_failure(&format!("cannot read {}: {e}", p.display())));
    let v: Value = serde_json::from_str(&txt)
        .unwrap_or_else(|e| vhcore::machinery_failure(&format!("bad replay json: {e}")));
    let body = if v.get("replay").is_some() { &v["replay"] } else { &v };
    let Some(c) = Case::from_json(body) else {
        vhcore::machinery_failure("replay file has no C22 case")
    };
    let member = vh_pkg::mk::member();
    println!("case: {}", c.to_json());
    println!("oracle: graph is {}", if is_cyclic(c.n, &c.edges) { "cyclic" } else { "acyclic" });
    match check_case(&c, &member) {
        Verdict::OkOrder(o) => {
            println!("compilation_order = Ok({o:?}) — property holds");
            0
        }
        Verdict::OkErr => {
            println!("compilation_order = Err — property holds");
            0
        }
        Verdict::Bad(key, what) => {
            println!("VIOLATION property=C22 replay={}", p.display());
            println!("  key={key} what={what}");
            1
        }
    }
}

fn main() {
    // anyhow captures a backtrace for every `Err` when RUST_BACKTRACE is set; the cyclic half of the space is
    // millions of errors and the capture serialises all threads. The error's text is all the oracle reads.
    std::env::set_var("RUST_LIB_BACKTRACE", "0");
    let a = vhcore::parse_args();
    vhcore::silence_panics();
    let code = match a.cmd.as_str() {
        "check" => run(&a),
        "replay" => replay(&a),
        _ => vhcore::machinery_failure("usage: c22 check C22 --tier quick|thorough | replay C22 <path>"),
    };
    std::process::exit(code);
}

//! C15 — builds are deterministic.
//!
//! Bounded enumeration of the *environment's answers*: every package of a fixed set is built by
//! `forc_pkg::build_with_options` in a FRESH process (`c15 build-once …`) under every combination of
//!   hash seed s ∈ {0..K-1}  — forced through an LD_PRELOAD shim (/verif/tools/getrandom_shim.c) that
//!                             makes getrandom()/getentropy()/syscall(SYS_getrandom) return bytes
//!                             derived from VERIF_SEED, i.e. fixes std's `RandomState` keys;
//!   ASLR ∈ {on, off}        — off through `setarch -R` (ahash's fallback keys and pointer-keyed
//!                             maps depend on addresses);
//!   RAYON_NUM_THREADS ∈ {1, 16}.
//! Oracle: bytecode, JSON ABI, storage-slots JSON (and forc's own output files *.bin, *-abi.json,
//! *-storage_slots.json, *-bin-root / *-bin-hash), plus the contract id / predicate root recomputed
//! from them, are byte-identical across all environments.
//!
//! Honest limit: 2^128 seeds cannot be enumerated; K forced seeds give K independent iteration
//! orders for every std HashMap/HashSet of the compiler. The machinery first proves that the shim
//! really controls `std::collections::HashMap` (self-test) and that `setarch -R` really fixes
//! addresses; otherwise it is a machinery failure.
use serde_json::{json, Value};
use std::collections::{BTreeMap, BTreeSet};
use std::path::{Path, PathBuf};
use std::process::{Command, Stdio};
use std::time::{Duration, Instant};

fn main() {
    let a = vhcore::parse_args();
    let code = match a.cmd.as_str() {
        "build-once" => build_once(&a.rest),
        "selftest" => selftest(),
        "check" => run(&a),
        "replay" => replay(&a),
        _ => vhcore::machinery_failure("usage: c15 check C15 --tier quick|thorough | c15 replay C15 <file>"),
    };
    std::process::exit(code);
}

// ---------------------------------------------------------------------------------------------
// Child side

/// `c15 build-once <package dir> <out json> <release|debug> [tests]`
fn build_once(rest: &[String]) -> i32 {
    if rest.len() < 3 {
        eprintln!("usage: build-once <package dir> <out json> <release|debug> [tests]");
        return 2;
    }
    let dir = &rest[0];
    let out = PathBuf::from(&rest[1]);
    let release = rest[2] == "release";
    let tests = rest.get(3).map(|s| s == "tests").unwrap_or(false);
    let outdir = PathBuf::from(format!("{}.d", out.display()));
    let opts = forc_pkg::BuildOpts {
        pkg: forc_pkg::PkgOpts {
            path: Some(dir.clone()),
            offline: true,
            terse: true,
            output_directory: Some(outdir.to_string_lossy().to_string()),
            ..Default::default()
        },
        build_profile: forc_pkg::BuildProfile::DEBUG.into(),
        release,
        tests,
        ..Default::default()
    };
    let built = match forc_pkg::build_with_options(&opts, None) {
        Ok(forc_pkg::Built::Package(p)) => p,
        Ok(forc_pkg::Built::Workspace(_)) => {
            eprintln!("BUILD-ERROR: workspace");
            return 3;
        }
        Err(e) => {
            eprintln!("BUILD-ERROR: {e:#}");
            return 3;
        }
    };
    let tree = forc_util::program_type_str(&built.tree_type);
    let abi = built.json_abi_string(false).ok().flatten();
    let slots = serde_json::to_string_pretty(&built.storage_slots).unwrap_or_default();
    let contract_id = if tree == "contract" {
        Some(format!(
            "{}",
            forc_pkg::contract_id(&built.bytecode.bytes, built.storage_slots.clone(), &fuel_tx::Salt::zeroed())
        ))
    } else {
        None
    };
    let predicate_root = if tree == "predicate" {
        Some(format!("{}", fuel_tx::Input::predicate_owner(&built.bytecode.bytes)))
    } else {
        None
    };
    // forc's own output files
    let mut files = BTreeMap::new();
    if let Ok(rd) = std::fs::read_dir(&outdir) {
        for e in rd.filter_map(|e| e.ok()) {
            let n = e.file_name().to_string_lossy().to_string();
            if let Ok(b) = std::fs::read(e.path()) {
                files.insert(n, hex::encode(b));
            }
        }
    }
    let v = json!({
        "tree_type": tree,
        "bytecode": hex::encode(&built.bytecode.bytes),
        "bytecode_without_tests": built.bytecode_without_tests.as_ref().map(|b| hex::encode(&b.bytes)),
        "bytecode_root": format!("{}", fuel_tx::Contract::root_from_code(&built.bytecode.bytes)),
        "abi": abi,
        "storage_slots": slots,
        "contract_id": contract_id,
        "predicate_root": predicate_root,
        "entries": built.bytecode.entries.iter().map(|e| json!({"fn": e.finalized.fn_name, "imm": e.finalized.imm, "selector": e.finalized.selector.map(hex::encode)})).collect::<Vec<_>>(),
        "files": files,
    });
    if let Err(e) = std::fs::write(&out, serde_json::to_string(&v).unwrap()) {
        eprintln!("cannot write {}: {e}", out.display());
        return 2;
    }
    let _ = std::fs::remove_dir_all(&outdir);
    0
}

/// Prints the iteration order of a std HashMap / HashSet with 20 keys and a few addresses.
fn selftest() -> i32 {
    let mut m: std::collections::HashMap<String, u32> = std::collections::HashMap::new();
    for i in 0..20u32 {
        m.insert(format!("key{i}"), i);
    }
    let order: Vec<String> = m.values().map(|v| v.to_string()).collect();
    let stack = 0u8;
    let heap = Box::new(0u8);
    println!("ORDER {}", order.join(","));
    println!(
        "ADDR stack={:p} heap={:p} text={:p}",
        &stack as *const u8,
        &*heap as *const u8,
        selftest as *const ()
    );
    0
}

// ---------------------------------------------------------------------------------------------
// Parent side

#[derive(Clone, Debug, PartialEq, Eq, PartialOrd, Ord)]
struct Env {
    seed: u32,
    aslr: bool,
    threads: u32,
}

impl Env {
    fn label(&self) -> String {
        format!("seed={} aslr={} threads={}", self.seed, if self.aslr { "on" } else { "off" }, self.threads)
    }
    fn json(&self) -> Value {
        json!({"seed": self.seed, "aslr": self.aslr, "threads": self.threads})
    }
}

struct Ctx {
    exe: PathBuf,
    shim: PathBuf,
    work: PathBuf,
    home: PathBuf,
}

fn child_cmd(ctx: &Ctx, env: Option<&Env>) -> Command {
    let mut cmd;
    match env {
        Some(e) if !e.aslr => {
            cmd = Command::new("setarch");
            cmd.arg(std::env::consts::ARCH).arg("-R").arg(&ctx.exe);
        }
        _ => cmd = Command::new(&ctx.exe),
    }
    cmd.env_clear()
        .env("PATH", std::env::var("PATH").unwrap_or_else(|_| "/usr/bin:/bin".into()))
        .env("HOME", &ctx.home)
        .stdin(Stdio::null());
    if let Some(e) = env {
        cmd.env("LD_PRELOAD", &ctx.shim)
            .env("VERIF_SEED", e.seed.to_string())
            .env("RAYON_NUM_THREADS", e.threads.to_string());
    }
    cmd
}

fn wait_with_timeout(mut child: std::process::Child, timeout: Duration) -> Option<std::process::Output> {
    let t0 = Instant::now();
    loop {
        match child.try_wait() {
            Ok(Some(_)) => return child.wait_with_output().ok(),
            Ok(None) => {
                if t0.elapsed() > timeout {
                    let _ = child.kill();
                    let _ = child.wait();
                    return None;
                }
                std::thread::sleep(Duration::from_millis(5));
            }
            Err(_) => return None,
        }
    }
}

fn ensure_shim(ctx_shim: &Path) {
    let src = vhcore::verif_root().join("tools/getrandom_shim.c");
    let src = if src.exists() { src } else { PathBuf::from("/verif/tools/getrandom_shim.c") };
    if !src.exists() {
        vhcore::machinery_failure("tools/getrandom_shim.c not found");
    }
    let fresh = match (std::fs::metadata(ctx_shim).and_then(|m| m.modified()), std::fs::metadata(&src).and_then(|m| m.modified())) {
        (Ok(a), Ok(b)) => a >= b,
        _ => false,
    };
    if fresh {
        return;
    }
    let tmp = ctx_shim.with_extension(format!("so.{}", std::process::id()));
    let st = Command::new("gcc").args(["-shared", "-fPIC", "-O2", "-o"]).arg(&tmp).arg(&src).arg("-ldl").status();
    if !matches!(st, Ok(s) if s.success()) {
        vhcore::machinery_failure("gcc could not build getrandom_shim.so");
    }
    if std::fs::rename(&tmp, ctx_shim).is_err() {
        vhcore::machinery_failure("cannot install getrandom_shim.so");
    }
}

fn run_selftest(ctx: &Ctx, env: Option<&Env>, shim_log: Option<&Path>) -> (String, String) {
    let mut cmd = child_cmd(ctx, env);
    cmd.arg("selftest").stdout(Stdio::piped()).stderr(Stdio::piped());
    if let Some(l) = shim_log {
        cmd.env("VERIF_SHIM_LOG", l);
    }
    let child = cmd.spawn().unwrap_or_else(|e| vhcore::machinery_failure(&format!("spawn selftest: {e}")));
    let Some(out) = wait_with_timeout(child, Duration::from_secs(900)) else {
        vhcore::machinery_failure("selftest timed out")
    };
    if !out.status.success() {
        vhcore::machinery_failure(&format!("selftest failed under {:?}: {}", env.map(|e| e.label()), String::from_utf8_lossy(&out.stderr)));
    }
    let s = String::from_utf8_lossy(&out.stdout).to_string();
    let order = s.lines().find_map(|l| l.strip_prefix("ORDER ")).unwrap_or("").to_string();
    let addr = s.lines().find_map(|l| l.strip_prefix("ADDR ")).unwrap_or("").to_string();
    (order, addr)
}

#[derive(Clone)]
struct Pkg {
    name: String,
    dir: PathBuf,
    /// build with `tests: true` (libraries)
    tests: bool,
    profiles: Vec<&'static str>,
    /// where it came from (hand-written sources or an e2e directory)
    origin: Value,
    /// package name used in class keys (stable across runs)
    key: String,
}

fn w(p: &Path, s: &str) {
    if let Some(d) = p.parent() {
        let _ = std::fs::create_dir_all(d);
    }
    std::fs::write(p, s).unwrap_or_else(|e| vhcore::machinery_failure(&format!("write {}: {e}", p.display())));
}

fn manifest(name: &str, entry: &str, with_std: bool) -> String {
    let std = vhcore::repo_root().join("sway-lib-std");
    if with_std {
        format!("[project]\nauthors = [\"verif\"]\nentry = \"{entry}\"\nlicense = \"Apache-2.0\"\nname = \"{name}\"\n\n[dependencies]\nstd = {{ path = \"{}\" }}\n", std.display())
    } else {
        format!("[project]\nauthors = [\"verif\"]\nentry = \"{entry}\"\nlicense = \"Apache-2.0\"\nname = \"{name}\"\nimplicit-std = false\n")
    }
}

/// Script with groups of *identical* functions (what fn-dedup merges — the survivor must not depend
/// on a hash order), interleaved with near-duplicates that differ in exactly one thing.
fn src_dedup_script() -> String {
    let mut s = String::from("script;\n\n");
    let mut calls = vec![];
    for g in 0..6u64 {
        for c in 0..4u64 {
            // identical bodies inside a group
            s.push_str(&format!(
                "#[inline(never)]\nfn same_{g}_{c}(x: u64, y: u64) -> u64 {{\n    let mut acc = x * {} + y;\n    let mut i = 0;\n    while i < {} {{\n        acc = acc ^ (acc << 3) + i;\n        i += 1;\n    }}\n    acc\n}}\n\n",
                g + 3,
                g + 2
            ));
            calls.push(format!("same_{g}_{c}(r, {})", c + 1));
            // near-duplicates: constant, operand order, predicate, width
            s.push_str(&format!(
                "#[inline(never)]\nfn near_{g}_{c}(x: u64, y: u64) -> u64 {{\n    let mut acc = {} * {} + {};\n    if {} {{\n        acc = acc + {};\n    }}\n    acc\n}}\n\n",
                if c % 2 == 0 { "x" } else { "y" },
                g + 3 + (c / 2),
                if c % 2 == 0 { "y" } else { "x" },
                if c < 2 { "x < y" } else { "x <= y" },
                g * 4 + c
            ));
            calls.push(format!("near_{g}_{c}(r, {})", c + 2));
        }
    }
    s.push_str("struct P { a: u64, b: u32 }\n\n#[inline(never)]\nfn gen<T>(t: T) -> T { t }\n\n");
    s.push_str("fn main() -> u64 {\n    let mut r = 1;\n");
    for c in &calls {
        s.push_str(&format!("    r = {c} ^ r;\n"));
    }
    s.push_str("    let p = gen(P { a: r, b: 7u32 });\n    let q = gen(P { a: 3, b: 9u32 });\n    let t = gen((r, 1u8));\n    log(p.a);\n    log(q.b);\n    p.a + q.a + t.0\n}\n");
    s
}

fn src_contract() -> String {
    r#"contract;

use std::hash::*;
use std::storage::storage_vec::*;

struct Point {
    x: u64,
    y: u64,
}

enum Kind {
    A: (),
    B: u64,
    C: Point,
}

configurable {
    FEE: u64 = 11,
    OWNER: b256 = 0x0101010101010101010101010101010101010101010101010101010101010101,
    ORIGIN: Point = Point { x: 3, y: 4 },
    FLAG: bool = true,
    LIMITS: [u32; 3] = [1u32, 2u32, 3u32],
    LABEL: str[5] = __to_str_array("hello"),
}

storage {
    counter: u64 = 5,
    owner: b256 = 0x0202020202020202020202020202020202020202020202020202020202020202,
    origin: Point = Point { x: 1, y: 2 },
    kind: Kind = Kind::B(9),
    balances: StorageMap<b256, u64> = StorageMap {},
    points: StorageMap<u64, Point> = StorageMap {},
    history: StorageVec<u64> = StorageVec {},
    ns1 {
        a: u64 = 100,
        b: u256 = 0x0000000000000000000000000000000000000000000000000000000000000fffu256,
    },
    ns2 {
        a: u64 = 200,
        inner { z: u8 = 7 },
    },
}

abi Store {
    #[storage(read)]
    fn get_counter() -> u64;
    #[storage(read, write)]
    fn bump(by: u64) -> u64;
    #[storage(read)]
    fn get_origin() -> Point;
    #[storage(write)]
    fn set_origin(p: Point);
    #[storage(read, write)]
    fn credit(who: b256, amount: u64) -> u64;
    #[storage(read)]
    fn kind_tag() -> u64;
    #[storage(read, write)]
    fn push(v: u64) -> u64;
    fn fee(x: u64) -> (u64, bool, Point);
    fn label_len() -> u64;
    fn echo(k: Kind, v: Vec<u64>, o: Option<u32>) -> u64;
}

impl Store for Contract {
    #[storage(read)]
    fn get_counter() -> u64 {
        storage.counter.read() + storage::ns1.a.read() + storage::ns2.a.read()
    }
    #[storage(read, write)]
    fn bump(by: u64) -> u64 {
        let v = storage.counter.read() + by + FEE;
        storage.counter.write(v);
        log(v);
        v
    }
    #[storage(read)]
    fn get_origin() -> Point {
        storage.origin.read()
    }
    #[storage(write)]
    fn set_origin(p: Point) {
        storage.origin.write(p);
    }
    #[storage(read, write)]
    fn credit(who: b256, amount: u64) -> u64 {
        let cur = storage.balances.get(who).try_read().unwrap_or(0);
        storage.balances.insert(who, cur + amount);
        storage.points.insert(amount, Point { x: cur, y: amount });
        log(Point { x: cur, y: amount });
        cur + amount
    }
    #[storage(read)]
    fn kind_tag() -> u64 {
        match storage.kind.read() {
            Kind::A => 0,
            Kind::B(v) => v,
            Kind::C(p) => p.x + p.y,
        }
    }
    #[storage(read, write)]
    fn push(v: u64) -> u64 {
        storage.history.push(v);
        storage.history.len()
    }
    fn fee(x: u64) -> (u64, bool, Point) {
        (x * FEE + LIMITS[1].as_u64(), FLAG, ORIGIN)
    }
    fn label_len() -> u64 {
        let s: str = from_str_array(LABEL);
        if OWNER == b256::zero() { 0 } else { s.len() }
    }
    fn echo(k: Kind, v: Vec<u64>, o: Option<u32>) -> u64 {
        let base = match k {
            Kind::A => 1,
            Kind::B(x) => x,
            Kind::C(p) => p.y,
        };
        base + v.len() + o.unwrap_or(0u32).as_u64()
    }
}
"#
    .to_string()
}

fn src_predicate() -> String {
    r#"predicate;

use std::hash::*;

struct Auth {
    id: u64,
    key: b256,
}

enum Mode {
    Open: (),
    Keyed: Auth,
}

configurable {
    THRESHOLD: u64 = 3,
    EXPECTED: b256 = 0x0303030303030303030303030303030303030303030303030303030303030303,
    ALLOWED: [u64; 4] = [2, 3, 5, 7],
}

#[inline(never)]
fn check_a(a: Auth) -> bool {
    a.id > THRESHOLD && a.key == EXPECTED
}

#[inline(never)]
fn check_b(a: Auth) -> bool {
    a.id > THRESHOLD && a.key == EXPECTED
}

fn main(mode: Mode, n: u64, extra: (u8, bool)) -> bool {
    let mut ok = false;
    let mut i = 0;
    while i < 4 {
        if ALLOWED[i] == n {
            ok = true;
        }
        i += 1;
    }
    let digest = sha256((n, extra.0));
    match mode {
        Mode::Open => ok && extra.1 && digest != b256::zero(),
        Mode::Keyed(a) => check_a(Auth { id: a.id, key: a.key }) && check_b(a) && ok,
    }
}
"#
    .to_string()
}

fn src_lib_tests() -> String {
    let mut s = String::from("library;\n\npub struct W { pub v: u64 }\n\npub trait Twice { fn twice(self) -> Self; }\n\nimpl Twice for u64 { fn twice(self) -> Self { self * 2 } }\nimpl Twice for u32 { fn twice(self) -> Self { self * 2u32 } }\nimpl Twice for W { fn twice(self) -> Self { W { v: self.v * 2 } } }\n\npub fn pick<T>(a: T, b: T, first: bool) -> T { if first { a } else { b } }\n\n");
    for i in 0..12u64 {
        s.push_str(&format!(
            "#[test]\nfn t_{i}() {{\n    let x = pick({i}, {}, {});\n    assert(x.twice() == {});\n    let w = pick(W {{ v: {i} }}, W {{ v: 1 }}, true).twice();\n    assert(w.v == {});\n    log(w.v);\n}}\n\n",
            i + 1,
            i % 2 == 0,
            if i % 2 == 0 { i * 2 } else { (i + 1) * 2 },
            i * 2
        ));
    }
    s.push_str("#[test(should_revert)]\nfn t_revert() {\n    let v: u64 = pick(1, 2, false);\n    assert(v.twice() == 3);\n}\n");
    s
}

fn hand_written(ctx: &Ctx) -> Vec<Pkg> {
    let base = ctx.work.join("pkgs");
    let mk = |name: &str, entry: &str, src: String, tests: bool| -> Pkg {
        let dir = base.join(name);
        w(&dir.join("Forc.toml"), &manifest(name, entry, true));
        w(&dir.join("src").join(entry), &src);
        Pkg {
            name: name.to_string(),
            dir,
            tests,
            profiles: vec!["release", "debug"],
            origin: json!({"hand_written": name, "entry": entry, "source": src}),
            key: name.to_string(),
        }
    };
    vec![
        mk("c15_dedup_script", "main.sw", src_dedup_script(), false),
        mk("c15_store_contract", "main.sw", src_contract(), false),
        mk("c15_predicate", "main.sw", src_predicate(), false),
        mk("c15_lib_tests", "lib.sw", src_lib_tests(), true),
    ]
}

fn copy_pkg(from: &Path, to: &Path) {
    fn rec(from: &Path, to: &Path) {
        let _ = std::fs::create_dir_all(to);
        let Ok(rd) = std::fs::read_dir(from) else { return };
        for e in rd.filter_map(|e| e.ok()) {
            let n = e.file_name().to_string_lossy().to_string();
            if n == "out" || n == "target" || n == "Forc.lock" {
                continue;
            }
            let p = e.path();
            if p.is_dir() {
                rec(&p, &to.join(&n));
            } else {
                let _ = std::fs::copy(&p, to.join(&n));
            }
        }
    }
    rec(from, to);
}

/// Rewrite every `path = "<relative>"` of a manifest to the absolute path inside the repository.
fn absolutize_paths(manifest: &str, orig_dir: &Path) -> String {
    let mut out = String::new();
    for line in manifest.lines() {
        let mut l = line.to_string();
        let mut from = 0;
        while let Some(p) = l[from..].find("path") {
            let st = from + p;
            let rest = &l[st + 4..];
            let t = rest.trim_start();
            if let Some(t2) = t.strip_prefix('=') {
                let t3 = t2.trim_start();
                if let Some(t4) = t3.strip_prefix('"') {
                    if let Some(end) = t4.find('"') {
                        let rel = &t4[..end];
                        let abs = orig_dir.join(rel);
                        let abs = abs.canonicalize().unwrap_or(abs);
                        let val_start = l.len() - t4.len();
                        let new = format!("{}{}{}", &l[..val_start], abs.display(), &l[val_start + end..]);
                        from = val_start + abs.to_string_lossy().len();
                        l = new;
                        continue;
                    }
                }
            }
            from = st + 4;
        }
        out.push_str(&l);
        out.push('\n');
    }
    out
}

fn e2e_candidates() -> Vec<PathBuf> {
    fn walk(d: &Path, out: &mut Vec<PathBuf>) {
        let Ok(rd) = std::fs::read_dir(d) else { return };
        let mut es: Vec<_> = rd.filter_map(|e| e.ok()).collect();
        es.sort_by_key(|e| e.file_name());
        if d.join("Forc.toml").exists() {
            out.push(d.to_path_buf());
            return;
        }
        for e in es {
            if e.path().is_dir() {
                walk(&e.path(), out);
            }
        }
    }
    let mut out = vec![];
    walk(&vhcore::repo_root().join("test/src/e2e_vm_tests/test_programs/should_pass"), &mut out);
    out
}

struct BuildRes {
    ok: bool,
    err: String,
    json: Option<String>,
    wall_ms: u128,
}

fn run_build(ctx: &Ctx, pkg: &Pkg, profile: &str, env: &Env, tag: &str) -> BuildRes {
    let out = ctx.work.join("runs").join(format!("{}-{}-{}.json", pkg.name, profile, tag));
    let _ = std::fs::create_dir_all(out.parent().unwrap());
    let _ = std::fs::remove_file(&out);
    let mut cmd = child_cmd(ctx, Some(env));
    cmd.arg("build-once").arg(&pkg.dir).arg(&out).arg(profile);
    if pkg.tests {
        cmd.arg("tests");
    }
    cmd.stdout(Stdio::null()).stderr(Stdio::piped()).current_dir(&ctx.work);
    let t0 = Instant::now();
    let child = match cmd.spawn() {
        Ok(c) => c,
        Err(e) => return BuildRes { ok: false, err: format!("spawn: {e}"), json: None, wall_ms: 0 },
    };
    let Some(o) = wait_with_timeout(child, Duration::from_secs(3600)) else {
        return BuildRes { ok: false, err: "timeout".into(), json: None, wall_ms: t0.elapsed().as_millis() };
    };
    let wall_ms = t0.elapsed().as_millis();
    if !o.status.success() {
        let e = String::from_utf8_lossy(&o.stderr);
        let l = e.lines().find(|l| l.contains("BUILD-ERROR") || l.contains("panicked")).unwrap_or_else(|| e.lines().next().unwrap_or(""));
        return BuildRes { ok: false, err: format!("{:?}: {}", o.status.code(), vhcore::truncate(l, 300)), json: None, wall_ms };
    }
    let js = std::fs::read_to_string(&out).ok();
    let _ = std::fs::remove_file(&out);
    BuildRes { ok: js.is_some(), err: String::new(), json: js, wall_ms }
}

/// The artefacts of the property statement (debug_symbols.obj is reported separately).
fn artefacts(js: &str) -> BTreeMap<String, String> {
    let v: Value = serde_json::from_str(js).unwrap_or(Value::Null);
    let mut m = BTreeMap::new();
    for k in ["tree_type", "bytecode", "bytecode_without_tests", "bytecode_root", "abi", "storage_slots", "contract_id", "predicate_root", "entries"] {
        m.insert(k.to_string(), v[k].to_string());
    }
    if let Some(f) = v["files"].as_object() {
        for (n, c) in f {
            m.insert(format!("file:{n}"), c.as_str().unwrap_or("").to_string());
        }
    }
    m
}

fn envs_for(k: u32) -> Vec<Env> {
    let mut v = vec![];
    for seed in 0..k {
        for aslr in [true, false] {
            for threads in [1u32, 16] {
                v.push(Env { seed, aslr, threads });
            }
        }
    }
    v
}

/// Which environment dimensions separate the differing builds from the reference?
fn separating_dims(diff_envs: &[Env], same_envs: &[Env]) -> String {
    let mut dims = vec![];
    let proj = |f: &dyn Fn(&Env) -> u32| -> bool {
        // the dimension "explains" the split if no value of it occurs on both sides
        let a: BTreeSet<u32> = diff_envs.iter().map(|e| f(e)).collect();
        let b: BTreeSet<u32> = same_envs.iter().map(|e| f(e)).collect();
        a.is_disjoint(&b)
    };
    if proj(&|e| e.seed) {
        dims.push("hash-seed");
    }
    if proj(&|e| e.aslr as u32) {
        dims.push("aslr");
    }
    if proj(&|e| e.threads) {
        dims.push("threads");
    }
    if dims.is_empty() {
        "mixed".into()
    } else {
        dims.join("+")
    }
}

fn setup_ctx(work: PathBuf) -> Ctx {
    let exe = std::env::current_exe().unwrap_or_else(|e| vhcore::machinery_failure(&format!("current_exe: {e}")));
    // <target>/release/c15 → <target>/getrandom_shim.so
    let shim = exe.parent().and_then(|p| p.parent()).map(|p| p.join("getrandom_shim.so")).unwrap_or_else(|| PathBuf::from("/verif/target/getrandom_shim.so"));
    ensure_shim(&shim);
    let home = work.join("home");
    let _ = std::fs::create_dir_all(&home);
    Ctx { exe, shim, work, home }
}

fn run(a: &vhcore::Args) -> i32 {
    let mut rep = vhcore::Reporter::from_args(a, "exploration");
    let work = vhcore::work_dir("C15");
    let ctx = setup_ctx(work);
    let thorough = a.tier == vhcore::Tier::Thorough;
    // debugging aids (the run is then reported as not exhaustive): VH_C15_K = number of forced seeds,
    // VH_C15_E2E_TRY / VH_C15_E2E_N = e2e candidates tried / selected in the thorough tier
    let env_num = |n: &str| std::env::var(n).ok().and_then(|s| s.parse::<usize>().ok());
    let k: u32 = env_num("VH_C15_K").map(|v| v as u32).unwrap_or(a.tier.pick(4, 16));
    let debug_knobs = env_num("VH_C15_K").is_some() || env_num("VH_C15_E2E_TRY").is_some() || env_num("VH_C15_E2E_N").is_some();

    // ---- 1. prove that the environment knobs work
    let shim_log = ctx.work.join("shim.log");
    let mut orders = BTreeSet::new();
    for seed in 0..k {
        let e = Env { seed, aslr: true, threads: 1 };
        let (o1, _) = run_selftest(&ctx, Some(&e), Some(&shim_log));
        let (o2, _) = run_selftest(&ctx, Some(&Env { seed, aslr: false, threads: 16 }), None);
        if o1.is_empty() || o1 != o2 {
            vhcore::machinery_failure(&format!("getrandom shim: HashMap order differs for the same VERIF_SEED={seed}: {o1} vs {o2}"));
        }
        orders.insert(o1);
    }
    if orders.len() != k as usize {
        vhcore::machinery_failure(&format!("getrandom shim: {} distinct HashMap orders for {k} seeds — std's RandomState is not controlled by the shim", orders.len()));
    }
    let shim_calls: u64 = std::fs::read_to_string(&shim_log).unwrap_or_default().lines().filter_map(|l| l.trim().parse::<u64>().ok()).sum();
    if shim_calls == 0 {
        vhcore::machinery_failure("getrandom shim was never called by the self-test");
    }
    let (n1, _) = run_selftest(&ctx, None, None);
    let (n2, _) = run_selftest(&ctx, None, None);
    rep.set("selftest_distinct_hashmap_orders_over_forced_seeds", orders.len() as u64);
    rep.set("selftest_unforced_orders_differ", n1 != n2);
    let e0 = Env { seed: 0, aslr: false, threads: 1 };
    let (_, a1) = run_selftest(&ctx, Some(&e0), None);
    let (_, a2) = run_selftest(&ctx, Some(&e0), None);
    let e1 = Env { seed: 0, aslr: true, threads: 1 };
    let (_, b1) = run_selftest(&ctx, Some(&e1), None);
    let (_, b2) = run_selftest(&ctx, Some(&e1), None);
    if a1.is_empty() || a1 != a2 {
        vhcore::machinery_failure(&format!("`setarch -R` does not fix the address space: {a1} vs {a2}"));
    }
    if b1 == b2 {
        vhcore::machinery_failure(&format!("ASLR seems to be off system-wide (two runs have identical addresses {b1}); the ASLR dimension would be vacuous"));
    }
    rep.set("selftest_aslr", json!({"off_run1": a1, "off_run2": a2, "on_run1": b1, "on_run2": b2}));

    // ---- 2. packages
    let mut pkgs = hand_written(&ctx);
    // debugging aid: VH_C15_ONLY=a,b keeps only the hand-written packages whose name contains one of
    // the given strings (the run is then reported as not exhaustive)
    let only: Option<Vec<String>> = std::env::var("VH_C15_ONLY").ok().map(|s| s.split(',').map(|x| x.trim().to_string()).collect());
    if let Some(o) = &only {
        pkgs.retain(|p| o.iter().any(|x| p.name.contains(x.as_str())));
        if pkgs.is_empty() {
            vhcore::machinery_failure("VH_C15_ONLY matches no package");
        }
        rep.cap(&format!("VH_C15_ONLY={} — only these packages were built", o.join(",")));
    }
    let envs_full = envs_for(k);
    let ref_env = Env { seed: 0, aslr: true, threads: 1 };
    // reference builds (also write Forc.lock once, so that the parallel builds only read the package directory)
    let refs: Vec<Vec<BuildRes>> = vhcore::par_map(&pkgs, a.jobs, |p| p.profiles.iter().map(|pr| run_build(&ctx, p, pr, &ref_env, "ref")).collect());
    for (p, rs) in pkgs.iter().zip(refs.iter()) {
        for (pr, r) in p.profiles.iter().zip(rs.iter()) {
            if !r.ok {
                vhcore::machinery_failure(&format!("hand-written package {} does not build ({pr}): {}", p.name, r.err));
            }
        }
    }
    let mut ref_json: BTreeMap<(String, String), String> = BTreeMap::new();
    let mut build_ms: Vec<u128> = vec![];
    for (p, rs) in pkgs.iter().zip(refs.into_iter()) {
        for (pr, r) in p.profiles.iter().zip(rs.into_iter()) {
            build_ms.push(r.wall_ms);
            ref_json.insert((p.name.clone(), pr.to_string()), r.json.unwrap());
        }
    }
    let mut evaluations = build_ms.len() as u64;

    // ---- audit of one real build under strace: which randomness / threads does a build use?
    if Command::new("strace").arg("-V").output().map(|o| o.status.success()).unwrap_or(false) {
        let p = pkgs.iter().find(|p| p.name == "c15_predicate").unwrap_or(&pkgs[0]);
        let tr = ctx.work.join("audit.trace");
        let log = ctx.work.join("audit.shim.log");
        let out = ctx.work.join("runs").join("audit.json");
        let mut cmd = Command::new("strace");
        cmd.arg("-f").arg("-o").arg(&tr).arg("-e").arg("trace=getrandom,clone,clone3,fork,vfork,openat").arg(&ctx.exe);
        cmd.arg("build-once").arg(&p.dir).arg(&out).arg("release");
        cmd.env_clear()
            .env("PATH", std::env::var("PATH").unwrap_or_else(|_| "/usr/bin:/bin".into()))
            .env("HOME", &ctx.home)
            .env("LD_PRELOAD", &ctx.shim)
            .env("VERIF_SEED", "1")
            .env("VERIF_SHIM_LOG", &log)
            .stdin(Stdio::null())
            .stdout(Stdio::null())
            .stderr(Stdio::null());
        if let Ok(child) = cmd.spawn() {
            if wait_with_timeout(child, Duration::from_secs(900)).is_some() {
                let t = String::from_utf8_lossy(&std::fs::read(&tr).unwrap_or_default()).to_string();
                let residual: Vec<&str> = t.lines().filter(|l| l.contains(" getrandom(")).collect();
                let threads = t.lines().filter(|l| l.contains(" clone(") || l.contains(" clone3(") || l.contains(" fork(") || l.contains(" vfork(")).count();
                let urandom = t.lines().filter(|l| l.contains("/dev/urandom") || l.contains("/dev/random")).count();
                let calls: u64 = std::fs::read_to_string(&log).unwrap_or_default().lines().filter_map(|l| l.trim().parse::<u64>().ok()).sum();
                rep.set(
                    "build_audit",
                    json!({
                        "package": p.name,
                        "randomness_requests_answered_by_the_shim": calls,
                        "getrandom_syscalls_that_bypassed_the_shim": residual.len(),
                        "bypassing_calls": residual.iter().take(3).map(|l| vhcore::truncate(l, 120)).collect::<Vec<_>>(),
                        "opens_of_dev_urandom": urandom,
                        "threads_or_processes_spawned_by_the_build": threads,
                    }),
                );
                if calls == 0 {
                    vhcore::machinery_failure("audit: the build never asked the shim for randomness — the hash-seed dimension would be vacuous");
                }
                if urandom > 0 {
                    vhcore::machinery_failure("audit: the build reads /dev/urandom, which the shim does not control");
                }
            }
        }
        let _ = std::fs::remove_file(&out);
    }

    if thorough {
        // e2e packages: deterministic stride over the sorted list, first 20 that build offline
        // packages that depend on test/src/e2e_vm_tests/reduced_std_libs cannot be built without the
        // e2e harness (it generates those libraries' sources at run time, inside /repo)
        let all_cands = e2e_candidates();
        rep.set("e2e_packages_total", all_cands.len() as u64);
        let cands: Vec<PathBuf> = all_cands
            .into_iter()
            .filter(|d| {
                std::fs::read_to_string(d.join("Forc.toml"))
                    .map(|m| !m.contains("reduced_std_libs") && m.contains("[project]") && !m.contains("[workspace]"))
                    .unwrap_or(false)
            })
            .collect();
        let want = env_num("VH_C15_E2E_N").unwrap_or(20);
        let stride = (cands.len() / 60).max(1);
        let mut picked: Vec<PathBuf> = cands.iter().step_by(stride).cloned().collect();
        if let Some(t) = env_num("VH_C15_E2E_TRY") {
            picked.truncate(t);
        }
        rep.set("e2e_candidates_total", cands.len() as u64);
        rep.set("e2e_candidates_tried", picked.len() as u64);
        let mut e2e: Vec<Pkg> = vec![];
        for (i, d) in picked.iter().enumerate() {
            let Ok(m) = std::fs::read_to_string(d.join("Forc.toml")) else { continue };
            if m.contains("[workspace]") || !m.contains("[project]") {
                continue;
            }
            let name = format!("e2e{:02}_{}", i, d.file_name().unwrap().to_string_lossy());
            let dir = ctx.work.join("pkgs").join(&name);
            copy_pkg(d, &dir);
            w(&dir.join("Forc.toml"), &absolutize_paths(&m, d));
            let is_lib = std::fs::read_to_string(dir.join("src/lib.sw")).map(|s| s.trim_start().starts_with("library")).unwrap_or(false)
                && m.contains("entry = \"lib.sw\"");
            e2e.push(Pkg {
                name,
                dir,
                tests: is_lib,
                profiles: vec!["release"],
                origin: json!({"e2e": d.strip_prefix(vhcore::repo_root()).unwrap_or(d).to_string_lossy()}),
                key: format!("e2e:{}", d.file_name().unwrap().to_string_lossy()),
            });
        }
        let rs: Vec<BuildRes> = vhcore::par_map(&e2e, a.jobs, |p| run_build(&ctx, p, "release", &ref_env, "ref"));
        let mut skipped = vec![];
        for (p, r) in e2e.into_iter().zip(rs.into_iter()) {
            evaluations += 1;
            if r.ok && pkgs.iter().filter(|p| p.name.starts_with("e2e")).count() < want {
                ref_json.insert((p.name.clone(), "release".into()), r.json.unwrap());
                pkgs.push(p);
            } else if !r.ok {
                skipped.push(json!({"pkg": p.name, "why": r.err}));
            }
        }
        rep.set("e2e_selected", json!(pkgs.iter().filter(|p| p.name.starts_with("e2e")).map(|p| p.origin.clone()).collect::<Vec<_>>()));
        rep.set("e2e_skipped_do_not_build_offline", json!(skipped));
    }

    // ---- 3. every environment
    let mut tasks: Vec<(usize, &'static str, Env)> = vec![];
    for (pi, p) in pkgs.iter().enumerate() {
        for pr in &p.profiles {
            for e in &envs_full {
                if *e == ref_env {
                    continue;
                }
                tasks.push((pi, pr, e.clone()));
            }
        }
    }
    let expected = tasks.len();
    let results: Vec<BuildRes> = vhcore::par_map_idx(tasks.len(), a.jobs, |i| {
        let (pi, pr, e) = &tasks[i];
        run_build(&ctx, &pkgs[*pi], pr, e, &format!("t{i}"))
    });
    evaluations += results.len() as u64;

    // ---- 4. compare
    let mut nontrivial: BTreeSet<String> = BTreeSet::new();
    let mut debug_obj_varies = 0u64;
    let mut failures = vec![];
    let mut by_case: BTreeMap<(usize, &'static str), Vec<(Env, BTreeMap<String, String>)>> = BTreeMap::new();
    for ((pi, pr, e), r) in tasks.iter().zip(results.iter()) {
        if !r.ok {
            failures.push(format!("{} {} {}: {}", pkgs[*pi].name, pr, e.label(), r.err));
            continue;
        }
        build_ms.push(r.wall_ms);
        by_case.entry((*pi, pr)).or_default().push((e.clone(), artefacts(r.json.as_ref().unwrap())));
    }
    if let Some(t) = failures.iter().find(|f| f.ends_with(": timeout")) {
        // cannot tell a hang from an overloaded machine: never a verdict
        vhcore::machinery_failure(&format!("a build did not finish within the watchdog time: {t}"));
    }
    if !failures.is_empty() {
        // the same package built in the reference environment: a failure in another environment is
        // itself a nondeterminism of the build
        for f in failures.iter().take(5) {
            eprintln!("build failed: {f}");
        }
    }
    let mut distinct_bytecodes: BTreeSet<String> = BTreeSet::new();
    for ((pi, pr), runs) in &by_case {
        let p = &pkgs[*pi];
        let reference = artefacts(&ref_json[&(p.name.clone(), pr.to_string())]);
        distinct_bytecodes.insert(reference["bytecode"].clone());
        if reference["bytecode"].len() > 2 + 2 * 16 {
            nontrivial.insert(format!("{}|{}", p.name, pr));
        }
        // artefact → envs that differ
        let mut diff: BTreeMap<String, Vec<Env>> = BTreeMap::new();
        for (e, art) in runs {
            for (k, v) in &reference {
                if art.get(k) != Some(v) {
                    if k == "file:debug_symbols.obj" {
                        debug_obj_varies += 1;
                        continue;
                    }
                    diff.entry(k.clone()).or_default().push(e.clone());
                }
            }
            for k in art.keys() {
                if !reference.contains_key(k) {
                    diff.entry(k.clone()).or_default().push(e.clone());
                }
            }
        }
        // report the primary artefact only (bytecode before the things derived from it)
        let order = ["bytecode", "abi", "storage_slots", "entries", "bytecode_without_tests", "tree_type"];
        let mut reported = false;
        for k in order.iter().map(|s| s.to_string()).chain(diff.keys().cloned().collect::<Vec<_>>()) {
            let Some(envs) = diff.get(&k) else { continue };
            if reported && !order.contains(&k.as_str()) {
                continue; // derived files / ids follow from the primary artefact
            }
            let same: Vec<Env> = runs.iter().map(|(e, _)| e.clone()).filter(|e| !envs.contains(e)).chain(std::iter::once(ref_env.clone())).collect();
            let dims = separating_dims(envs, &same);
            let key = format!("C15|{}|{}|{}|varies-with-{}", p.key, pr, k, dims);
            let e = &envs[0];
            rep.violation(
                &key,
                &format!("{} ({pr}): `{k}` differs from the reference build (seed=0 aslr=on threads=1) in {} of {} environments, e.g. {}", p.name, envs.len(), runs.len(), e.label()),
                json!({"package": p.origin, "name": p.name, "profile": pr, "tests": p.tests, "artefact": k, "env_a": ref_env.json(), "env_b": e.json()}),
            );
            reported = true;
        }
    }
    for f in &failures {
        let name = f.split(' ').next().unwrap_or("");
        let key = pkgs.iter().find(|p| p.name == name).map(|p| p.key.clone()).unwrap_or_else(|| name.to_string());
        rep.violation(&format!("C15|{key}|build-fails-in-some-environment"), f, json!({"failure": f}));
    }
    if by_case.is_empty() || (distinct_bytecodes.len() < 2 && rep.violation_count() == 0) {
        vhcore::machinery_failure("vacuity guard: fewer than 2 distinct bytecodes were produced");
    }
    if results.len() != expected {
        vhcore::machinery_failure("enumerator produced a different number of builds than planned");
    }
    build_ms.sort();
    rep.set("evaluations", evaluations);
    rep.set("environments_per_package_profile", envs_full.len() as u64);
    rep.set("packages", json!(pkgs.iter().map(|p| json!({"name": p.name, "profiles": p.profiles, "tests": p.tests})).collect::<Vec<_>>()));
    rep.set("distinct_nontrivial", nontrivial.len() as u64);
    rep.set("rule", "every (package, profile) pair is built in a fresh process under every (forced hash seed, ASLR on/off, RAYON_NUM_THREADS) combination and compared byte for byte with the reference environment; distinct_nontrivial = (package, profile) pairs with more than 16 bytes of bytecode whose complete environment set was built");
    rep.set("distinct_bytecodes", distinct_bytecodes.len() as u64);
    rep.set("debug_symbols_obj_differences_not_part_of_the_property", debug_obj_varies);
    rep.set("median_build_ms", build_ms.get(build_ms.len() / 2).copied().unwrap_or(0) as u64);
    rep.set("shim_calls_in_selftests", shim_calls);
    rep.sample(json!({"package": pkgs[0].name, "profile": "release", "env": ref_env.json(), "bytecode_bytes": artefacts(&ref_json[&(pkgs[0].name.clone(), "release".to_string())])["bytecode"].len() / 2 - 1}));
    for (i, ((pi, pr, e), r)) in tasks.iter().zip(results.iter()).enumerate() {
        if i % (tasks.len() / 6).max(1) == 0 && r.ok {
            rep.sample(json!({"package": pkgs[*pi].name, "profile": pr, "env": e.json(), "identical_to_reference": artefacts(r.json.as_ref().unwrap()).iter().filter(|(k, _)| k.as_str() != "file:debug_symbols.obj").all(|(k, v)| artefacts(&ref_json[&(pkgs[*pi].name.clone(), pr.to_string())]).get(k) == Some(v))}));
        }
    }
    rep.set("exhaustive", only.is_none() && !debug_knobs);
    if debug_knobs {
        rep.cap("VH_C15_K / VH_C15_E2E_TRY / VH_C15_E2E_N debugging knobs were set: reduced space");
    }
    rep.assume("2^128 hash seeds cannot be enumerated: K forced seeds give K independent iteration orders for every std HashMap/HashSet; hashers that do not draw from the OS (FxHash, ahash's fixed fallback keys mixed with addresses) are covered only by the ASLR on/off dimension");
    rep.assume("the shim replaces getrandom(), getentropy() and syscall(SYS_getrandom) with a pure function of VERIF_SEED (the same bytes on every call, so all threads get the same keys); AT_RANDOM (16 kernel bytes used by glibc for the stack protector) is not controlled");
    rep.assume("the compile path of forc-pkg/sway-core spawns no worker threads and does not use rayon (checked by grep; RAYON_NUM_THREADS is kept as a dimension because indexmap's rayon feature is enabled), so 'thread timing' has nothing to act on in a single build");
    rep.assume("the package directory (absolute path) is the same for all builds of a package; path-dependence of artefacts is out of scope");
    if !thorough {
        rep.cap("quick tier: K = 4 seeds, hand-written packages only");
    }
    rep.finish()
}

fn replay(a: &vhcore::Args) -> i32 {
    let Some(path) = &a.replay else { vhcore::machinery_failure("usage: c15 replay C15 <file>") };
    let txt = std::fs::read_to_string(path).unwrap_or_else(|e| vhcore::machinery_failure(&format!("read {}: {e}", path.display())));
    let v: Value = serde_json::from_str(&txt).unwrap_or_else(|e| vhcore::machinery_failure(&format!("parse: {e}")));
    let rp = &v["replay"];
    let work = vhcore::work_dir("C15replay");
    let ctx = setup_ctx(work);
    let name = rp["name"].as_str().unwrap_or("pkg").to_string();
    let dir = ctx.work.join("pkgs").join(&name);
    if let Some(src) = rp["package"]["source"].as_str() {
        let entry = rp["package"]["entry"].as_str().unwrap_or("main.sw");
        w(&dir.join("Forc.toml"), &manifest(&name, entry, true));
        w(&dir.join("src").join(entry), src);
    } else if let Some(rel) = rp["package"]["e2e"].as_str() {
        let d = vhcore::repo_root().join(rel);
        let m = std::fs::read_to_string(d.join("Forc.toml")).unwrap_or_else(|e| vhcore::machinery_failure(&format!("{rel}: {e}")));
        copy_pkg(&d, &dir);
        w(&dir.join("Forc.toml"), &absolutize_paths(&m, &d));
    } else {
        vhcore::machinery_failure("replay file names no package");
    }
    let profile: &'static str = if rp["profile"].as_str() == Some("debug") { "debug" } else { "release" };
    let pkg = Pkg { name, dir, tests: rp["tests"].as_bool().unwrap_or(false), profiles: vec![profile], origin: rp["package"].clone(), key: String::new() };
    let env_of = |v: &Value| Env { seed: v["seed"].as_u64().unwrap_or(0) as u32, aslr: v["aslr"].as_bool().unwrap_or(true), threads: v["threads"].as_u64().unwrap_or(1) as u32 };
    let ea = env_of(&rp["env_a"]);
    let eb = env_of(&rp["env_b"]);
    let ra = run_build(&ctx, &pkg, profile, &ea, "a");
    let rb = run_build(&ctx, &pkg, profile, &eb, "b");
    if !ra.ok || !rb.ok {
        println!("build A ({}): ok={} {}\nbuild B ({}): ok={} {}", ea.label(), ra.ok, ra.err, eb.label(), rb.ok, rb.err);
        return if ra.ok != rb.ok { 1 } else { 2 };
    }
    let aa = artefacts(ra.json.as_ref().unwrap());
    let ab = artefacts(rb.json.as_ref().unwrap());
    let mut bad = false;
    for (k, v) in &aa {
        if k == "file:debug_symbols.obj" {
            continue;
        }
        if ab.get(k) != Some(v) {
            bad = true;
            let o = ab.get(k).cloned().unwrap_or_default();
            let pos = v.bytes().zip(o.bytes()).position(|(x, y)| x != y).unwrap_or(v.len().min(o.len()));
            println!("`{k}` differs between [{}] and [{}]: lengths {} / {}, first difference at character {pos}", ea.label(), eb.label(), v.len(), o.len());
        }
    }
    if bad {
        println!("still violates");
        1
    } else {
        println!("artefacts identical in both environments");
        0
    }
}

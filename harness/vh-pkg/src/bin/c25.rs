//! C25 — dirty-file flags are never lost between processes.
//!
//! E-sched over REAL processes: every virtual process is a child process of this binary
//! (`c25 child <program> <file>`), sharing one harness-owned $HOME. The cfg-guarded step points of
//! forc-util's `PidFileLocking` (hook H4) make the child announce `STEP <label>` before each
//! file-system operation and wait for `GO`; the parent is the scheduler and serialises the
//! children, so an execution is one total order of the real file-system operations of the real
//! code, with real pids and the real `ps` liveness probe. A crash is SIGKILL + reap at a step.
//! The explorer (vhcore::sched) runs every interleaving within the preemption / crash bounds.
use serde_json::json;
use std::io::{BufRead, BufReader, Write};
use std::path::{Path, PathBuf};
use std::process::{Child, ChildStdin, Command, Stdio};
use std::sync::atomic::{AtomicU64, Ordering};
use std::sync::mpsc;
use std::time::Duration;
use vhcore::sched::{Alt, Bounds, Point};

fn main() {
    let a = vhcore::parse_args();
    let code = match a.cmd.as_str() {
        "child" => child(&a.rest),
        "check" => run(&a),
        "replay" => replay(&a),
        _ => vhcore::machinery_failure("usage: c25 check C25 --tier quick|thorough"),
    };
    std::process::exit(code);
}

// ---------------------------------------------------------------------------------------------
// Child side: one virtual process

fn child(args: &[String]) -> i32 {
    use forc_util::fs_locking::{is_file_dirty, PidFileLocking};
    let program = args.first().map(|s| s.as_str()).unwrap_or("");
    let file = args.get(1).cloned().unwrap_or_else(|| "/proj/src/main.sw".into());
    fn gate(label: &str) {
        let out = std::io::stdout();
        {
            let mut o = out.lock();
            let _ = writeln!(o, "STEP {label}");
            let _ = o.flush();
        }
        let mut line = String::new();
        if std::io::stdin().lock().read_line(&mut line).unwrap_or(0) == 0 {
            std::process::exit(3);
        }
    }
    fn ev(s: &str) {
        let out = std::io::stdout();
        let mut o = out.lock();
        let _ = writeln!(o, "EV {s}");
        let _ = o.flush();
    }
    if program == "ghost" {
        // a former owner that died without clearing its flag: runs free, before the exploration
        let r = PidFileLocking::lsp(&file).lock();
        return if r.is_ok() { 0 } else { 4 };
    }
    forc_util::fs_locking::verif::set_step(Box::new(|label| gate(label)));
    gate("start");
    match program {
        // mark dirty, hold, clear
        "owner" => {
            let l = PidFileLocking::lsp(&file);
            let r = l.lock();
            ev(&format!("lock_ret {}", r.is_ok()));
            gate("hold");
            ev("release_begin");
            let r = l.release();
            ev(&format!("release_ret {}", r.is_ok()));
        }
        // mark dirty and keep holding until the end of the execution (never releases)
        "holder" => {
            let l = PidFileLocking::lsp(&file);
            let r = l.lock();
            ev(&format!("lock_ret {}", r.is_ok()));
            // a long-lived owner (the language server): the scheduler lets it continue only when
            // every other process has finished
            gate("holdwait");
        }
        // what forc-fmt does before touching a file
        "checker" => {
            ev("check_begin");
            let d = is_file_dirty(&file);
            ev(&format!("check_end {d}"));
        }
        "checker2" => {
            for _ in 0..2 {
                ev("check_begin");
                let d = is_file_dirty(&file);
                ev(&format!("check_end {d}"));
            }
        }
        // any forc process start
        "cleaner" => {
            let _ = PidFileLocking::cleanup_stale_files();
            ev("cleanup_done");
        }
        _ => return 2,
    }
    let out = std::io::stdout();
    let mut o = out.lock();
    let _ = writeln!(o, "DONE");
    let _ = o.flush();
    0
}

// ---------------------------------------------------------------------------------------------
// Parent side: scheduler

#[derive(Clone, Debug, PartialEq)]
enum St {
    Waiting(String),
    Done,
    Crashed,
}

struct Proc {
    child: Child,
    stdin: Option<ChildStdin>,
    rx: mpsc::Receiver<Option<String>>,
    st: St,
    started: bool,
}

#[derive(Clone, Debug, serde::Serialize)]
struct Event {
    seq: usize,
    proc: usize,
    what: String,
}

#[derive(Clone, Debug, Default, serde::Serialize)]
struct Trace {
    schedule: Vec<String>,
    events: Vec<Event>,
    crashed: Vec<(usize, usize)>, // (proc, seq)
    states: Vec<u64>,
    /// after every step: (events so far, a flag naming a LIVE process exists, directory contents)
    snapshots: Vec<(usize, bool, String)>,
}

static RUN_COUNTER: AtomicU64 = AtomicU64::new(0);

fn spawn(program: &str, home: &Path, file: &str) -> Proc {
    let exe = std::env::current_exe().unwrap();
    let mut child = Command::new(exe)
        .arg("child")
        .arg(program)
        .arg(file)
        .env("HOME", home)
        .stdin(Stdio::piped())
        .stdout(Stdio::piped())
        .stderr(Stdio::null())
        .spawn()
        .unwrap_or_else(|e| vhcore::machinery_failure(&format!("spawn child: {e}")));
    let stdin = child.stdin.take();
    let stdout = child.stdout.take().unwrap();
    let (tx, rx) = mpsc::channel();
    std::thread::spawn(move || {
        for l in BufReader::new(stdout).lines() {
            match l {
                Ok(l) => {
                    if tx.send(Some(l)).is_err() {
                        return;
                    }
                }
                Err(_) => break,
            }
        }
        let _ = tx.send(None);
    });
    Proc {
        child,
        stdin,
        rx,
        st: St::Waiting("unstarted".into()),
        started: false,
    }
}

/// Let process `i` run to its next step / completion, collecting its events.
fn advance(procs: &mut [Proc], i: usize, trace: &mut Trace, go: bool) {
    let p = &mut procs[i];
    if go {
        if let Some(si) = p.stdin.as_mut() {
            let _ = si.write_all(b"GO\n");
            let _ = si.flush();
        }
    }
    loop {
        match p.rx.recv_timeout(Duration::from_secs(900)) {
            Ok(Some(l)) => {
                if let Some(label) = l.strip_prefix("STEP ") {
                    p.st = St::Waiting(label.to_string());
                    return;
                } else if let Some(e) = l.strip_prefix("EV ") {
                    let seq = trace.events.len();
                    trace.events.push(Event {
                        seq,
                        proc: i,
                        what: e.to_string(),
                    });
                } else if l == "DONE" {
                    let seq = trace.events.len();
                    trace.events.push(Event { seq, proc: i, what: "EXIT".into() });
                    p.st = St::Done;
                    let _ = p.child.wait();
                    return;
                }
            }
            Ok(None) => {
                let _ = p.child.wait();
                vhcore::machinery_failure(&format!("child {i} exited unexpectedly"));
            }
            Err(_) => vhcore::machinery_failure(&format!("child {i} made no progress for 900 s")),
        }
    }
}

/// The monitor's view of the lock directory. Every child is parked when this runs, so the
/// directory cannot change; a failed or inconsistent read (fd pressure on a loaded machine) must
/// never look like "no flag": read until two consecutive reads agree, fail loudly otherwise.
fn dir_state(home: &Path, pids: &[u32]) -> String {
    let mut last: Option<String> = None;
    for _ in 0..8 {
        match dir_state_once(home, pids) {
            Some(s) => {
                if last.as_deref() == Some(s.as_str()) {
                    return s;
                }
                last = Some(s);
            }
            None => std::thread::sleep(Duration::from_millis(20)),
        }
    }
    vhcore::machinery_failure("the monitor could not obtain two consistent reads of the lock directory")
}

fn dir_state_once(home: &Path, pids: &[u32]) -> Option<String> {
    let d = home.join(".forc").join(".lsp-locks");
    let mut items = vec![];
    for e in std::fs::read_dir(&d).ok()? {
        let e = e.ok()?;
        let content = std::fs::read_to_string(e.path()).ok()?;
        let norm = match content.trim().parse::<u32>() {
            Ok(p) => match pids.iter().position(|x| *x == p) {
                Some(i) => format!("pid#{i}"),
                None => "pid?".to_string(),
            },
            Err(_) => format!("raw:{content}"),
        };
        items.push(norm);
    }
    items.sort();
    Some(items.join(","))
}

fn hash(s: &str) -> u64 {
    use std::hash::{Hash, Hasher};
    let mut h = std::collections::hash_map::DefaultHasher::new();
    s.hash(&mut h);
    h.finish()
}

/// One execution of `programs` following the choice prefix.
fn execute(programs: &[&str], allow_crash: &[bool], prefix: &[usize], work: &Path, stale: bool) -> (Vec<Point>, Trace) {
    let id = RUN_COUNTER.fetch_add(1, Ordering::Relaxed);
    let home = work.join(format!("h{id}"));
    let _ = std::fs::remove_dir_all(&home);
    std::fs::create_dir_all(home.join(".forc").join(".lsp-locks")).unwrap();
    let file = "/proj/src/main.sw";
    if stale {
        // initial state: the flag of an owner that has died (written by the real code)
        let st = Command::new(std::env::current_exe().unwrap())
            .arg("child")
            .arg("ghost")
            .arg(file)
            .env("HOME", &home)
            .stdin(Stdio::null())
            .stdout(Stdio::null())
            .stderr(Stdio::null())
            .status();
        if !matches!(st, Ok(s) if s.success()) || dir_state(&home, &[]) != "pid?" {
            vhcore::machinery_failure("could not set up the stale flag");
        }
    }
    let mut procs: Vec<Proc> = programs.iter().map(|p| spawn(p, &home, file)).collect();
    let mut trace = Trace::default();
    // every child announces STEP start first
    for i in 0..procs.len() {
        advance(&mut procs, i, &mut trace, false);
    }
    let pids: Vec<u32> = procs.iter().map(|p| p.child.id()).collect();
    let mut points: Vec<Point> = vec![];
    let mut running: Option<usize> = None;
    loop {
        let others_finished = |i: usize, procs: &Vec<Proc>| (0..procs.len()).all(|j| j == i || !matches!(procs[j].st, St::Waiting(ref l) if l != "holdwait"));
        let waiting: Vec<usize> = (0..procs.len())
            .filter(|i| match &procs[*i].st {
                St::Waiting(l) if l == "holdwait" => others_finished(*i, &procs),
                St::Waiting(_) => true,
                _ => false,
            })
            .collect();
        if waiting.is_empty() {
            break;
        }
        // canonical order: running thread first if still enabled, then ascending ids
        let mut order: Vec<usize> = vec![];
        let running_enabled = running.map(|r| waiting.contains(&r)).unwrap_or(false);
        if running_enabled {
            order.push(running.unwrap());
        }
        for w in &waiting {
            if Some(*w) != running || !running_enabled {
                if !order.contains(w) {
                    order.push(*w);
                }
            }
        }
        let mut alts: Vec<Alt> = vec![];
        let mut actions: Vec<(usize, bool)> = vec![]; // (proc, crash?)
        for (k, p) in order.iter().enumerate() {
            let label = match &procs[*p].st {
                St::Waiting(l) => l.clone(),
                _ => unreachable!(),
            };
            alts.push(Alt {
                label: format!("run p{p}@{label}"),
                preempt: if running_enabled && k > 0 { 1 } else { 0 },
                fault: 0,
            });
            actions.push((*p, false));
        }
        let mut crashable: Vec<usize> = order.clone();
        for i in 0..procs.len() {
            // a long-lived owner parked at `holdwait` is not schedulable but can still be killed
            if matches!(procs[i].st, St::Waiting(_)) && !crashable.contains(&i) {
                crashable.push(i);
            }
        }
        for p in &crashable {
            if allow_crash[*p] && procs[*p].started {
                let label = match &procs[*p].st {
                    St::Waiting(l) => l.clone(),
                    _ => unreachable!(),
                };
                alts.push(Alt {
                    label: format!("crash p{p}@{label}"),
                    preempt: 0,
                    fault: 1,
                });
                actions.push((*p, true));
            }
        }
        let idx = points.len();
        let chosen = if idx < prefix.len() { prefix[idx] } else { 0 };
        if chosen >= alts.len() {
            vhcore::machinery_failure(&format!(
                "schedule divergence: choice {chosen} of {} at point {idx}",
                alts.len()
            ));
        }
        trace.schedule.push(alts[chosen].label.clone());
        let (p, crash) = actions[chosen];
        points.push(Point { alts, chosen });
        if crash {
            let _ = procs[p].child.kill();
            let _ = procs[p].child.wait();
            procs[p].st = St::Crashed;
            procs[p].stdin = None;
            trace.crashed.push((p, trace.events.len()));
            let seq = trace.events.len();
            trace.events.push(Event {
                seq,
                proc: p,
                what: "CRASH".into(),
            });
        } else {
            procs[p].started = true;
            advance(&mut procs, p, &mut trace, true);
            running = Some(p);
        }
        let st: Vec<String> = procs.iter().map(|p| format!("{:?}", p.st)).collect();
        let dir = dir_state(&home, &pids);
        let live_flag = dir.split(',').any(|it| {
            it.strip_prefix("pid#")
                .and_then(|i| i.parse::<usize>().ok())
                .map(|i| matches!(procs[i].st, St::Waiting(_)))
                .unwrap_or(false)
        });
        trace.snapshots.push((trace.events.len(), live_flag, dir.clone()));
        trace.states.push(hash(&format!("{}|{}", dir, st.join(";"))));
    }
    for p in procs.iter_mut() {
        let _ = p.child.kill();
        let _ = p.child.wait();
    }
    let _ = std::fs::remove_dir_all(&home);
    (points, trace)
}

// ---------------------------------------------------------------------------------------------
// Oracle

/// Returns (class key, description) for every violation of the property in this execution.
fn judge(programs: &[&str], t: &Trace) -> Vec<(String, String)> {
    let mut out = vec![];
    // a process that is gone — killed or exited normally — no longer holds a flag
    let crash_seq = |p: usize| {
        t.events
            .iter()
            .find(|e| e.proc == p && (e.what == "CRASH" || e.what == "EXIT"))
            .map(|e| e.seq)
    };
    // lock windows of each process: (proc, lock_ok_seq, end_seq) where end = release_begin / crash / end
    let mut windows: Vec<(usize, usize, usize)> = vec![];
    for e in &t.events {
        if e.what == "lock_ret true" {
            let end = t
                .events
                .iter()
                .find(|f| f.proc == e.proc && f.seq > e.seq && (f.what == "release_begin" || f.what == "CRASH" || f.what == "EXIT"))
                .map(|f| f.seq)
                .unwrap_or(usize::MAX);
            windows.push((e.proc, e.seq, end));
        }
    }
    // completed checks: (proc, begin, end, value)
    let mut checks: Vec<(usize, usize, usize, bool)> = vec![];
    for e in &t.events {
        if e.what == "check_begin" {
            if let Some(f) = t
                .events
                .iter()
                .find(|f| f.proc == e.proc && f.seq > e.seq && f.what.starts_with("check_end"))
            {
                checks.push((e.proc, e.seq, f.seq, f.what.ends_with("true")));
            }
        }
    }
    let multi_lockers = programs.iter().filter(|p| **p == "owner" || **p == "holder").count() > 1;
    let kind = if multi_lockers { "two-lockers" } else { "single-locker" };
    // (s) state invariant = the instantaneous checker: whenever some process is inside its lock
    // window (lock() returned Ok, release not begun, alive), the lock directory holds a flag that
    // names a live process — otherwise a check performed right now would answer "clean"
    // The class key names the operation that destroyed the flag (the step executed right before the
    // first violating state) and what it left behind, not the cast of the scenario.
    let mut reported: Vec<usize> = vec![];
    for (si, (n_events, live_flag, dir)) in t.snapshots.iter().enumerate() {
        if *live_flag {
            continue;
        }
        for (wi, (op, ls, le)) in windows.iter().enumerate() {
            if ls < n_events && (*le == usize::MAX || le >= n_events) && !reported.contains(&wi) {
                reported.push(wi);
                let step = t.schedule.get(si).cloned().unwrap_or_default();
                let by_label = step.split('@').nth(1).unwrap_or("?").to_string();
                let by_proc: Option<usize> = step.split(" p").nth(1).and_then(|r| r.split('@').next()).and_then(|n| n.parse().ok());
                let who = if step.starts_with("crash") {
                    "crash"
                } else if by_proc == Some(*op) {
                    "own"
                } else {
                    "other"
                };
                let left = if dir.is_empty() {
                    "empty"
                } else if dir.contains("raw:") {
                    "unparsable"
                } else {
                    "dead-or-foreign-pid"
                };
                out.push((
                    // a crash destroys nothing itself: the step at which the other process died does not matter
                    if who == "crash" {
                        format!("C25|no-live-flag-while-owner-holds|{kind}|by=crash-of-the-process-named-in-the-flag|left={left}")
                    } else {
                        format!("C25|no-live-flag-while-owner-holds|{kind}|by={who}:{by_label}|left={left}")
                    },
                    format!(
                        "process {op} ({}) returned Ok from lock() at event {ls} and has not begun release, but after step `{step}` the lock directory holds no flag naming a live process (contents: [{dir}])",
                        programs[*op]
                    ),
                ));
            }
        }
    }
    for (cp, cb, ce, val) in &checks {
        // (a) a live owner's flag must be visible
        for (op, ls, le) in &windows {
            if op != cp && cb > ls && ce < le && !val {
                let with = programs
                    .iter()
                    .enumerate()
                    .filter(|(i, _)| i != op && i != cp)
                    .map(|(_, p)| *p)
                    .collect::<Vec<_>>()
                    .join("+");
                out.push((
                    format!("C25|flag-of-live-owner-invisible|{kind}|third={with}"),
                    format!(
                        "process {op} ({}) returned from lock() at event {ls} and had not begun release (until {le}), yet process {cp}'s is_file_dirty() (events {cb}..{ce}) returned false",
                        programs[*op]
                    ),
                ));
            }
        }
        // (b) after every locker has crashed / released and nothing else holds, a check that
        // starts afterwards must be false
        let someone_may_hold = (0..programs.len()).any(|p| {
            if p == *cp || !(programs[p] == "owner" || programs[p] == "holder") {
                return false;
            }
            // process p may hold the flag at some point during the check unless it crashed before the
            // check began or finished its release before the check began
            let crashed_before = crash_seq(p).map(|s| s < *cb).unwrap_or(false);
            let released_before = t
                .events
                .iter()
                .any(|f| f.proc == p && f.seq < *cb && f.what.starts_with("release_ret"));
            !(crashed_before || released_before)
        });
        if !someone_may_hold && *val {
            out.push((
                "C25|dead-or-released-flag-still-dirty".to_string(),
                format!("process {cp}'s is_file_dirty() (events {cb}..{ce}) returned true although every locker had crashed or released before it began"),
            ));
        }
    }
    out
}

// ---------------------------------------------------------------------------------------------

struct Scenario {
    name: &'static str,
    programs: Vec<&'static str>,
    crash: Vec<bool>,
    preempt: u32,
    fault: u32,
    /// start from the flag of a dead former owner
    stale: bool,
}

fn scenarios(thorough: bool) -> Vec<Scenario> {
    let sc = |name: &'static str, programs: Vec<&'static str>, crash: Vec<bool>, preempt: u32, fault: u32| Scenario { name, programs, crash, preempt, fault, stale: name.starts_with("stale+") };
    if thorough {
        // shortest scenarios first: a capped or interrupted run has then covered the most classes
        vec![
            sc("holder|owner", vec!["holder", "owner"], vec![true, true], 3, 1),
            sc("stale+owner|checker", vec!["owner", "checker"], vec![true, false], 4, 1),
            sc("stale+owner|cleaner", vec!["owner", "cleaner"], vec![true, false], 4, 1),
            sc("stale+holder|owner", vec!["holder", "owner"], vec![false, false], 3, 0),
            sc("holder|owner|checker", vec!["holder", "owner", "checker"], vec![true, false, false], 2, 1),
            sc("owner|checker|checker", vec!["owner", "checker", "checker"], vec![true, false, false], 2, 1),
            sc("holder|cleaner|checker", vec!["holder", "cleaner", "checker"], vec![true, false, false], 2, 1),
            sc("holder|checker2", vec!["holder", "checker2"], vec![true, false], 4, 1),
            sc("owner|cleaner", vec!["owner", "cleaner"], vec![true, false], 99, 1),
            sc("owner|checker", vec!["owner", "checker"], vec![true, false], 99, 1),
            sc("owner|owner", vec!["owner", "owner"], vec![true, true], 3, 1),
        ]
    } else {
        vec![
            sc("owner|checker", vec!["owner", "checker"], vec![true, false], 2, 1),
            sc("owner|cleaner", vec!["owner", "cleaner"], vec![true, false], 2, 0),
            sc("holder|checker2", vec!["holder", "checker2"], vec![true, false], 2, 1),
            sc("owner|owner", vec!["owner", "owner"], vec![false, false], 1, 0),
            sc("holder|cleaner|checker", vec!["holder", "cleaner", "checker"], vec![false, false, false], 1, 0),
            sc("holder|owner", vec!["holder", "owner"], vec![false, false], 2, 0),
            sc("stale+owner|checker", vec!["owner", "checker"], vec![false, false], 2, 0),
            sc("stale+owner|cleaner", vec!["owner", "cleaner"], vec![false, false], 2, 0),
        ]
    }
}

fn run(a: &vhcore::Args) -> i32 {
    let mut rep = vhcore::Reporter::from_args(a, "model_checking");
    let work = vhcore::work_dir("C25");
    let thorough = a.tier == vhcore::Tier::Thorough;
    let mut total_exec = 0u64;
    let mut total_points = 0u64;
    let mut states = std::collections::BTreeSet::new();
    let mut outcomes = vhcore::Distinct::default();
    let mut per_scn = vec![];
    let mut exhaustive = true;
    for sc in scenarios(thorough) {
        let programs = sc.programs.clone();
        let crash = sc.crash.clone();
        let work2 = work.clone();
        let stale = sc.stale;
        let runf = move |prefix: &[usize]| -> (Vec<Point>, Trace) { execute(&programs, &crash, prefix, &work2, stale) };
        let mut viols: Vec<(String, String, Trace)> = vec![];
        let mut local_states = std::collections::BTreeSet::new();
        let mut local_outcomes = vhcore::Distinct::default();
        let mut sample: Option<Trace> = None;
        let progs = sc.programs.clone();
        let mut visit = |_choices: &[usize], _points: &[Point], t: Trace| {
            for s in &t.states {
                local_states.insert(*s);
            }
            let obs: Vec<&str> = t.events.iter().map(|e| e.what.as_str()).collect();
            local_outcomes.add(&obs);
            for (k, w) in judge(&progs, &t) {
                if !viols.iter().any(|(k2, _, _)| *k2 == k) {
                    viols.push((k, w, t.clone()));
                }
            }
            if sample.is_none() {
                sample = Some(t);
            }
        };
        let stats = vhcore::sched::explore(
            Bounds { preempt: sc.preempt, fault: sc.fault },
            a.jobs,
            if thorough { 400_000 } else { 20_000 },
            &runf,
            &mut visit,
        );
        if stats.capped {
            exhaustive = false;
            rep.cap(&format!("scenario {} hit the execution cap at {} executions", sc.name, stats.executions));
        }
        total_exec += stats.executions;
        total_points += stats.points;
        states.extend(local_states.iter().copied());
        outcomes.merge(local_outcomes);
        per_scn.push(json!({"scenario": sc.name, "preemption_bound": sc.preempt, "crash_bound": sc.fault, "executions": stats.executions, "steps": stats.points, "max_depth": stats.max_depth, "distinct_states": local_states.len()}));
        eprintln!("[C25] {} executions={} steps={}", sc.name, stats.executions, stats.points);
        if let Some(t) = sample {
            rep.sample(json!({"scenario": sc.name, "schedule": t.schedule, "events": t.events.iter().map(|e| format!("p{}:{}", e.proc, e.what)).collect::<Vec<_>>()}));
        }
        for (k, w, t) in viols {
            rep.violation(&k, &format!("[{}] {w}", sc.name), json!({"scenario": sc.name, "programs": sc.programs, "stale": sc.stale, "schedule": t.schedule, "events": t.events}));
        }
    }
    if outcomes.len() < 2 {
        vhcore::machinery_failure("vacuous: fewer than 2 distinct observation sequences");
    }
    rep.set("evaluations", total_exec);
    rep.set("states", states.len() as u64);
    rep.set("transitions", total_points);
    rep.set("traces_validated_against_impl", total_exec);
    rep.set("distinct_nontrivial", outcomes.len() as u64);
    rep.set("rule", "stateless DFS over all interleavings of the H4 step points of real child processes (real PidFileLocking code, real pids, real `ps`), within the per-scenario preemption and crash bounds (99 = unbounded); oracles: every completed is_file_dirty() against the lock windows, and after EVERY step the state invariant 'an owner inside its lock window => the directory holds a flag naming a live process'; `stale+` scenarios start from the flag of a dead former owner written by the real code; states = distinct (lock directory contents, per-process program counter); distinct_nontrivial = distinct event sequences observed");
    rep.set("scenarios", json!(per_scn));
    rep.set("exhaustive", exhaustive);
    rep.set("prefix_divergences_retried", vhcore::sched::DIVERGENCE_RETRIES.load(std::sync::atomic::Ordering::SeqCst));
    rep.assume("sequential consistency at the granularity of one file-system operation (exact for POSIX path operations between processes)");
    rep.assume("crash = SIGKILL at a step point; completed operations persist (process crash, not power loss)");
    rep.finish()
}

fn replay(a: &vhcore::Args) -> i32 {
    let path = a.replay.clone().unwrap_or_else(|| vhcore::machinery_failure("replay needs a file"));
    let v: serde_json::Value = serde_json::from_str(&std::fs::read_to_string(path).unwrap()).unwrap();
    let r = &v["replay"];
    let programs: Vec<String> = r["programs"].as_array().unwrap().iter().map(|s| s.as_str().unwrap().to_string()).collect();
    let progs: Vec<&str> = programs.iter().map(|s| s.as_str()).collect();
    let want: Vec<String> = r["schedule"].as_array().unwrap().iter().map(|s| s.as_str().unwrap().to_string()).collect();
    let work = vhcore::work_dir("C25-replay");
    // re-derive the choice indices by matching labels step by step
    let crash = vec![true; progs.len()];
    let mut prefix: Vec<usize> = vec![];
    loop {
        let (points, t) = execute(&progs, &crash, &prefix, &work, r["stale"].as_bool().unwrap_or(false));
        if prefix.len() == want.len() || prefix.len() >= points.len() {
            for e in &t.events {
                println!("  p{} {}", e.proc, e.what);
            }
            let vs = judge(&progs, &t);
            for (k, w) in &vs {
                println!("STILL VIOLATES {k}: {w}");
            }
            return if vs.is_empty() { 0 } else { 1 };
        }
        let i = prefix.len();
        match points[i].alts.iter().position(|a| a.label == want[i]) {
            Some(c) => prefix.push(c),
            None => {
                println!("schedule cannot be followed at step {i}: wanted {}", want[i]);
                return 2;
            }
        }
    }
}

#[allow(dead_code)]
fn unused(_: PathBuf) {}

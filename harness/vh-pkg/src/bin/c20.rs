//! C20 — Forc.lock round-trips the resolved package graph.
//!
//! Bounded-exhaustive over package graphs (DESIGN.md §C20): a member root plus k dependency nodes
//! (k ≤ 2 quick, k ≤ 3 thorough); node labels = {aa, bb} × a source menu covering every source kind;
//! every rooted DAG shape on the chosen nodes; edge attributes (dependency name same / alias / name of
//! another package) × (library, contract salt 0 / 1 / ff..ff) varied exhaustively (see `bounds` in the
//! evidence). Every case goes through the real `Lock::from_graph` → `toml::ser::to_string_pretty`
//! (what forc writes) → file → `Lock::from_path` → `Lock::to_graph`, and a second `from_graph` → text.
//!
//! Oracle: the reloaded graph has the same pinned packages and the same edges (dep name, kind, salt),
//! and the second text equals the first.

use forc_pkg::source::{self, git::Reference};
use forc_pkg::{DepKind, Edge, Graph, Lock, Pinned, PinnedId};
use serde_json::{json, Value};
use std::collections::{BTreeMap, BTreeSet};
use std::path::PathBuf;
use std::sync::atomic::{AtomicUsize, Ordering};
use vhcore::{Args, Reporter, Tier};
use vh_pkg::mk;

// ------------------------------------------------------------------------------------------------
// Menus

const ROOT_NAME: &str = "rootpkg";
const NAMES: [&str; 2] = ["aa", "bb"];
const REPO_A: &str = "https://github.com/FuelLabs/sway";
const REPO_B: &str = "https://example.org/other/repo";
const H1: &str = "64092602dd6158f3e41d775ed889389440a2cd86";
const H2: &str = "0123456789abcdef0123456789abcdef01234567";
const CID0: &str = "QmYwAPJzv5CZsnA625s3Xf2nemtYgPpHdWEz79ojWnPbdG";
const CID0B: &str = "QmdMVqLqpba2mMB5AUjYCxubC6tLGevQFunpBkbC2UbrKS";
const CID1: &str = "bafybeigdyrzt5sfp7udm7hu76uh7y26nf3efuylqabf3oclgtqy55fbzdi";

/// Source menu. Ids are stable (they appear in replay files).
const SOURCES: [&str; 18] = [
    "member",
    "path-root-rootpkg",
    "path-root-gitpkg",
    "git-branch-master",
    "git-tag-v1.0.0",
    "git-rev-full",
    "git-rev-short",
    "git-default-branch",
    "git-branch-feat/x",
    "git-branch-feat#1",
    "git-branch-feat(x)",
    "git-repoB-branch-master",
    "ipfs-cidv0",
    "ipfs-cidv1",
    "registry-flat-1.0.0",
    "registry-flat-2.0.0",
    "registry-ns-fuel-1.0.0",
    "git-tag-rel#2",
];

/// Sub-menu used for graphs with three dependency nodes (one representative of every source kind and
/// every special form).
const SOURCES_K3: [&str; 12] = [
    "member",
    "path-root-rootpkg",
    "git-branch-master",
    "git-tag-v1.0.0",
    "git-rev-full",
    "git-rev-short",
    "git-branch-feat#1",
    "git-branch-feat(x)",
    "git-repoB-branch-master",
    "ipfs-cidv0",
    "registry-flat-1.0.0",
    "registry-ns-fuel-1.0.0",
];

fn make_source(id: &str, pkg_name: &str) -> source::Pinned {
    match id {
        "member" => mk::member(),
        "path-root-rootpkg" => mk::path(PinnedId::new(ROOT_NAME, &mk::member())),
        "path-root-gitpkg" => mk::path(PinnedId::new(
            "gitpkg",
            &mk::git(REPO_A, Reference::Branch("master".into()), H1),
        )),
        "git-branch-master" => mk::git(REPO_A, Reference::Branch("master".into()), H1),
        "git-tag-v1.0.0" => mk::git(REPO_A, Reference::Tag("v1.0.0".into()), H1),
        "git-rev-full" => mk::git(REPO_A, Reference::Rev(H1.into()), H1),
        // a different commit than git-rev-full, so the two can never print to the same source string
        "git-rev-short" => mk::git(REPO_A, Reference::Rev("0123456".into()), H2),
        "git-default-branch" => mk::git(REPO_A, Reference::DefaultBranch, H1),
        "git-branch-feat/x" => mk::git(REPO_A, Reference::Branch("feat/x".into()), H1),
        "git-branch-feat#1" => mk::git(REPO_A, Reference::Branch("feat#1".into()), H1),
        "git-branch-feat(x)" => mk::git(REPO_A, Reference::Branch("feat(x)".into()), H1),
        "git-repoB-branch-master" => mk::git(REPO_B, Reference::Branch("master".into()), H1),
        "ipfs-cidv0" => mk::ipfs(CID0),
        "ipfs-cidv1" => mk::ipfs(CID1),
        "registry-flat-1.0.0" => mk::registry(pkg_name, "1.0.0", CID0, None),
        "registry-flat-2.0.0" => mk::registry(pkg_name, "2.0.0", CID0B, None),
        "registry-ns-fuel-1.0.0" => mk::registry(pkg_name, "1.0.0", CID0, Some("fuel")),
        "git-tag-rel#2" => mk::git(REPO_A, Reference::Tag("rel#2".into()), H1),
        other => vhcore::machinery_failure(&format!("unknown source id {other}")),
    }
}

const ROOT_NAMES: [&str; 4] = [ROOT_NAME, "member", "root", "path"];
const ADVERSARIAL: [&str; 9] = [
    "a-b", "a_b", "git", "member", "path", "registry", "root", "ipfs", "from-root-0",
];

#[derive(Clone, Copy, Debug, PartialEq, Eq, PartialOrd, Ord)]
enum Rename {
    Same,
    Alias,
    Other,
}
const RENAMES: [Rename; 3] = [Rename::Same, Rename::Alias, Rename::Other];

fn kinds() -> [DepKind; 4] {
    let mut one = [0u8; 32];
    one[31] = 1;
    [
        DepKind::Library,
        DepKind::Contract { salt: fuel_tx::Salt::zeroed() },
        DepKind::Contract { salt: fuel_tx::Salt::new(one) },
        DepKind::Contract { salt: fuel_tx::Salt::new([0xff; 32]) },
    ]
}
const N_ATTR: usize = 12; // RENAMES × kinds, index 0 = (Same, Library)

// ------------------------------------------------------------------------------------------------
// Graph specification (what replay files hold)

#[derive(Clone, Debug)]
struct Spec {
    /// (package name, source menu id); node 0 is the root
    nodes: Vec<(String, String)>,
    /// (from, to, dep name, kind index)  — `from` depends on `to`
    edges: Vec<(usize, usize, String, usize)>,
}

impl Spec {
    fn to_json(&self) -> Value {
        let k = kinds();
        json!({
            "nodes": self.nodes.iter().map(|(n, s)| json!({"name": n, "source": s})).collect::<Vec<_>>(),
            "edges": self.edges.iter().map(|(a, b, n, ki)| json!({
                "from": a, "to": b, "dep_name": n, "kind_index": ki,
                "kind": match &k[*ki] { DepKind::Library => "library".to_string(), DepKind::Contract{salt} => format!("contract salt {salt}") },
            })).collect::<Vec<_>>(),
        })
    }
    fn from_json(v: &Value) -> Option<Spec> {
        let mut nodes = vec![];
        for n in v["nodes"].as_array()? {
            nodes.push((n["name"].as_str()?.to_string(), n["source"].as_str()?.to_string()));
        }
        let mut edges = vec![];
        for e in v["edges"].as_array()? {
            edges.push((
                e["from"].as_u64()? as usize,
                e["to"].as_u64()? as usize,
                e["dep_name"].as_str()?.to_string(),
                e["kind_index"].as_u64()? as usize,
            ));
        }
        Some(Spec { nodes, edges })
    }
    fn pinned_nodes(&self) -> Vec<Pinned> {
        self.nodes
            .iter()
            .map(|(n, s)| Pinned { name: n.clone(), source: make_source(s, n) })
            .collect()
    }
}

fn build_graph(nodes: &[Pinned], edges: &[(usize, usize, String, usize)]) -> Graph {
    let k = kinds();
    let mut g = Graph::default();
    let ix: Vec<_> = nodes.iter().map(|p| g.add_node(p.clone())).collect();
    for (a, b, name, ki) in edges {
        g.update_edge(ix[*a], ix[*b], Edge::new(name.clone(), k[*ki].clone()));
    }
    g
}

// ------------------------------------------------------------------------------------------------
// The round trip and the comparison

#[derive(Debug)]
enum Outcome {
    Pass,
    Panic { loc: String, msg: String },
    SerErr(String),
    LoadErr { stage: &'static str, msg: String },
    Mismatch(String),
    NotFixpoint,
}

static NEXT_THREAD: AtomicUsize = AtomicUsize::new(0);
thread_local! {
    /// Per-thread Forc.lock, kept open: the text is written at offset 0 and the file is cut to length
    /// (open(O_TRUNC) per case costs milliseconds on this file system).
    static LOCK_FILE: (PathBuf, std::fs::File) = {
        let n = NEXT_THREAD.fetch_add(1, Ordering::Relaxed);
        let d = vhcore::verif_root().join("work").join("C20").join("run").join(format!("t{n}"));
        std::fs::create_dir_all(&d).unwrap_or_else(|e| vhcore::machinery_failure(&format!("work dir: {e}")));
        let p = d.join("Forc.lock");
        let f = std::fs::OpenOptions::new().write(true).create(true).truncate(false).open(&p)
            .unwrap_or_else(|e| vhcore::machinery_failure(&format!("cannot create {}: {e}", p.display())));
        (p, f)
    };
}

/// Replace the content of this thread's Forc.lock by `text`; returns its path.
fn write_lock_file(text: &str) -> PathBuf {
    use std::os::unix::fs::FileExt;
    LOCK_FILE.with(|(p, f)| {
        if let Err(e) = f.write_all_at(text.as_bytes(), 0).and_then(|_| f.set_len(text.len() as u64)) {
            vhcore::machinery_failure(&format!("cannot write {}: {e}", p.display()));
        }
        p.clone()
    })
}

fn rev_canon(p: &Pinned) -> Pinned {
    let mut q = p.clone();
    if let source::Pinned::Git(g) = &mut q.source {
        if let Reference::Rev(_) = g.source.reference {
            g.source.reference = Reference::Rev(g.commit_hash.clone());
        }
    }
    q
}

fn is_short_rev(p: &Pinned) -> bool {
    matches!(&p.source, source::Pinned::Git(g) if matches!(&g.source.reference, Reference::Rev(s) if *s != g.commit_hash))
}

fn git_ref_text(p: &Pinned) -> Option<&str> {
    match &p.source {
        source::Pinned::Git(g) => match &g.source.reference {
            Reference::Branch(s) | Reference::Tag(s) => Some(s.as_str()),
            _ => None,
        },
        _ => None,
    }
}

fn source_kind(p: &Pinned) -> &'static str {
    match &p.source {
        source::Pinned::Member(_) => "member",
        source::Pinned::Path(_) => "path",
        source::Pinned::Git(_) => "git",
        source::Pinned::Ipfs(_) => "ipfs",
        source::Pinned::Registry(_) => "registry",
    }
}

/// `Ok(())` if `g2` has exactly the nodes `nodes` (by `==`) and exactly the edges `edges`; otherwise a
/// short description of the first difference (used in the class key).
fn compare(nodes: &[Pinned], edges: &[(usize, usize, String, usize)], g2: &Graph) -> Result<(), String> {
    use petgraph::visit::{EdgeRef, IntoEdgeReferences};
    let k = kinds();
    let mut map: BTreeMap<forc_pkg::NodeIx, usize> = BTreeMap::new();
    let mut used = vec![false; nodes.len()];
    for nx in g2.node_indices() {
        match nodes.iter().position(|p| *p == g2[nx]) {
            Some(i) if !used[i] => {
                used[i] = true;
                map.insert(nx, i);
            }
            Some(i) => return Err(format!("node-duplicated:{}", source_kind(&nodes[i]))),
            None => return Err(format!("node-unexpected:{}", source_kind(&g2[nx]))),
        }
    }
    if let Some(i) = used.iter().position(|u| !u) {
        return Err(format!("node-missing:{}", source_kind(&nodes[i])));
    }
    let same_named = |i: usize| nodes.iter().filter(|p| p.name == nodes[i].name).count() > 1;
    let describe = |b: usize, name: &str, kind: &DepKind| {
        format!(
            "renamed={},kind={},target-name-shared={}",
            name != nodes[b].name,
            match kind {
                DepKind::Library => "library".to_string(),
                DepKind::Contract { salt } if *salt == fuel_tx::Salt::zeroed() => "contract-salt-zero".into(),
                DepKind::Contract { .. } => "contract-salt-nonzero".into(),
            },
            same_named(b)
        )
    };
    let mut seen = vec![false; edges.len()];
    for e in g2.edge_references() {
        let (a, b) = (map[&e.source()], map[&e.target()]);
        let w = e.weight();
        match edges
            .iter()
            .position(|(x, y, n, ki)| *x == a && *y == b && *n == w.name && k[*ki] == w.kind)
        {
            Some(i) if !seen[i] => seen[i] = true,
            _ => {
                // is there an edge between the same nodes with different attributes?
                if let Some((_, _, n, ki)) = edges.iter().find(|(x, y, _, _)| *x == a && *y == b) {
                    let what = if *n != w.name { "dep-name" } else { "kind-or-salt" };
                    return Err(format!("edge-attr-changed:{what}|{}", describe(b, n, &k[*ki])));
                }
                return Err(format!("edge-unexpected|{}", describe(b, &w.name, &w.kind)));
            }
        }
    }
    if let Some(i) = seen.iter().position(|s| !s) {
        let (_, b, n, ki) = &edges[i];
        return Err(format!("edge-missing|{}", describe(*b, n, &k[*ki])));
    }
    Ok(())
}

struct Trip {
    outcome: Outcome,
    text: Option<String>,
    /// number of real from_graph→text→from_path→to_graph / from_graph→text executions performed
    trips: u64,
}

fn lock_text(g: &Graph) -> Result<String, String> {
    let lock = Lock::from_graph(g);
    toml::ser::to_string_pretty(&lock).map_err(|e| e.to_string())
}

/// `via_file`: write the text to a real Forc.lock and load it with `Lock::from_path`; otherwise parse
/// the text with `toml::de::from_str::<Lock>`, which is all `from_path` does after reading the file.
fn round_trip(nodes: &[Pinned], edges: &[(usize, usize, String, usize)], via_file: bool) -> Trip {
    let mut trips = 0u64;
    let mut text_out = None;
    let r = vhcore::catch(std::panic::AssertUnwindSafe(|| -> Outcome {
        let g = build_graph(nodes, edges);
        let text1 = match lock_text(&g) {
            Ok(t) => t,
            Err(e) => return Outcome::SerErr(e),
        };
        text_out = Some(text1.clone());
        trips += 1;
        let loaded = if via_file {
            let path = write_lock_file(&text1);
            Lock::from_path(&path).map_err(|e| e.to_string())
        } else {
            toml::de::from_str::<Lock>(&text1).map_err(|e| format!("failed to parse lock file: {e}"))
        };
        let lock2 = match loaded {
            Ok(l) => l,
            Err(msg) => return Outcome::LoadErr { stage: "from_path", msg },
        };
        let g2 = match lock2.to_graph() {
            Ok(g) => g,
            Err(e) => return Outcome::LoadErr { stage: "to_graph", msg: e.to_string() },
        };
        let cmp = compare(nodes, edges, &g2);
        trips += 1;
        let text2 = match lock_text(&g2) {
            Ok(t) => t,
            Err(e) => return Outcome::SerErr(format!("second serialization: {e}")),
        };
        if let Err(d) = cmp {
            return Outcome::Mismatch(d);
        }
        if text1 != text2 {
            return Outcome::NotFixpoint;
        }
        Outcome::Pass
    }));
    let outcome = match r {
        Ok(o) => o,
        Err(msg) => Outcome::Panic { loc: mk::rel_loc(&vhcore::take_panic_loc()), msg },
    };
    Trip { outcome, text: text_out, trips }
}

/// Class key + human text for a failing case, `None` when the property holds.
fn classify(nodes: &[Pinned], edges: &[(usize, usize, String, usize)], t: &Trip) -> Option<(String, String)> {
    match &t.outcome {
        Outcome::Pass => None,
        Outcome::Panic { loc, msg } => Some((format!("panic@{loc}"), format!("round trip panicked: {msg}"))),
        Outcome::SerErr(e) => Some(("lock-not-serializable".into(), format!("toml serialization failed: {e}"))),
        Outcome::NotFixpoint => Some((
            "second-round-trip-text-differs".into(),
            "graph reloads isomorphic but writing it again gives a different Forc.lock".into(),
        )),
        Outcome::LoadErr { stage, msg } => {
            // input predicates
            let hash_pkgs: Vec<&Pinned> = nodes
                .iter()
                .filter(|p| git_ref_text(p).is_some_and(|s| s.contains('#')))
                .collect();
            if *stage == "to_graph"
                && hash_pkgs
                    .iter()
                    .any(|p| msg.starts_with(&format!("invalid 'source' entry for package {} lock", p.name)))
            {
                return Some((
                    "lock-unreadable:invalid-source-entry|git-branch-or-tag-contains-#".into(),
                    format!("written Forc.lock cannot be read back: {msg}"),
                ));
            }
            // a dependency line that spells out a source string containing '(' (only when the target's
            // name is shared, i.e. needs disambiguation)
            let paren_targets = edges.iter().any(|(_, b, _, _)| {
                git_ref_text(&nodes[*b]).is_some_and(|s| s.contains('('))
                    && nodes.iter().filter(|p| p.name == nodes[*b].name).count() > 1
                    && msg.contains(&format!("{} {}", nodes[*b].name, nodes[*b].source))
            });
            if *stage == "to_graph" && paren_targets && msg.starts_with("failed to parse dependency") {
                return Some((
                    "lock-unreadable:dep-line|disambiguated-dep-with-git-branch-or-tag-containing-(".into(),
                    format!("written Forc.lock cannot be read back: {msg}"),
                ));
            }
            let shape: String = msg
                .split(|c: char| c == '"' || c == ':')
                .next()
                .unwrap_or("")
                .chars()
                .filter(|c| c.is_ascii_alphabetic() || *c == ' ' || *c == '\'')
                .collect::<String>()
                .trim()
                .replace(' ', "-");
            Some((
                format!("lock-unreadable:{stage}:{shape}"),
                format!("written Forc.lock cannot be read back ({stage}): {msg}"),
            ))
        }
        Outcome::Mismatch(d) => {
            // known shape: the only difference is that Rev(<user string>) came back as Rev(<commit hash>)
            if nodes.iter().any(is_short_rev) {
                let canon: Vec<Pinned> = nodes.iter().map(rev_canon).collect();
                let t2 = round_trip_compare_only(&canon, nodes, edges);
                if t2 {
                    return Some((
                        "node-changed:git-Rev(s)-reloads-as-Rev(commit-hash)|git-rev-string-differs-from-commit-hash".into(),
                        "a git dependency pinned with `rev = <abbreviated or symbolic rev>` reloads with Reference::Rev(<full commit hash>); nothing else differs".into(),
                    ));
                }
            }
            Some((format!("graph-mismatch:{d}"), format!("reloaded graph differs from the written one: {d}")))
        }
    }
}

/// Re-runs the load of the text written for `orig` and compares against `expect` instead (used by the
/// classifier only, to decide whether a mismatch is exactly the Rev(s)→Rev(hash) substitution).
fn round_trip_compare_only(expect: &[Pinned], orig: &[Pinned], edges: &[(usize, usize, String, usize)]) -> bool {
    vhcore::catch(std::panic::AssertUnwindSafe(|| {
        let g = build_graph(orig, edges);
        let Ok(text1) = lock_text(&g) else { return false };
        let Ok(lock2) = toml::de::from_str::<Lock>(&text1) else { return false };
        let Ok(g2) = lock2.to_graph() else { return false };
        if compare(expect, edges, &g2).is_err() {
            return false;
        }
        matches!(lock_text(&g2), Ok(t) if t == text1)
    }))
    .unwrap_or(false)
}

// ------------------------------------------------------------------------------------------------
// Enumeration

/// All rooted DAG shapes on nodes 0..=k with edges i→j, i<j, every node j ≥ 1 having at least one
/// in-edge (so every node is reachable from the root). Π_{j=1..k} (2^j − 1) shapes.
fn shapes(k: usize) -> Vec<Vec<(usize, usize)>> {
    let mut out: Vec<Vec<(usize, usize)>> = vec![vec![]];
    for j in 1..=k {
        let mut next = vec![];
        for base in &out {
            for m in 1u32..(1 << j) {
                let mut s = base.clone();
                for i in 0..j {
                    if m & (1 << i) != 0 {
                        s.push((i, j));
                    }
                }
                next.push(s);
            }
        }
        out = next;
    }
    out
}

fn shapes_count(k: usize) -> u64 {
    (1..=k).map(|j| (1u64 << j) - 1).product()
}

#[derive(Clone, Copy, PartialEq, Eq, Debug)]
enum AttrMode {
    /// every assignment of the 12 attribute options to every edge
    All,
    /// base (all edges same-name library) + one edge varied + every pair of edges varied
    SingleAndPairs,
    /// base + one edge varied
    Single,
}

fn attr_configs(e: usize, mode: AttrMode) -> Vec<Vec<usize>> {
    let mut out = vec![];
    match mode {
        AttrMode::All => {
            for p in vhcore::enumerate::product(&vec![N_ATTR; e]) {
                out.push(p);
            }
        }
        AttrMode::Single | AttrMode::SingleAndPairs => {
            out.push(vec![0; e]);
            for i in 0..e {
                for a in 1..N_ATTR {
                    let mut c = vec![0; e];
                    c[i] = a;
                    out.push(c);
                }
            }
            if mode == AttrMode::SingleAndPairs {
                for i in 0..e {
                    for j in i + 1..e {
                        for a in 1..N_ATTR {
                            for b in 1..N_ATTR {
                                let mut c = vec![0; e];
                                c[i] = a;
                                c[j] = b;
                                out.push(c);
                            }
                        }
                    }
                }
            }
        }
    }
    out
}

fn attr_configs_count(e: usize, mode: AttrMode) -> u64 {
    let (e, v) = (e as u64, (N_ATTR - 1) as u64);
    match mode {
        AttrMode::All => (N_ATTR as u64).pow(e as u32),
        AttrMode::Single => 1 + v * e,
        AttrMode::SingleAndPairs => 1 + v * e + v * v * e * e.saturating_sub(1) / 2,
    }
}

fn dep_name(nodes: &[(String, String)], to: usize, r: Rename) -> String {
    match r {
        Rename::Same => nodes[to].0.clone(),
        Rename::Alias => format!("alias{to}"),
        // the name of another package of the graph: the other menu name, or the root's name
        Rename::Other => match nodes[to].0.as_str() {
            "aa" => "bb".to_string(),
            "bb" => "aa".to_string(),
            _ => nodes[0].0.clone(),
        },
    }
}

#[derive(Default)]
struct Acc {
    generated: u64,
    skipped_same_dep_name_twice: u64,
    evaluations: u64,
    trips: u64,
    nontrivial: u64,
    passed: u64,
    outcome_classes: BTreeMap<String, u64>,
    bad: Vec<(String, String, Value)>,
    bad_keys: BTreeSet<String>,
    bad_counts: BTreeMap<String, u64>,
    via_file: u64,
    text_hashes: vhcore::Distinct,
    samples: Vec<Value>,
}

impl Acc {
    fn merge(&mut self, o: Acc) {
        self.generated += o.generated;
        self.skipped_same_dep_name_twice += o.skipped_same_dep_name_twice;
        self.evaluations += o.evaluations;
        self.trips += o.trips;
        self.nontrivial += o.nontrivial;
        self.passed += o.passed;
        self.via_file += o.via_file;
        for (k, v) in o.outcome_classes {
            *self.outcome_classes.entry(k).or_default() += v;
        }
        for (k, v) in o.bad_counts {
            *self.bad_counts.entry(k).or_default() += v;
        }
        for b in o.bad {
            if self.bad_keys.insert(b.0.clone()) {
                self.bad.push(b);
            }
        }
        self.text_hashes.merge(o.text_hashes);
        if self.samples.len() < 8 {
            self.samples.extend(o.samples);
        }
    }

    /// Run every attribute configuration for (node labels, shape).
    fn run_shape(
        &mut self,
        labels: &[(String, String)],
        pinned: &[Pinned],
        shape: &[(usize, usize)],
        mode: AttrMode,
        track_text: bool,
    ) {
        let name_shared: Vec<bool> = labels
            .iter()
            .map(|l| labels.iter().filter(|m| m.0 == l.0).count() > 1)
            .collect();
        // Base attribute of an edge: (package name, library) — or (alias, library) when an earlier
        // out-edge of the same node already uses that package name (a parent that depends on two
        // same-named packages has to rename one of them). Configuration value 0 = base, 1..=11 = the
        // other eleven options in menu order.
        let base: Vec<usize> = shape
            .iter()
            .enumerate()
            .map(|(i, &(a, b))| {
                let clash = shape[..i].iter().any(|&(a2, b2)| a2 == a && labels[b2].0 == labels[b].0);
                if clash { 4 } else { 0 }
            })
            .collect();
        for cfg in attr_configs(shape.len(), mode) {
            self.generated += 1;
            let attrs: Vec<usize> = cfg
                .iter()
                .zip(&base)
                .map(|(&c, &b)| if c == 0 { b } else if c - 1 < b { c - 1 } else { c })
                .collect();
            let edges: Vec<(usize, usize, String, usize)> = shape
                .iter()
                .zip(&attrs)
                .map(|(&(a, b), &at)| (a, b, dep_name(labels, b, RENAMES[at / 4]), at % 4))
                .collect();
            // a manifest cannot declare the same dependency name twice
            let mut clash = false;
            for (i, e) in edges.iter().enumerate() {
                if edges[..i].iter().any(|f| f.0 == e.0 && f.2 == e.2) {
                    clash = true;
                }
            }
            if clash {
                self.skipped_same_dep_name_twice += 1;
                continue;
            }
            self.evaluations += 1;
            if edges.iter().any(|(_, b, n, ki)| name_shared[*b] || *n != labels[*b].0 || *ki >= 2) {
                self.nontrivial += 1;
            }
            // single-dependency families and the base configuration of every (labels, shape) go
            // through a real file + Lock::from_path; the rest parses the same text in memory
            let via_file = track_text || cfg.iter().all(|&a| a == 0);
            self.via_file += u64::from(via_file);
            let t = round_trip(pinned, &edges, via_file);
            self.trips += t.trips;
            if track_text {
                if let Some(tx) = &t.text {
                    self.text_hashes.add(tx);
                }
            }
            match classify(pinned, &edges, &t) {
                None => {
                    self.passed += 1;
                    *self.outcome_classes.entry("pass".into()).or_default() += 1;
                    if self.samples.len() < 1 && edges.len() >= 2 && attrs.iter().any(|&a| a >= 6) {
                        let spec = Spec { nodes: labels.to_vec(), edges: edges.clone() };
                        self.samples.push(json!({"graph": spec.to_json(), "forc_lock": t.text, "result": "round-trips"}));
                    }
                }
                Some((key, what)) => {
                    *self.outcome_classes.entry(key.clone()).or_default() += 1;
                    *self.bad_counts.entry(key.clone()).or_default() += 1;
                    if self.bad_keys.insert(key.clone()) {
                        let spec = Spec { nodes: labels.to_vec(), edges: edges.clone() };
                        self.bad.push((key, what, json!({"graph": spec.to_json(), "forc_lock": t.text})));
                    }
                }
            }
        }
    }
}

fn all_labels() -> Vec<(String, String)> {
    let mut v = vec![];
    for n in NAMES {
        for s in SOURCES {
            v.push((n.to_string(), s.to_string()));
        }
    }
    v
}

fn pin(l: &(String, String)) -> Pinned {
    Pinned { name: l.0.clone(), source: make_source(&l.1, &l.0) }
}

fn run(a: &Args) -> i32 {
    let mut rep = Reporter::from_args(a, "model_checking");
    vhcore::work_dir("C20/run");

    // sanity of the menus (machinery, not verdicts)
    for n in NAMES.iter().chain(ROOT_NAMES.iter()).chain(ADVERSARIAL.iter()) {
        if let Err(e) = forc_util::validate_project_name(n) {
            vhcore::machinery_failure(&format!("menu name {n} is not a valid forc project name: {e}"));
        }
    }
    for j in 0..4 {
        if let Err(e) = forc_util::validate_project_name(&format!("alias{j}")) {
            vhcore::machinery_failure(&format!("alias name invalid: {e}"));
        }
    }
    let labels = all_labels();
    let l = labels.len();
    {
        let pins: Vec<Pinned> = labels.iter().map(pin).collect();
        for i in 0..l {
            for j in 0..i {
                if pins[i] == pins[j] {
                    vhcore::machinery_failure("two menu labels are equal");
                }
            }
        }
    }
    let root = (ROOT_NAME.to_string(), "member".to_string());
    let root_pin = pin(&root);

    let max_k = a.tier.pick(2, 3);
    let mut total = Acc::default();
    let mut expected: u64 = 0;

    // ---- family 1..3: root + k deps
    for k in 1..=max_k {
        let shp = shapes(k);
        if shp.len() as u64 != shapes_count(k) {
            vhcore::machinery_failure("shape enumerator count mismatch");
        }
        let mode = match (k, a.tier) {
            (1, _) => AttrMode::All,
            (2, _) => AttrMode::All,
            _ => AttrMode::SingleAndPairs,
        };
        // ordered k-tuples of distinct labels (k = 3: labels over the 12-source sub-menu)
        let usable: Vec<usize> = (0..l)
            .filter(|&i| k < 3 || SOURCES_K3.contains(&labels[i].1.as_str()))
            .collect();
        let l = usable.len();
        let mut tuples: Vec<Vec<usize>> = vec![vec![]];
        for _ in 0..k {
            let mut next = vec![];
            for t in &tuples {
                for &i in &usable {
                    if !t.contains(&i) {
                        let mut u = t.clone();
                        u.push(i);
                        next.push(u);
                    }
                }
            }
            tuples = next;
        }
        let n_tuples: u64 = (0..k as u64).map(|i| l as u64 - i).product();
        if tuples.len() as u64 != n_tuples {
            vhcore::machinery_failure("label tuple enumerator count mismatch");
        }
        let per_tuple: u64 = shp.iter().map(|s| attr_configs_count(s.len(), mode)).sum();
        expected += n_tuples * per_tuple;
        let accs = vhcore::par_map_idx(tuples.len(), a.jobs, |ti| {
            let mut acc = Acc::default();
            let mut labs = vec![root.clone()];
            let mut pins = vec![root_pin.clone()];
            for &i in &tuples[ti] {
                labs.push(labels[i].clone());
                pins.push(pin(&labels[i]));
            }
            for s in &shp {
                acc.run_shape(&labs, &pins, s, mode, k == 1);
            }
            acc
        });
        for acc in accs {
            total.merge(acc);
        }
    }

    // ---- family 4: adversarial-but-valid names, single dependency, every source, every attribute
    {
        let cases: Vec<(usize, usize, usize)> = vhcore::enumerate::product(&[ROOT_NAMES.len(), ADVERSARIAL.len(), SOURCES.len()])
            .into_iter()
            .map(|v| (v[0], v[1], v[2]))
            .collect();
        let mut skipped_identical = 0u64;
        let todo: Vec<_> = cases
            .into_iter()
            .filter(|&(r, d, s)| {
                // root and dependency must not be the very same package
                let same = ROOT_NAMES[r] == ADVERSARIAL[d] && SOURCES[s] == "member";
                if same {
                    skipped_identical += 1;
                }
                !same
            })
            .collect();
        if todo.len() as u64 + skipped_identical != (ROOT_NAMES.len() * ADVERSARIAL.len() * SOURCES.len()) as u64 {
            vhcore::machinery_failure("adversarial-name enumerator count mismatch");
        }
        expected += todo.len() as u64 * N_ATTR as u64;
        let accs = vhcore::par_map_idx(todo.len(), a.jobs, |i| {
            let (r, d, s) = todo[i];
            let labs = vec![
                (ROOT_NAMES[r].to_string(), "member".to_string()),
                (ADVERSARIAL[d].to_string(), SOURCES[s].to_string()),
            ];
            let pins: Vec<Pinned> = labs.iter().map(pin).collect();
            let mut acc = Acc::default();
            acc.run_shape(&labs, &pins, &[(0, 1)], AttrMode::All, true);
            acc
        });
        for acc in accs {
            total.merge(acc);
        }
        rep.set("adversarial_name_cases_skipped_root_equals_dep", skipped_identical);
    }

    // ---- guards
    if total.generated != expected {
        vhcore::machinery_failure(&format!(
            "enumerator produced {} cases, closed form says {}",
            total.generated, expected
        ));
    }
    if total.evaluations + total.skipped_same_dep_name_twice != total.generated {
        vhcore::machinery_failure("evaluations + skipped != generated");
    }
    if total.text_hashes.len() < 2 || total.passed == 0 {
        vhcore::machinery_failure("vacuous run: fewer than 2 distinct lock texts, or nothing passed");
    }

    let bad = std::mem::take(&mut total.bad);
    for (key, what, replay) in bad {
        let n = total.bad_counts.get(&key).copied().unwrap_or(1);
        // count every case of the class (the reporter counts calls)
        rep.violation(&key, &what, replay);
        for _ in 1..n {
            rep.violation(&key, &what, Value::Null);
        }
    }
    for s in std::mem::take(&mut total.samples) {
        rep.sample(s);
    }
    rep.set("evaluations", total.evaluations);
    rep.set("states", total.evaluations);
    rep.set("transitions", total.trips);
    rep.set("traces_validated_against_impl", total.trips);
    rep.set("distinct_nontrivial", total.nontrivial);
    rep.set(
        "rule",
        "cases = (ordered tuple of distinct node labels, rooted DAG shape, per-edge (dep-name, kind/salt) assignment), all distinct by construction; \
         non-trivial = at least one edge whose target shares its package name with another node (needs `<name> <source>` disambiguation), \
         or is renamed, or is a contract dependency with a non-zero salt. transitions = executions of the real \
         from_graph→toml→file→from_path→to_graph pipeline plus the second from_graph→toml.",
    );
    rep.set("generated", total.generated);
    rep.set("skipped_two_out_edges_with_same_dep_name", total.skipped_same_dep_name_twice);
    rep.set("passed", total.passed);
    rep.set("cases_loaded_through_a_real_file_and_Lock_from_path", total.via_file);
    rep.set("outcome_classes", json!(total.outcome_classes));
    rep.set("distinct_lock_texts_in_single_dependency_families", total.text_hashes.len() as u64);
    rep.set(
        "bounds",
        json!({
            "root": "one member package",
            "dependency_nodes": format!("1..={max_k}"),
            "labels": format!("{} = names {:?} x sources {:?}", l, NAMES, SOURCES),
            "labels_for_three_dependency_nodes": format!("names {:?} x sources {:?}", NAMES, SOURCES_K3),
            "shapes": "every DAG on nodes 0..k with edges i->j (i<j) in which every node has an in-edge; labels are assigned as ordered tuples, so every labelled rooted DAG occurs",
            "edge_attributes": "dep name in {package name, alias<j>, name of another package} x kind in {library, contract salt 0, contract salt 00..01, contract salt ff..ff}",
            "attribute_variation": match a.tier { Tier::Quick => "k=1,2: every assignment", Tier::Thorough => "k=1,2: every assignment; k=3: base + every single edge + every pair of edges" },
            "base_assignment": "every edge (package name, library), except that a second out-edge of one node to a same-named package is (alias, library)",
            "adversarial_names": format!("root name in {:?} x single dependency named {:?} x every source x every attribute", ROOT_NAMES, ADVERSARIAL),
        }),
    );
    rep.set("exhaustive", true);
    rep.assume("package and dependency names are valid forc project names (checked with forc_util::validate_project_name at start-up)");
    rep.assume("a node never has two out-edges with the same dependency name (a manifest table cannot hold a key twice); such assignments are generated, counted and skipped");
    rep.assume("at most one edge per ordered node pair (fetch_deps and to_graph both use update_edge)");
    rep.assume("path_root of path sources is treated as an opaque id (the root member's id or a git package's id); it is not required to name an ancestor in the generated graph");
    rep.assume("git-rev-short and git-rev-full use different commit hashes, so two packages whose sources print identically never coexist");
    rep.assume("Lock::from_path(p) == toml::de::from_str(read_to_string(p)); cases other than the single-dependency families and the base attribute configuration of every (labels, shape) skip the file and call toml::de::from_str::<Lock> on the text directly");
    rep.assume("Lock -> text uses toml::ser::to_string_pretty, the call BuildPlan::from_lock_and_manifests uses to write Forc.lock");
    rep.finish()
}

fn replay(a: &Args) -> i32 {
    let Some(p) = &a.replay else {
        vhcore::machinery_failure("usage: replay C20 <path>")
    };
    vhcore::work_dir("C20/run");
    let txt = std::fs::read_to_string(p)
        .unwrap_or_else(|e| vhcore::machinery_failure(&format!("cannot read {}: {e}", p.display())));
    let v: Value = serde_json::from_str(&txt)
        .unwrap_or_else(|e| vhcore::machinery_failure(&format!("bad replay json: {e}")));
    let body = if v.get("replay").is_some() { &v["replay"] } else { &v };
    let Some(spec) = Spec::from_json(&body["graph"]) else {
        vhcore::machinery_failure("replay file has no C20 graph")
    };
    let pins = spec.pinned_nodes();
    println!("graph: {}", spec.to_json());
    let t = round_trip(&pins, &spec.edges, true);
    if let Some(tx) = &t.text {
        println!("--- Forc.lock written by Lock::from_graph ---\n{tx}---");
    }
    println!("outcome: {:?}", t.outcome);
    match classify(&pins, &spec.edges, &t) {
        None => {
            println!("round trip is isomorphic and the text is a fixpoint — property holds");
            0
        }
        Some((key, what)) => {
            println!("VIOLATION property=C20 replay={}", p.display());
            println!("  key={key} what={what}");
            1
        }
    }
}

fn main() {
    let a = vhcore::parse_args();
    vhcore::silence_panics();
    let code = match a.cmd.as_str() {
        "check" => run(&a),
        "replay" => replay(&a),
        _ => vhcore::machinery_failure("usage: c20 check C20 --tier quick|thorough | replay C20 <path>"),
    };
    std::process::exit(code);
}

//! C30 — dependency fetching is crash-safe.
//!
//! E-fault: syscall-level crash / I/O-failure enumeration of the real `forc build` path
//! (`forc_pkg::build_with_options`, run by a subprocess of this binary: `c30 build-once <dir>`) on a
//! project that depends on a local bare git repository through `git = "file://…"`.
//!
//! 1. A counting run under `strace -f -y` records every *mutating* syscall of the subprocess
//!    (openat with create/write flags, write, pwrite64, mkdir, rename, link, unlink(at), symlink,
//!    chmod, flock, …) per thread; the fault points are the pairs (syscall name, k) where k is
//!    strace's own per-thread, per-name `when=` counter.
//! 2. For EVERY fault point: run A = SIGKILL the process on entry to that syscall (the syscall is
//!    not executed: the on-disk state is exactly the prefix of the preceding syscalls), run B = make
//!    exactly that syscall fail with EIO (and, thorough, ENOSPC where the syscall can return it);
//!    thorough also injects pairs: EIO at a point plus EIO / SIGKILL at the next mutating syscall of
//!    the error-handling path that follows.
//! 3. After every faulty run a fault-free `build-once` runs from the resulting `$HOME/.forc` and
//!    project state (recovery run).
//!
//! Oracle: the recovery build succeeds and the checkout directory of the pinned commit under
//! `$HOME/.forc/git/checkouts/<dep>-<hash>/<commit>` equals the commit's tree byte for byte (the
//! reference tree is produced by the system `git archive`); a faulty run that itself reports
//! success must also have a complete checkout.
use serde_json::{json, Value};
use std::collections::{BTreeMap, BTreeSet};
use std::path::{Path, PathBuf};
use std::time::Duration;
use vh_pkg::fetchlab::*;

fn main() {
    let a = vhcore::parse_args();
    let code = match a.cmd.as_str() {
        "build-once" => build_once(&a.rest),
        "check" => run(&a),
        "replay" => replay(&a),
        _ => vhcore::machinery_failure("usage: c30 check C30 --tier quick|thorough | c30 replay C30 <file>"),
    };
    std::process::exit(code);
}

const TIMEOUT: Duration = Duration::from_secs(600);

#[derive(Clone, Copy, Debug, PartialEq, Eq, PartialOrd, Ord)]
enum FaultKind {
    Kill,
    Eio,
    Enospc,
}

impl FaultKind {
    fn as_str(&self) -> &'static str {
        match self {
            FaultKind::Kill => "kill",
            FaultKind::Eio => "eio",
            FaultKind::Enospc => "enospc",
        }
    }
    fn action(&self) -> &'static str {
        match self {
            FaultKind::Kill => "signal=SIGKILL",
            FaultKind::Eio => "error=EIO",
            FaultKind::Enospc => "error=ENOSPC",
        }
    }
    fn parse(s: &str) -> Option<FaultKind> {
        Some(match s {
            "kill" => FaultKind::Kill,
            "eio" => FaultKind::Eio,
            "enospc" => FaultKind::Enospc,
            _ => return None,
        })
    }
}

/// One mutating syscall of the counting run.
#[derive(Clone, Debug)]
struct Point {
    idx: usize,
    name: String,
    k: usize,
    phase: String,
    norm: String,
    raw: String,
}

/// Can this syscall return ENOSPC?
fn enospc_applies(p: &Point) -> bool {
    match p.name.as_str() {
        "open" | "openat" | "openat2" | "creat" => p.raw.contains("O_CREAT"),
        "write" | "pwrite64" | "writev" | "pwritev" | "pwritev2" | "mkdir" | "mkdirat" | "rename" | "renameat"
        | "renameat2" | "link" | "linkat" | "symlink" | "symlinkat" | "fallocate" | "ftruncate" => true,
        _ => false,
    }
}

struct Ctx {
    exe: PathBuf,
    work: PathBuf,
    sc: Scenario,
}

/// Mutating syscalls (main thread) of a trace, with phase and normalised paths; also returns the
/// mutating calls made by other threads and the per-thread call counts per name.
fn points_of(trace: &Trace, home: &Path, proj: &Path, commit: &str) -> (Vec<Point>, Vec<String>, BTreeMap<String, usize>) {
    let main = trace.tids.first().copied().unwrap_or(0);
    let mut ph = Phaser::new(home, proj, commit);
    let mut pts = vec![];
    let mut foreign = vec![];
    let mut other_max: BTreeMap<String, usize> = BTreeMap::new();
    for c in &trace.calls {
        if c.tid != main {
            let e = other_max.entry(c.name.clone()).or_insert(0);
            *e = (*e).max(c.k);
            if c.mutating {
                foreign.push(c.raw.clone());
            }
            continue;
        }
        if !c.mutating {
            continue;
        }
        let phase = ph.phase(c);
        let norm = c.paths.iter().map(|p| ph.norm(p)).collect::<Vec<_>>().join(" -> ");
        pts.push(Point { idx: pts.len(), name: c.name.clone(), k: c.k, phase, norm, raw: c.raw.clone() });
    }
    (pts, foreign, other_max)
}

struct CaseDirs {
    dir: PathBuf,
    home: PathBuf,
    proj: PathBuf,
}

/// Case directories all have names of the same length: the project path is embedded in the debug
/// info that the build writes, so its length changes how many `write` calls are made (observed),
/// which would shift strace's per-name ordinals between the counting run and a faulty run.
fn case_dirs(ctx: &Ctx, rk: RefKind, label: &str) -> CaseDirs {
    if label.len() != 7 {
        vhcore::machinery_failure(&format!("internal: case label `{label}` must have 7 characters"));
    }
    let dir = ctx.work.join("cases").join(rk.as_str()).join(label);
    let _ = std::fs::remove_dir_all(&dir);
    let home = dir.join("home");
    let proj = dir.join("proj");
    std::fs::create_dir_all(&home).unwrap_or_else(|e| vhcore::machinery_failure(&format!("mkdir: {e}")));
    make_project(&proj, &ctx.sc, rk);
    CaseDirs { dir, home, proj }
}

#[derive(Clone, Debug)]
struct Fault {
    kind: FaultKind,
    point: usize,
    /// second fault at the next mutating syscall after the first one (pairs)
    second: Option<FaultKind>,
}

#[derive(Clone, Debug, Default)]
struct CaseResult {
    machinery: Option<String>,
    skipped: Option<String>,
    faulty: String,
    faulty_ok: bool,
    state_before: String,
    recovery: String,
    recovery_ok: bool,
    state_after: String,
    /// None = property held
    violation: Option<(String, String)>,
    outcome: String,
    /// for single EIO faults: the next mutating syscall after the injected one (name, k, phase, norm)
    next: Option<(String, usize, String, String)>,
    second_desc: Option<String>,
}

fn run_case(ctx: &Ctx, rk: RefKind, pts: &[Point], f: &Fault, second_at: Option<&(String, usize, String, String)>, label: &str, keep: bool) -> CaseResult {
    let mut r = CaseResult::default();
    let p = &pts[f.point];
    let cd = case_dirs(ctx, rk, label);
    let trace_file = cd.dir.join("trace");
    let mut inj = vec![Inject { syscall: p.name.clone(), when: p.k.to_string(), action: f.kind.action().into() }];
    if let Some(k2) = f.second {
        let Some((n2, kk2, _, _)) = second_at else {
            r.skipped = Some("no mutating syscall follows the first fault".into());
            let _ = std::fs::remove_dir_all(&cd.dir);
            return r;
        };
        if *n2 == p.name {
            // strace keeps one injection rule per syscall name: a second fault on the same name is
            // only expressible as a `when=` range with the same action
            if k2 == f.kind && *kk2 == p.k + 1 {
                inj[0].when = format!("{}..{}", p.k, kk2);
            } else {
                r.skipped = Some(format!("second fault on the same syscall name `{n2}` not expressible ({}→{} k {}→{})", f.kind.as_str(), k2.as_str(), p.k, kk2));
                let _ = std::fs::remove_dir_all(&cd.dir);
                return r;
            }
        } else {
            inj.push(Inject { syscall: n2.clone(), when: kk2.to_string(), action: k2.action().into() });
        }
    }
    let out = run_build_once(&ctx.exe, &cd.home, &cd.proj, Some(&trace_file), &inj, &cd.dir.join("faulty.stderr"), TIMEOUT);
    if out.timed_out {
        r.machinery = Some(format!("faulty run timed out ({label})"));
        return r;
    }
    let t = parse_trace(&trace_file);
    // ---- verify that the fault hit the intended syscall
    let mut ph = Phaser::new(&cd.home, &cd.proj, &ctx.sc.commit);
    let main = t.tids.first().copied().unwrap_or(0);
    let mut seen_first = false;
    let mut first_ok = false;
    let mut next: Option<(String, usize, String, String)> = None;
    let mut last_main: Option<(String, usize, String, String, bool, Option<String>)> = None;
    for c in t.calls.iter().filter(|c| c.tid == main && c.mutating) {
        let phase = ph.phase(c);
        let norm = c.paths.iter().map(|p| ph.norm(p)).collect::<Vec<_>>().join(" -> ");
        if !seen_first && c.name == p.name && c.k == p.k {
            seen_first = true;
            first_ok = norm == p.norm && (f.kind == FaultKind::Kill || c.injected);
        } else if seen_first && next.is_none() {
            next = Some((c.name.clone(), c.k, phase.clone(), norm.clone()));
        }
        last_main = Some((c.name.clone(), c.k, phase, norm, c.injected, c.ret.clone()));
    }
    if !seen_first || !first_ok {
        r.machinery = Some(format!(
            "{label}: fault {}@{}#{} did not hit the expected syscall ({}); trace has {} calls, found={seen_first}",
            f.kind.as_str(), p.name, p.k, p.norm, t.calls.len()
        ));
        return r;
    }
    let expect_kill = f.kind == FaultKind::Kill || f.second == Some(FaultKind::Kill);
    if expect_kill {
        let (want_name, want_k) = if f.kind == FaultKind::Kill { (p.name.clone(), p.k) } else { let s = second_at.unwrap(); (s.0.clone(), s.1) };
        let last_ok = last_main.as_ref().map(|l| l.0 == want_name && l.1 == want_k).unwrap_or(false);
        if t.killed_by.is_none() || !last_ok {
            // a second fault that is never reached (the error path took another route) is not an error
            if f.second.is_some() && t.killed_by.is_none() {
                r.second_desc = Some("second fault point not reached".into());
            } else {
                r.machinery = Some(format!("{label}: SIGKILL injection not observed at {want_name}#{want_k} (killed_by={:?}, last={:?})", t.killed_by, last_main));
                return r;
            }
        }
    }
    if f.second.is_some() && r.second_desc.is_none() {
        let s = second_at.unwrap();
        r.second_desc = Some(format!("{}@{}#{} [{}] {}", f.second.unwrap().as_str(), s.0, s.1, s.2, s.3));
    }
    r.next = next;
    r.faulty = out.short();
    r.faulty_ok = out.ok();
    let before = checkout_state(&cd.home, &ctx.sc);
    r.state_before = before.short();
    // ---- recovery run (fault-free, same $HOME and project directory)
    let rec = run_build_once(&ctx.exe, &cd.home, &cd.proj, None, &[], &cd.dir.join("recovery.stderr"), TIMEOUT);
    if rec.timed_out {
        r.machinery = Some(format!("recovery run timed out ({label})"));
        return r;
    }
    let after = checkout_state(&cd.home, &ctx.sc);
    r.recovery = rec.short();
    r.recovery_ok = rec.ok();
    r.state_after = after.short();
    // ---- oracle
    let fk = match f.second {
        None => f.kind.as_str().to_string(),
        Some(s) => format!("{}+{}", f.kind.as_str(), s.as_str()),
    };
    let mk_key = |shape: &str| format!("C30|{}|{}|{}", fk, p.phase, shape);
    if r.faulty_ok && before != CheckoutState::Complete {
        r.violation = Some((
            mk_key("faulty-run-succeeded-without-complete-checkout"),
            format!("the run with the injected fault reported a successful build although the checkout of the pinned commit is {}", before.short()),
        ));
    } else if rec.ok() {
        match &after {
            CheckoutState::Complete => {
                r.outcome = if before == CheckoutState::Complete { "ok:complete-checkout-reused".into() } else { format!("ok:fetched-again(from {})", match before { CheckoutState::Absent => "absent", _ => "partial" }) };
            }
            other => {
                r.violation = Some((
                    mk_key("recovery-built-against-incomplete-checkout"),
                    format!("the recovery build succeeded but the checkout it used is {}", other.short()),
                ));
            }
        }
    } else {
        match &after {
            CheckoutState::Partial(d) => {
                r.violation = Some((
                    mk_key("recovery-failed:partial-checkout-reused"),
                    format!("the recovery build did not fetch again and failed on the partial checkout left by the fault ({d}): {}", rec.short()),
                ));
            }
            other => {
                r.violation = Some((
                    mk_key("recovery-failed:other"),
                    format!("the recovery build failed although the checkout is {}: {}", other.short(), rec.short()),
                ));
            }
        }
    }
    if let Some((k, _)) = &r.violation {
        r.outcome = format!("VIOLATION:{}", k.rsplit('|').next().unwrap_or(""));
    }
    if !keep {
        let _ = std::fs::remove_dir_all(&cd.dir);
    }
    r
}

/// Clean run + two counting runs for one reference form. Returns the fault points.
fn count_points(ctx: &Ctx, rk: RefKind, rep: &mut vhcore::Reporter) -> Result<Vec<Point>, String> {
    // clean run, no strace
    let cd = case_dirs(ctx, rk, "clean00");
    let out = run_build_once(&ctx.exe, &cd.home, &cd.proj, None, &[], &cd.dir.join("stderr"), TIMEOUT);
    if !out.ok() {
        return Err(format!("fault-free build does not work for reference form `{}`: {}", rk.as_str(), out.short()));
    }
    if checkout_state(&cd.home, &ctx.sc) != CheckoutState::Complete {
        return Err(format!("fault-free build leaves checkout {}", checkout_state(&cd.home, &ctx.sc).short()));
    }
    // second build from the warm cache must also work
    let out2 = run_build_once(&ctx.exe, &cd.home, &cd.proj, None, &[], &cd.dir.join("stderr2"), TIMEOUT);
    if !out2.ok() {
        return Err(format!("second fault-free build fails: {}", out2.short()));
    }
    let mut seqs = vec![];
    for rnd in 0..2 {
        let cd = case_dirs(ctx, rk, &format!("count0{rnd}"));
        let tf = cd.dir.join("trace");
        let out = run_build_once(&ctx.exe, &cd.home, &cd.proj, Some(&tf), &[], &cd.dir.join("stderr"), TIMEOUT);
        if !out.ok() {
            return Err(format!("counting run under strace failed: {}", out.short()));
        }
        let t = parse_trace(&tf);
        let (pts, foreign, other_max) = points_of(&t, &cd.home, &cd.proj, &ctx.sc.commit);
        if !foreign.is_empty() {
            return Err(format!("{} mutating syscalls are made by threads other than the main thread, e.g. {}", foreign.len(), foreign[0]));
        }
        // a fault rule (name, k) fires in every thread that reaches its k-th call of `name`
        for p in &pts {
            if other_max.get(&p.name).copied().unwrap_or(0) >= p.k {
                return Err(format!("fault point {}#{} is ambiguous: another thread also makes {} calls of {}", p.name, p.k, other_max[&p.name], p.name));
            }
        }
        if rnd == 0 {
            rep.set(&format!("threads_{}", rk.as_str()), t.tids.len() as u64);
        }
        seqs.push(pts);
    }
    let sig = |v: &Vec<Point>| v.iter().map(|p| format!("{}#{} {} {}", p.name, p.k, p.phase, p.norm)).collect::<Vec<_>>();
    if sig(&seqs[0]) != sig(&seqs[1]) {
        let a = sig(&seqs[0]);
        let b = sig(&seqs[1]);
        let i = a.iter().zip(b.iter()).position(|(x, y)| x != y).unwrap_or(a.len().min(b.len()));
        return Err(format!("two counting runs differ at mutating syscall {i}: {:?} vs {:?}", a.get(i), b.get(i)));
    }
    Ok(seqs.remove(0))
}

fn run(a: &vhcore::Args) -> i32 {
    let mut rep = vhcore::Reporter::from_args(a, "fault_enumeration");
    for tool in ["strace", "git", "tar"] {
        let ok = std::process::Command::new(tool).arg("--version").output().map(|o| o.status.success()).unwrap_or(false);
        if !ok {
            vhcore::machinery_failure(&format!("required tool `{tool}` not found"));
        }
    }
    let work = work_dir_keeping_patches("C30");
    let exe = std::env::current_exe().unwrap_or_else(|e| vhcore::machinery_failure(&format!("current_exe: {e}")));
    let sc = make_scenario(&work.join("scenario"));
    let ctx = Ctx { exe, work, sc };
    let thorough = a.tier == vhcore::Tier::Thorough;

    // which reference forms work offline (file:// URL)?
    let mut forms = vec![];
    for rk in RefKind::ALL {
        let cd = case_dirs(&ctx, rk, "probe00");
        let out = run_build_once(&ctx.exe, &cd.home, &cd.proj, None, &[], &cd.dir.join("stderr"), TIMEOUT);
        forms.push(json!({"reference": rk.as_str(), "fault_free_build": out.short(), "checkout": checkout_state(&cd.home, &ctx.sc).short()}));
        let _ = std::fs::remove_dir_all(&cd.dir);
    }
    rep.set("reference_forms_probe", Value::Array(forms));

    let kinds: Vec<RefKind> = if thorough { vec![RefKind::Branch, RefKind::Rev, RefKind::Tag] } else { vec![RefKind::Branch] };
    let fault_kinds: Vec<FaultKind> = if thorough { vec![FaultKind::Kill, FaultKind::Eio, FaultKind::Enospc] } else { vec![FaultKind::Kill, FaultKind::Eio] };

    let mut evaluations = 0u64;
    let mut distinct: BTreeSet<(String, String)> = BTreeSet::new();
    let mut outcome_hist: BTreeMap<String, u64> = BTreeMap::new();
    let mut outcomes_distinct: BTreeSet<String> = BTreeSet::new();
    let mut machinery: Vec<String> = vec![];
    let mut skipped_pairs = 0u64;
    let mut unreached_second = 0u64;
    let mut points_total = 0u64;
    let mut expected_runs = 0u64;

    for rk in kinds {
        let pts = match count_points(&ctx, rk, &mut rep) {
            Ok(p) => p,
            Err(e) => vhcore::machinery_failure(&e),
        };
        if pts.len() < 50 {
            vhcore::machinery_failure(&format!("only {} mutating syscalls recorded for `{}` — the trace is implausibly small", pts.len(), rk.as_str()));
        }
        points_total += pts.len() as u64;
        let mut per_phase: BTreeMap<String, u64> = BTreeMap::new();
        for p in &pts {
            *per_phase.entry(p.phase.clone()).or_insert(0) += 1;
            distinct.insert((p.name.clone(), p.phase.clone()));
        }
        rep.set(&format!("points_{}", rk.as_str()), pts.len() as u64);
        rep.set(&format!("points_by_phase_{}", rk.as_str()), json!(per_phase));
        for ph in ["pin-clone", "fetch-clone", "lock-file", "project-lock"] {
            if !per_phase.contains_key(ph) {
                vhcore::machinery_failure(&format!("phase `{ph}` has no mutating syscall for `{}` — phase classifier out of date", rk.as_str()));
            }
        }
        if !per_phase.contains_key("checkout-final") && !per_phase.contains_key("checkout-staging") {
            vhcore::machinery_failure("no checkout syscalls recognised");
        }

        // ---- single faults: every (fault kind, point)
        // (debugging aid: VH_C30_ONLY_PHASES=a,b restricts the enumeration to some phases; the run is
        // then reported as not exhaustive)
        let only_phases: Option<Vec<String>> = std::env::var("VH_C30_ONLY_PHASES").ok().map(|s| s.split(',').map(|x| x.trim().to_string()).collect());
        let mut faults: Vec<Fault> = vec![];
        for fk in &fault_kinds {
            for p in &pts {
                if let Some(op) = &only_phases {
                    if !op.contains(&p.phase) {
                        continue;
                    }
                }
                if *fk == FaultKind::Enospc && !enospc_applies(p) {
                    continue;
                }
                faults.push(Fault { kind: *fk, point: p.idx, second: None });
            }
        }
        expected_runs += faults.len() as u64;
        // pre-flight: one fault of each kind, serially, so that a broken injection mechanism is
        // reported at once instead of after the whole enumeration
        for fk in &fault_kinds {
            if let Some(i) = faults.iter().position(|f| f.kind == *fk) {
                let r = run_case(&ctx, rk, &pts, &faults[i], None, &format!("pre{:>4}", &fk.as_str()[..fk.as_str().len().min(4)]).replace(' ', "_"), false);
                if let Some(m) = r.machinery {
                    vhcore::machinery_failure(&format!("pre-flight: {m}"));
                }
            }
        }
        let results: Vec<CaseResult> = vhcore::par_map_idx(faults.len(), a.jobs, |i| {
            run_case(&ctx, rk, &pts, &faults[i], None, &format!("s{i:06}"), false)
        });
        let mut sampled: BTreeSet<String> = BTreeSet::new();
        for (f, r) in faults.iter().zip(results.iter()) {
            if let Some(m) = &r.machinery {
                machinery.push(m.clone());
                continue;
            }
            evaluations += 1;
            let p = &pts[f.point];
            *outcome_hist.entry(format!("{}|{}|{}|{}", rk.as_str(), f.kind.as_str(), p.phase, r.outcome)).or_insert(0) += 1;
            outcomes_distinct.insert(r.outcome.clone());
            let desc = json!({
                "reference": rk.as_str(), "fault": f.kind.as_str(), "syscall": p.name, "k": p.k, "point": p.idx, "phase": p.phase,
                "path": p.norm, "faulty_run": r.faulty, "checkout_after_fault": r.state_before,
                "recovery_run": r.recovery, "checkout_after_recovery": r.state_after, "outcome": r.outcome,
            });
            let skey = format!("{}|{}|{}", f.kind.as_str(), p.phase, r.outcome);
            if sampled.insert(skey) && (p.phase.starts_with("checkout") || p.phase == "forc-index" || p.phase == "project-lock" || p.phase == "lock-file") {
                rep.sample(desc.clone());
            }
            if let Some((key, what)) = &r.violation {
                let what = format!("{} at {}#{} ({}, phase {}, reference {}): {what}", f.kind.as_str(), p.name, p.k, p.norm, p.phase, rk.as_str());
                rep.violation(key, &what, json!({"reference": rk.as_str(), "fault": f.kind.as_str(), "syscall": p.name, "k": p.k, "path": p.norm, "phase": p.phase, "second": Value::Null}));
            }
        }

        // ---- pairs (thorough, branch reference only): EIO at p, then EIO / SIGKILL at the next
        // mutating syscall of the execution that follows the first fault
        if thorough && rk == RefKind::Branch {
            let mut pf: Vec<(Fault, (String, usize, String, String))> = vec![];
            for (f, r) in faults.iter().zip(results.iter()) {
                if f.kind != FaultKind::Eio || r.machinery.is_some() {
                    continue;
                }
                if let Some(nx) = &r.next {
                    for k2 in [FaultKind::Eio, FaultKind::Kill] {
                        pf.push((Fault { kind: FaultKind::Eio, point: f.point, second: Some(k2) }, nx.clone()));
                    }
                }
            }
            rep.set("pair_faults_planned", pf.len() as u64);
            let pres: Vec<CaseResult> = vhcore::par_map_idx(pf.len(), a.jobs, |i| {
                run_case(&ctx, rk, &pts, &pf[i].0, Some(&pf[i].1), &format!("p{i:06}"), false)
            });
            for ((f, nx), r) in pf.iter().zip(pres.iter()) {
                if let Some(m) = &r.machinery {
                    machinery.push(m.clone());
                    continue;
                }
                if r.skipped.is_some() {
                    skipped_pairs += 1;
                    continue;
                }
                if r.second_desc.as_deref() == Some("second fault point not reached") {
                    unreached_second += 1;
                }
                evaluations += 1;
                let p = &pts[f.point];
                let fk = format!("eio+{}", f.second.unwrap().as_str());
                *outcome_hist.entry(format!("{}|{}|{}|{}", rk.as_str(), fk, p.phase, r.outcome)).or_insert(0) += 1;
                outcomes_distinct.insert(r.outcome.clone());
                if let Some((key, what)) = &r.violation {
                    let what = format!("eio at {}#{} ({}) then {} at {}#{} ({}), reference {}: {what}", p.name, p.k, p.norm, f.second.unwrap().as_str(), nx.0, nx.1, nx.3, rk.as_str());
                    rep.violation(key, &what, json!({"reference": rk.as_str(), "fault": "eio", "syscall": p.name, "k": p.k, "path": p.norm, "phase": p.phase,
                        "second": {"fault": f.second.unwrap().as_str(), "syscall": nx.0, "k": nx.1, "phase": nx.2, "path": nx.3}}));
                }
            }
        }
    }

    if !machinery.is_empty() {
        for m in machinery.iter().take(10) {
            eprintln!("machinery: {m}");
        }
        vhcore::machinery_failure(&format!("{} fault runs could not be validated, first: {}", machinery.len(), machinery[0]));
    }
    if outcomes_distinct.len() < 2 {
        vhcore::machinery_failure(&format!("vacuity guard: only {} distinct outcome(s) observed: {:?}", outcomes_distinct.len(), outcomes_distinct));
    }
    if evaluations < expected_runs {
        vhcore::machinery_failure(&format!("{} single-fault runs completed, {} expected", evaluations, expected_runs));
    }
    rep.set("evaluations", evaluations);
    rep.set("fault_points", points_total);
    rep.set("distinct_nontrivial", distinct.len() as u64);
    rep.set(
        "rule",
        "fault points = every mutating syscall (open* with O_CREAT/O_WRONLY/O_RDWR/O_TRUNC/O_APPEND, write, pwrite64, mkdir, rename, link, unlink(at), rmdir, symlink, chmod, flock, …) of the main thread of `c30 build-once` as recorded by strace (all mutating syscalls are on that thread, checked); each point gets SIGKILL and EIO (thorough: ENOSPC where applicable, pairs EIO+EIO / EIO+SIGKILL on consecutive mutating syscalls, and the reference forms branch/rev/tag); evaluations = faulty runs, each followed by one fault-free recovery run; distinct_nontrivial = distinct (syscall name, phase of the fetch) pairs among the fault points",
    );
    rep.set("outcomes", json!(outcome_hist));
    rep.set("distinct_outcomes", json!(outcomes_distinct));
    rep.set("pairs_skipped_not_expressible_in_strace", skipped_pairs);
    rep.set("pairs_second_point_not_reached", unreached_second);
    let restricted = std::env::var("VH_C30_ONLY_PHASES").is_ok();
    rep.set("exhaustive", !restricted);
    if restricted {
        rep.cap(&format!("VH_C30_ONLY_PHASES={} — only these phases were enumerated", std::env::var("VH_C30_ONLY_PHASES").unwrap_or_default()));
    }
    rep.assume("crash model: process crash (SIGKILL) — every completed syscall persists, so the on-disk state after a crash is exactly a prefix of the syscall sequence; power-loss reordering and torn single writes are out of scope");
    rep.assume("strace's SIGKILL injection stops the process on entry to the syscall (the syscall is not executed); the state after the last syscall is the fault-free run");
    rep.assume("one dependency, 6 files, local file:// transport of libgit2; network transports are not exercised");
    rep.assume("the recovery run is online (not --offline) like the faulty run");
    if !thorough {
        rep.cap("quick tier: branch reference only, faults kill+EIO, no ENOSPC, no fault pairs");
    } else {
        rep.cap("fault pairs only for the branch reference; second faults on the same syscall name are only expressible for consecutive ordinals with the same action");
    }
    rep.finish()
}

fn replay(a: &vhcore::Args) -> i32 {
    let Some(path) = &a.replay else { vhcore::machinery_failure("usage: c30 replay C30 <file>") };
    let txt = std::fs::read_to_string(path).unwrap_or_else(|e| vhcore::machinery_failure(&format!("read {}: {e}", path.display())));
    let v: Value = serde_json::from_str(&txt).unwrap_or_else(|e| vhcore::machinery_failure(&format!("parse: {e}")));
    let rp = &v["replay"];
    let rk = RefKind::parse(rp["reference"].as_str().unwrap_or("")).unwrap_or_else(|| vhcore::machinery_failure("bad reference"));
    let fk = FaultKind::parse(rp["fault"].as_str().unwrap_or("")).unwrap_or_else(|| vhcore::machinery_failure("bad fault"));
    let name = rp["syscall"].as_str().unwrap_or("").to_string();
    let k = rp["k"].as_u64().unwrap_or(0) as usize;
    let work = vhcore::work_dir("C30replay");
    let exe = std::env::current_exe().unwrap();
    let sc = make_scenario(&work.join("scenario"));
    let ctx = Ctx { exe, work, sc };
    let mut rep = vhcore::Reporter::new("C30replay", a.tier, 0, "fault_enumeration");
    let pts = match count_points(&ctx, rk, &mut rep) {
        Ok(p) => p,
        Err(e) => vhcore::machinery_failure(&e),
    };
    // locate the point by (syscall, normalised path, phase) first, by ordinal as a fallback
    let want_path = rp["path"].as_str().unwrap_or("");
    let pi = pts
        .iter()
        .position(|p| p.name == name && p.k == k && p.norm == want_path)
        .or_else(|| pts.iter().position(|p| p.name == name && p.norm == want_path))
        .unwrap_or_else(|| vhcore::machinery_failure(&format!("fault point {name}#{k} ({want_path}) does not exist any more ({} points)", pts.len())));
    let p = &pts[pi];
    println!("fault point {}: {}#{} phase={} {}", p.idx, p.name, p.k, p.phase, p.norm);
    let mut f = Fault { kind: fk, point: pi, second: None };
    let mut second_at = None;
    if rp["second"].is_object() {
        let first = run_case(&ctx, rk, &pts, &f, None, "replay1", true);
        if let Some(m) = first.machinery {
            vhcore::machinery_failure(&m);
        }
        second_at = first.next.clone();
        f.second = FaultKind::parse(rp["second"]["fault"].as_str().unwrap_or(""));
    }
    let r = run_case(&ctx, rk, &pts, &f, second_at.as_ref(), "replay0", true);
    if let Some(m) = r.machinery {
        vhcore::machinery_failure(&m);
    }
    if let Some(s) = &r.skipped {
        vhcore::machinery_failure(&format!("fault not expressible: {s}"));
    }
    println!("faulty run: {}", r.faulty);
    if let Some(s) = &r.second_desc {
        println!("second fault: {s}");
    }
    println!("checkout after the fault: {}", r.state_before);
    println!("recovery run: {}", r.recovery);
    println!("checkout after recovery: {}", r.state_after);
    println!("case directory kept at {}", ctx.work.join("cases").join(rk.as_str()).join("replay0").display());
    match r.violation {
        Some((key, what)) => {
            println!("still violates: key={key}\n  {what}");
            1
        }
        None => {
            println!("no violation: {}", r.outcome);
            0
        }
    }
}

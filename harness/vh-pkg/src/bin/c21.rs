//! C21 — Reading any lock file never crashes.
//!
//! Bounded-exhaustive malformed `source` strings and dependency lines (DESIGN.md §C21), each embedded
//! in an otherwise valid Forc.lock that is written to disk and loaded with the public API
//! `Lock::from_path` + `Lock::to_graph` under `catch_unwind`.
//!
//! Oracle: the load returns `Ok` or `Err`; it never panics.

use forc_pkg::Lock;
use serde_json::{json, Value};
use std::collections::BTreeMap;
use std::path::PathBuf;
use std::sync::atomic::{AtomicUsize, Ordering};
use vhcore::{Args, Distinct, Reporter};
use vh_pkg::mk;

const H1: &str = "64092602dd6158f3e41d775ed889389440a2cd86";
const CID0: &str = "QmYwAPJzv5CZsnA625s3Xf2nemtYgPpHdWEz79ojWnPbdG";
const PATH_SRC: &str = "path+from-root-0123456789ABCDEF";
const SALT1: &str = "0000000000000000000000000000000000000000000000000000000000000001";
const SALTF: &str = "ffffffffffffffffffffffffffffffffffffffffffffffffffffffffffffffff";

// ---- source-string family
const SRC_ALPHABET: [&str; 15] = [
    "g", "i", "t", "+", "?", "#", "!", "/", ":", "=", "é", "0", "(", ")", " ",
];
const SRC_PREFIXES: [&str; 6] = ["", "git+", "path+", "ipfs+", "registry+", "path+from-root-"];

fn src_tails() -> Vec<String> {
    vec![
        String::new(),
        format!("https://github.com/FuelLabs/sway?branch=master#{H1}"),
        format!("?branch=master#{H1}"),
        format!("#{H1}"),
        "from-root-0123456789ABCDEF".to_string(),
        CID0.to_string(),
        format!("aa?1.0.0#{CID0}!"),
        format!("?1.0.0#{CID0}!fuel"),
    ]
}

// ---- dependency-line family
const DEP_ALPHABET: [&str; 6] = ["a", "(", ")", " ", "0", "é"];
const DEP_INSERT: [&str; 9] = ["a", "(", ")", " ", "0", "é", "#", "+", "?"];

fn git_src() -> String {
    format!("git+https://github.com/FuelLabs/sway?branch=master#{H1}")
}

fn valid_dep_lines() -> Vec<String> {
    vec![
        "a".to_string(),
        "(b) a".to_string(),
        format!("a ({SALT1})"),
        format!("(b) a ({SALTF})"),
        format!("a {PATH_SRC}"),
        format!("(b) a {} ({SALT1})", git_src()),
    ]
}

fn toml_str(s: &str) -> String {
    toml::Value::String(s.to_string()).to_string()
}

/// Otherwise valid Forc.lock whose second package has the given `source`.
fn lock_with_source(source: &str) -> String {
    format!(
        "[[package]]\nname = \"dep\"\nsource = {}\n\n[[package]]\nname = \"rootpkg\"\nsource = \"member\"\ndependencies = [\"dep\"]\n",
        toml_str(source)
    )
}

/// Otherwise valid Forc.lock whose root has the given dependency line.
/// template 1: packages rootpkg, a (path).  template 2: rootpkg, a (path), a (git) — the name `a`
/// then needs `<name> <source>` disambiguation.
fn lock_with_dep_line(template: u8, table: &str, line: &str) -> String {
    let mut s = format!("[[package]]\nname = \"a\"\nsource = \"{PATH_SRC}\"\n\n");
    if template == 2 {
        s.push_str(&format!("[[package]]\nname = \"a\"\nsource = \"{}\"\n\n", git_src()));
    }
    s.push_str(&format!(
        "[[package]]\nname = \"rootpkg\"\nsource = \"member\"\n{table} = [{}]\n",
        toml_str(line)
    ));
    s
}

const TABLES: [&str; 2] = ["dependencies", "contract-dependencies"];

// ---- loading

static NEXT_THREAD: AtomicUsize = AtomicUsize::new(0);
thread_local! {
    /// Per-thread Forc.lock, kept open: the text is written at offset 0 and the file is cut to length
    /// (open(O_TRUNC) per case costs milliseconds on this file system).
    static LOCK_FILE: (PathBuf, std::fs::File) = {
        let n = NEXT_THREAD.fetch_add(1, Ordering::Relaxed);
        let d = vhcore::verif_root().join("work").join("C21").join("run").join(format!("t{n}"));
        std::fs::create_dir_all(&d).unwrap_or_else(|e| vhcore::machinery_failure(&format!("work dir: {e}")));
        let p = d.join("Forc.lock");
        let f = std::fs::OpenOptions::new().write(true).create(true).truncate(false).open(&p)
            .unwrap_or_else(|e| vhcore::machinery_failure(&format!("cannot create {}: {e}", p.display())));
        (p, f)
    };
}

/// Replace the content of this thread's Forc.lock by `text`; returns its path.
fn write_lock_file(text: &str) -> PathBuf {
    use std::os::unix::fs::FileExt;
    LOCK_FILE.with(|(p, f)| {
        if let Err(e) = f.write_all_at(text.as_bytes(), 0).and_then(|_| f.set_len(text.len() as u64)) {
            vhcore::machinery_failure(&format!("cannot write {}: {e}", p.display()));
        }
        p.clone()
    })
}

#[derive(Debug, Clone, PartialEq, Eq)]
enum Loaded {
    Graph { nodes: usize, edges: usize },
    Err(String),
    Panic { loc: String, msg: String },
}

fn load(text: &str) -> Loaded {
    let path = write_lock_file(text);
    let r = vhcore::catch(std::panic::AssertUnwindSafe(|| {
        let lock = Lock::from_path(&path)?;
        lock.to_graph()
    }));
    match r {
        Ok(Ok(g)) => Loaded::Graph { nodes: g.node_count(), edges: g.edge_count() },
        Ok(Err(e)) => Loaded::Err(e.to_string()),
        Err(msg) => Loaded::Panic { loc: mk::rel_loc(&vhcore::take_panic_loc()), msg },
    }
}

/// Coarse class of a non-panicking result (for the distinct-outcome count only).
fn outcome_class(l: &Loaded) -> String {
    match l {
        Loaded::Graph { nodes, edges } => format!("ok:{nodes}-nodes-{edges}-edges"),
        Loaded::Err(m) => {
            let head: String = m
                .split(|c: char| c == '"' || c == ':')
                .next()
                .unwrap_or("")
                .chars()
                .filter(|c| c.is_ascii_alphabetic() || *c == ' ' || *c == '\'')
                .collect();
            let head = head.trim().replace(' ', "-");
            // keep the package name / key out of the class
            let head = head.split("-for-package").next().unwrap_or("").to_string();
            if m.contains("invalid salt") {
                "err:invalid-salt".into()
            } else if head.starts_with("found-dep") {
                "err:dep-without-node".into()
            } else {
                format!("err:{head}")
            }
        }
        Loaded::Panic { loc, .. } => format!("panic@{loc}"),
    }
}

// ---- input-shape predicates (computed from the input only)

/// Input predicate for a panicking source string. Which predicate is relevant depends on the parser
/// the panic is in (the failure shape), so it is chosen by the panic's file.
fn source_shape(loc: &str, s: &str) -> String {
    let t = s.trim();
    let after = |p: &str| t.strip_prefix(p).map(|rest| rest.contains('?'));
    if loc.contains("source/reg/") {
        match after("registry+") {
            None => "source-does-not-start-with-registry+".to_string(),
            Some(q) => format!("registry+-prefix,question-mark-after-prefix={q}"),
        }
    } else if loc.contains("source/git/") {
        match after("git+") {
            None => "source-does-not-start-with-git+".to_string(),
            Some(q) => format!("git+-prefix,question-mark-after-prefix={q}"),
        }
    } else if loc.contains("source/path") {
        match t.strip_prefix("path+") {
            None => "source-does-not-start-with-path+".to_string(),
            Some(rest) => format!("path+-prefix,from-root-marker={}", rest.contains("from-root-")),
        }
    } else {
        let kind = ["git+", "path+", "ipfs+", "registry+"]
            .iter()
            .find(|p| t.starts_with(**p))
            .copied()
            .unwrap_or("none");
        format!("prefix={kind}")
    }
}

/// Input predicate for a panicking dependency line: what the text looks like at the two places the
/// parser slices (the `(dep_name)` prefix and the `(salt)` suffix).
fn dep_line_shape(line: &str) -> String {
    let s = line.trim();
    let rest = if let Some(inner) = s.strip_prefix('(') {
        match inner.find(')') {
            Some(i) => &inner[i + 1..],
            None => return "leading-paren-never-closed".to_string(),
        }
    } else {
        s
    };
    let mut it = rest.split('(');
    it.next();
    match it.next().map(str::trim) {
        None => "no-salt-segment",
        Some("") => "empty-salt-segment",
        Some(x) if !x.is_char_boundary(x.len() - 1) => "salt-segment-ends-in-multibyte-char",
        Some(_) => "salt-segment-other",
    }
    .to_string()
}

// ---- accumulation

#[derive(Default)]
struct Acc {
    evaluations: u64,
    nontrivial: Distinct,
    all: Distinct,
    outcomes: BTreeMap<String, u64>,
    /// key → (count, what, replay)
    bad: BTreeMap<String, (u64, String, Value)>,
    samples: BTreeMap<String, Value>,
}

impl Acc {
    fn merge(&mut self, o: Acc) {
        self.evaluations += o.evaluations;
        self.nontrivial.merge(o.nontrivial);
        self.all.merge(o.all);
        for (k, v) in o.outcomes {
            *self.outcomes.entry(k).or_default() += v;
        }
        for (k, v) in o.bad {
            match self.bad.get_mut(&k) {
                Some(e) => {
                    e.0 += v.0;
                    let len = |x: &Value| x["input"].as_str().map(|s| s.chars().count()).unwrap_or(usize::MAX);
                    if len(&v.2) < len(&e.2) {
                        e.1 = v.1;
                        e.2 = v.2;
                    }
                }
                None => {
                    self.bad.insert(k, v);
                }
            }
        }
        for (k, v) in o.samples {
            self.samples.entry(k).or_insert(v);
        }
    }

    fn case(&mut self, family: &str, input: &str, context: &str, text: &str, nontrivial: bool, shape: &dyn Fn(&str) -> String) {
        self.evaluations += 1;
        self.all.add(&(family, context, input));
        if nontrivial {
            self.nontrivial.add(&(family, context, input));
        }
        let l = load(text);
        let class = outcome_class(&l);
        *self.outcomes.entry(class.clone()).or_default() += 1;
        if !self.samples.contains_key(&class) {
            self.samples.insert(
                class.clone(),
                json!({"family": family, "context": context, "input": input, "result": format!("{l:?}")}),
            );
        }
        if let Loaded::Panic { loc, msg } = &l {
            let key = format!("panic@{loc}|{}", shape(loc));
            match self.bad.get_mut(&key) {
                // keep the shortest input of the class as its representative
                Some(e) => {
                    e.0 += 1;
                    let cur = e.2["input"].as_str().map(|s| s.chars().count()).unwrap_or(usize::MAX);
                    if input.chars().count() < cur {
                        e.1 = format!("loading a Forc.lock with {family} {input:?} panicked: {msg}");
                        e.2 = json!({"family": family, "context": context, "input": input, "forc_lock": text});
                    }
                }
                None => {
                    self.bad.insert(
                        key,
                        (
                            1,
                            format!("loading a Forc.lock with {family} {input:?} panicked: {msg}"),
                            json!({"family": family, "context": context, "input": input, "forc_lock": text}),
                        ),
                    );
                }
            }
        }
    }

    fn source_case(&mut self, s: &str) {
        let t = s.trim();
        let nontrivial = ["git+", "path+", "ipfs+", "registry+"].iter().any(|p| t.starts_with(p)) || t == "member" || t == "root";
        let text = lock_with_source(s);
        self.case("source", s, "package.source", &text, nontrivial, &|loc| source_shape(loc, s));
    }

    fn dep_case(&mut self, line: &str) {
        let nontrivial = line.contains('(') || line.contains(')');
        for template in [1u8, 2] {
            for table in TABLES {
                let text = lock_with_dep_line(template, table, line);
                let ctx = format!("template{template}.{table}");
                self.case("dependency-line", line, &ctx, &text, nontrivial, &|_| dep_line_shape(line));
            }
        }
    }
}

fn run(a: &Args) -> i32 {
    let mut rep = Reporter::from_args(a, "exploration");
    vhcore::work_dir("C21/run");
    // maximal length of the enumerated middle part: (with the empty tail, with a non-empty tail)
    let (src_len_bare, src_len_tail) = a.tier.pick((5usize, 4usize), (5usize, 4usize));
    let dep_len = a.tier.pick(7usize, 7usize);
    let tails = src_tails();
    let mut total = Acc::default();
    let mut expected = 0u64;

    // ---- family 1: source strings  prefix · middle · tail
    {
        let k = SRC_ALPHABET.len();
        let mut jobs: Vec<(usize, usize, usize, Vec<usize>)> = vec![];
        for p in 0..SRC_PREFIXES.len() {
            for t in 0..tails.len() {
                let max_len = if tails[t].is_empty() { src_len_bare } else { src_len_tail };
                for len in 0..=max_len {
                    for sh in vhcore::enumerate::shards(k, len, 2) {
                        jobs.push((p, t, len, sh));
                    }
                }
                expected += vhcore::enumerate::count_upto(k, max_len);
            }
        }
        let accs = vhcore::par_map_idx(jobs.len(), a.jobs, |j| {
            let (p, t, len, sh) = &jobs[j];
            let mut acc = Acc::default();
            vhcore::enumerate::for_each_with_prefix(&SRC_ALPHABET, *len, sh, &mut |_, mid| {
                let s = format!("{}{}{}", SRC_PREFIXES[*p], mid, tails[*t]);
                acc.source_case(&s);
            });
            acc
        });
        for acc in accs {
            total.merge(acc);
        }
        // the valid forms themselves and the legacy spellings
        let extra = [
            "member".to_string(),
            "root".to_string(),
            PATH_SRC.to_string(),
            git_src(),
            format!("ipfs+{CID0}"),
            format!("registry+aa?1.0.0#{CID0}!"),
            format!("registry+aa?1.0.0#{CID0}!fuel"),
        ];
        expected += extra.len() as u64;
        for s in &extra {
            total.source_case(s);
        }
    }
    let source_cases = total.evaluations;

    // ---- family 2: dependency lines
    {
        let k = DEP_ALPHABET.len();
        let mut jobs: Vec<(usize, Vec<usize>)> = vec![];
        for len in 0..=dep_len {
            for sh in vhcore::enumerate::shards(k, len, 2) {
                jobs.push((len, sh));
            }
        }
        expected += 4 * vhcore::enumerate::count_upto(k, dep_len);
        let accs = vhcore::par_map_idx(jobs.len(), a.jobs, |j| {
            let (len, sh) = &jobs[j];
            let mut acc = Acc::default();
            vhcore::enumerate::for_each_with_prefix(&DEP_ALPHABET, *len, sh, &mut |_, line| {
                acc.dep_case(line);
            });
            acc
        });
        for acc in accs {
            total.merge(acc);
        }
        // valid lines, and every single-character deletion / insertion
        let mut muts: Vec<String> = vec![];
        for v in valid_dep_lines() {
            let chars: Vec<char> = v.chars().collect();
            muts.push(v.clone());
            for i in 0..chars.len() {
                let mut c = chars.clone();
                c.remove(i);
                muts.push(c.into_iter().collect());
            }
            for i in 0..=chars.len() {
                for ins in DEP_INSERT {
                    let mut s: String = chars[..i].iter().collect();
                    s.push_str(ins);
                    s.extend(chars[i..].iter());
                    muts.push(s);
                }
            }
            expected += 4 * (1 + chars.len() as u64 + (chars.len() as u64 + 1) * DEP_INSERT.len() as u64);
        }
        let accs = vhcore::par_map(&muts, a.jobs, |line| {
            let mut acc = Acc::default();
            acc.dep_case(line);
            acc
        });
        for acc in accs {
            total.merge(acc);
        }
    }
    let dep_cases = total.evaluations - source_cases;

    // ---- family 3: structural damage — every line of a valid three-package lock deleted / duplicated
    {
        let base = lock_with_dep_line(2, "contract-dependencies", &format!("(b) a {} ({SALT1})", git_src()));
        let lines: Vec<&str> = base.lines().collect();
        let mut texts = vec![base.clone()];
        for i in 0..lines.len() {
            let mut d = lines.clone();
            d.remove(i);
            texts.push(d.join("\n") + "\n");
            let mut d = lines.clone();
            d.insert(i, lines[i]);
            texts.push(d.join("\n") + "\n");
        }
        expected += texts.len() as u64;
        for (i, t) in texts.iter().enumerate() {
            let input = format!("variant {i}");
            total.case("structure", &input, "whole-file", t, i > 0, &|_| "line-deleted-or-duplicated".to_string());
        }
    }

    // ---- guards
    if total.evaluations != expected {
        vhcore::machinery_failure(&format!(
            "enumerator produced {} cases, closed form says {}",
            total.evaluations, expected
        ));
    }
    let ok_seen = total.outcomes.keys().any(|k| k.starts_with("ok:"));
    let err_seen = total.outcomes.keys().any(|k| k.starts_with("err:"));
    if !ok_seen || !err_seen || total.outcomes.len() < 2 {
        vhcore::machinery_failure("vacuous run: Ok and Err outcomes were not both observed");
    }

    for (key, (n, what, replay)) in std::mem::take(&mut total.bad) {
        rep.violation(&key, &what, replay);
        for _ in 1..n {
            rep.violation(&key, &what, Value::Null);
        }
    }
    let mut samples: Vec<Value> = total.samples.values().cloned().collect();
    samples.truncate(12);
    rep.set("samples", Value::Array(samples));
    rep.set("evaluations", total.evaluations);
    rep.set("distinct_inputs", total.all.len() as u64);
    rep.set("distinct_nontrivial", total.nontrivial.len() as u64);
    rep.set(
        "rule",
        "every input is embedded in a valid-TOML Forc.lock, written to disk and loaded with Lock::from_path + to_graph. \
         distinct_nontrivial = number of distinct (family, context, input) triples (hash set) whose input gets past the first test of the \
         hand-written parsers: source strings that start with git+/path+/ipfs+/registry+ or are member/root; dependency lines containing a parenthesis; \
         structurally damaged files.",
    );
    rep.set("source_string_cases", source_cases);
    rep.set("dependency_line_cases", dep_cases);
    rep.set("outcome_classes", json!(total.outcomes));
    rep.set(
        "bounds",
        json!({
            "source_strings": format!("prefix in {:?} + every string of length <= {} (empty tail) / <= {} (other tails) over {:?} + tail in {:?}; plus 7 valid forms", SRC_PREFIXES, src_len_bare, src_len_tail, SRC_ALPHABET, tails),
            "dependency_lines": format!("every string of length <= {} over {:?}; plus {} valid lines with every single-character deletion and every insertion of one of {:?} at every position; each in 2 lock templates (name unique / name shared by two packages) x tables {:?}", dep_len, DEP_ALPHABET, valid_dep_lines().len(), DEP_INSERT, TABLES),
            "structure": "a valid three-package lock with each line deleted and each line duplicated",
        }),
    );
    rep.set("exhaustive", true);
    rep.assume("TOML-level malformation is left to the toml crate; every generated file is valid TOML except in the structure family");
    rep.finish()
}

fn replay(a: &Args) -> i32 {
    let Some(p) = &a.replay else {
        vhcore::machinery_failure("usage: replay C21 <path>")
    };
    vhcore::work_dir("C21/run");
    let txt = std::fs::read_to_string(p)
        .unwrap_or_else(|e| vhcore::machinery_failure(&format!("cannot read {}: {e}", p.display())));
    let v: Value = serde_json::from_str(&txt)
        .unwrap_or_else(|e| vhcore::machinery_failure(&format!("bad replay json: {e}")));
    let body = if v.get("replay").is_some() { &v["replay"] } else { &v };
    let Some(text) = body["forc_lock"].as_str() else {
        vhcore::machinery_failure("replay file has no forc_lock text")
    };
    println!("--- Forc.lock ---\n{text}---");
    let l = load(text);
    println!("Lock::from_path + to_graph: {l:?}");
    match l {
        Loaded::Panic { loc, msg } => {
            println!("VIOLATION property=C21 replay={}", p.display());
            println!("  key=panic@{loc} what={msg}");
            1
        }
        _ => {
            println!("no panic — property holds");
            0
        }
    }
}

fn main() {
    let a = vhcore::parse_args();
    vhcore::silence_panics();
    let code = match a.cmd.as_str() {
        "check" => run(&a),
        "replay" => replay(&a),
        _ => vhcore::machinery_failure("usage: c21 check C21 --tier quick|thorough | replay C21 <path>"),
    };
    std::process::exit(code);
}

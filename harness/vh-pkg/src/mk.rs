//! Constructors for `forc_pkg::source::Pinned` values that do **not** go through the
//! `Display`/`FromStr` implementations under test (C20/C21/C22).
//!
//! `member::Pinned` and `ipfs::Pinned`/`ipfs::Cid` live in modules that are not exported by
//! forc-pkg, so those variants are built through the derived `serde::Deserialize` of
//! `source::Pinned` (which is public and unrelated to the lock-file text format); git and path
//! variants are built from their public fields.

use forc_pkg::source;
use forc_pkg::PinnedId;
use serde_json::json;
use std::str::FromStr;

fn de(v: serde_json::Value) -> source::Pinned {
    match serde_json::from_value::<source::Pinned>(v.clone()) {
        Ok(p) => p,
        Err(e) => vhcore::machinery_failure(&format!("cannot build source::Pinned from {v}: {e}")),
    }
}

pub fn member() -> source::Pinned {
    de(json!({ "Member": null }))
}

pub fn ipfs(cid: &str) -> source::Pinned {
    de(json!({ "Ipfs": cid }))
}

/// `namespace`: `None` = `Namespace::Flat`, `Some(d)` = `Namespace::Domain(d)`.
pub fn registry(name: &str, version: &str, cid: &str, namespace: Option<&str>) -> source::Pinned {
    let ns = match namespace {
        None => json!("Flat"),
        Some(d) => json!({ "Domain": d }),
    };
    de(json!({ "Registry": { "source": { "name": name, "version": version, "namespace": ns }, "cid": cid } }))
}

pub fn git(repo: &str, reference: source::git::Reference, commit_hash: &str) -> source::Pinned {
    let repo = match source::git::Url::from_str(repo) {
        Ok(u) => u,
        Err(e) => vhcore::machinery_failure(&format!("bad git url {repo}: {e}")),
    };
    source::Pinned::Git(source::git::Pinned {
        source: source::git::Source { repo, reference },
        commit_hash: commit_hash.to_string(),
    })
}

pub fn path(path_root: PinnedId) -> source::Pinned {
    source::Pinned::Path(source::path::Pinned { path_root })
}

/// `file:line` of a panic with the repository root stripped, so that keys are identical for /repo
/// and for a lab worktree.
pub fn rel_loc(loc: &str) -> String {
    let root = vhcore::repo_root();
    let root = root.to_string_lossy();
    let l = loc.strip_prefix(root.as_ref()).unwrap_or(loc);
    l.trim_start_matches('/').to_string()
}

//! Code shared by the per-property binaries of this crate (src/bin/cNN.rs).

pub mod fetchlab;
pub mod mk;

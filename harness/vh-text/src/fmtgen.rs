//! Shared machinery of C18 (formatting is idempotent) and C19 (formatting preserves tokens and
//! comments): formatter driver + configurations, a flattening lexer built on the real
//! `sway_parse::lex_commented`, the bounded-exhaustive input space (corpus, item grammar, comment
//! insertion, whitespace variants), the C19 token/comment comparator and the classifiers.

use std::collections::BTreeMap;
use sway_ast::token::{CommentedTokenStream, CommentedTokenTree, CommentedTree, Spacing};
use sway_types::Spanned;
use swayfmt::config::manifest::Config;
use swayfmt::config::user_def::FieldAlignment;
use swayfmt::Formatter;

// ---------------------------------------------------------------------------------------------
// Configurations

/// The five configurations of the declared space. Only options that swayfmt actually consults are
/// used (`grep config\. swayfmt/src`: whitespace.{max_width,hard_tabs,tab_spaces,newline_threshold,
/// newline_style}, structures.{field_alignment,small_structures_single_line}); DESIGN.md's
/// `match_block_trailing_comma` exists in `ExpressionsOptions` but is never read by the formatter,
/// so the fifth configuration is `structures.field_alignment = AlignFields(20)` instead.
pub fn configs() -> Vec<(&'static str, Config)> {
    let mut v = vec![("default", Config::default())];
    let mut c = Config::default();
    c.whitespace.max_width = 40;
    v.push(("max_width=40", c));
    let mut c = Config::default();
    c.whitespace.hard_tabs = true;
    v.push(("hard_tabs", c));
    let mut c = Config::default();
    c.whitespace.tab_spaces = 2;
    v.push(("tab_spaces=2", c));
    let mut c = Config::default();
    c.structures.field_alignment = FieldAlignment::AlignFields(20);
    v.push(("align_fields=20", c));
    v
}

pub fn config_by_name(name: &str) -> Option<Config> {
    configs().into_iter().find(|(n, _)| *n == name).map(|(_, c)| c)
}

// ---------------------------------------------------------------------------------------------
// Formatter driver (the real `Formatter::format`, as forc-fmt drives it)

#[derive(Clone, Debug, PartialEq, Eq)]
pub enum FmtOut {
    Ok(String),
    /// the formatter refused the input (parse error, …): the case is outside the property's
    /// quantifier ("every source the formatter accepts")
    Err(String),
    /// `file:line|message`
    Panic(String),
}

pub fn fmt(src: &str, cfg: &Config) -> FmtOut {
    let cfg = cfg.clone();
    let s = src.to_string();
    let r = vhcore::catch(move || {
        let mut f = Formatter::default();
        f.config = cfg;
        f.format(s.as_str().into())
    });
    match r {
        Ok(Ok(s)) => FmtOut::Ok(s),
        Ok(Err(e)) => FmtOut::Err(format!("{e}")),
        Err(msg) => {
            let loc = vhcore::take_panic_loc();
            FmtOut::Panic(format!("{}|{}", strip_repo(&loc), vhcore::truncate(&msg, 120)))
        }
    }
}

pub fn strip_repo(loc: &str) -> String {
    // make panic locations independent of where the worktree lives (/repo vs /tmp/lab/x/repo)
    for c in ["swayfmt/", "sway-parse/", "sway-ast/", "sway-types/", "sway-error/"] {
        if let Some(p) = loc.find(c) {
            return loc[p..].to_string();
        }
    }
    loc.to_string()
}

// ---------------------------------------------------------------------------------------------
// Lexing with the real lexer, flattened

#[derive(Clone, Copy, Debug, PartialEq, Eq, Hash, PartialOrd, Ord)]
pub enum K {
    Ident,
    Punct,
    Lit,
    Open,
    Close,
    Doc,
    Comment,
}

/// One lexed element (token, delimiter, doc comment or comment) in source order.
#[derive(Clone, Debug)]
pub struct El {
    pub k: K,
    pub start: usize,
    pub end: usize,
    /// punct directly followed by another punct (lexer's `Spacing::Joint`)
    pub joint: bool,
    /// nesting depth (number of enclosing groups)
    pub depth: usize,
}

#[derive(Clone, Debug)]
pub struct Lexed {
    pub src: String,
    pub els: Vec<El>,
}

impl Lexed {
    pub fn text(&self, i: usize) -> &str {
        &self.src[self.els[i].start..self.els[i].end]
    }
    pub fn n_tokens(&self) -> usize {
        self.els.iter().filter(|e| e.k != K::Comment).count()
    }
    /// texts of the comments, in order, trailing whitespace removed
    pub fn comments(&self) -> Vec<String> {
        self.els
            .iter()
            .filter(|e| e.k == K::Comment)
            .map(|e| norm_comment(&self.src[e.start..e.end]))
            .collect()
    }
    /// `true` iff everything between consecutive elements is whitespace (then the elements and
    /// the gaps partition the source and gap rewriting is well defined)
    pub fn gaps_are_whitespace(&self) -> bool {
        let mut p = 0;
        for e in &self.els {
            if e.start < p || !self.src[p..e.start].chars().all(char::is_whitespace) {
                return false;
            }
            p = e.end;
        }
        self.src[p..].chars().all(char::is_whitespace)
    }
    /// token signature used to decide "same token sequence" between a base text and a variant
    pub fn sig(&self) -> Vec<(K, String)> {
        self.els
            .iter()
            .map(|e| (e.k, self.src[e.start..e.end].to_string()))
            .collect()
    }
}

/// trailing whitespace on every line of a (block) comment is not significant
pub fn norm_comment(s: &str) -> String {
    s.lines().map(|l| l.trim_end()).collect::<Vec<_>>().join("\n").trim_end().to_string()
}

/// Lex with `sway_parse::lex_commented`; `None` when the lexer reports an error or panics.
pub fn lex(src: &str) -> Option<Lexed> {
    let s = src.to_string();
    let r = vhcore::catch(move || {
        let h = sway_error::handler::Handler::default();
        let end = s.len();
        let r = sway_parse::lex_commented(&h, s.as_str().into(), 0, end, &None);
        let (errs, _, _) = h.consume();
        match r {
            Ok(ts) if errs.is_empty() => Some(ts),
            _ => None,
        }
    });
    let ts: CommentedTokenStream = match r {
        Ok(Some(ts)) => ts,
        _ => {
            let _ = vhcore::take_panic_loc();
            return None;
        }
    };
    let mut els = vec![];
    flatten(&ts, 0, &mut els);
    Some(Lexed {
        src: src.to_string(),
        els,
    })
}

fn flatten(ts: &CommentedTokenStream, depth: usize, out: &mut Vec<El>) {
    for tt in ts.token_trees() {
        match tt {
            CommentedTokenTree::Comment(c) => out.push(El {
                k: K::Comment,
                start: c.span.start(),
                end: c.span.end(),
                joint: false,
                depth,
            }),
            CommentedTokenTree::Tree(t) => match t {
                CommentedTree::Punct(p) => out.push(El {
                    k: K::Punct,
                    start: p.span.start(),
                    end: p.span.end(),
                    joint: p.spacing == Spacing::Joint,
                    depth,
                }),
                CommentedTree::Ident(i) => {
                    let sp = i.span();
                    out.push(El {
                        k: K::Ident,
                        start: sp.start(),
                        end: sp.end(),
                        joint: false,
                        depth,
                    })
                }
                CommentedTree::Literal(l) => {
                    let sp = l.span();
                    out.push(El {
                        k: K::Lit,
                        start: sp.start(),
                        end: sp.end(),
                        joint: false,
                        depth,
                    })
                }
                CommentedTree::DocComment(d) => out.push(El {
                    k: K::Doc,
                    start: d.span.start(),
                    end: d.span.end(),
                    joint: false,
                    depth,
                }),
                CommentedTree::Group(g) => {
                    let (s, e) = (g.span.start(), g.span.end());
                    out.push(El {
                        k: K::Open,
                        start: s,
                        end: s + 1,
                        joint: false,
                        depth,
                    });
                    flatten(&g.token_stream, depth + 1, out);
                    out.push(El {
                        k: K::Close,
                        start: e - 1,
                        end: e,
                        joint: false,
                        depth,
                    });
                }
            },
        }
    }
}

/// Does `src` parse as a module with the real parser (no errors)?
pub fn parses(src: &str) -> bool {
    let s = src.to_string();
    let r = vhcore::catch(move || {
        swayfmt::parse::parse_file(s.as_str().into(), Default::default()).is_ok()
    });
    match r {
        Ok(b) => b,
        Err(_) => {
            let _ = vhcore::take_panic_loc();
            false
        }
    }
}

// ---------------------------------------------------------------------------------------------
// Variant spaces over one base text

/// The menu of comment insertions: (whitespace before, comment text, whitespace after).
/// Block comment: {0,1,2} newlines on either side (0 newlines = one space); line comment and doc
/// comment: {0,1,2} before and {1,2} after (with 0 newlines after, the rest of the line would
/// become part of the comment, i.e. a different token sequence).
pub fn comment_menu() -> Vec<(&'static str, &'static str, &'static str)> {
    let ws = [" ", "\n", "\n\n"];
    let mut v = vec![];
    for b in ws {
        for a in ws {
            v.push((b, "/* c */", a));
        }
    }
    for c in ["// c", "/// d"] {
        for b in ws {
            for a in &ws[1..] {
                v.push((b, c, *a));
            }
        }
    }
    v
}

/// Reduced menu used for the ordered pairs of insertions.
pub fn pair_menu() -> Vec<(&'static str, &'static str, &'static str)> {
    vec![(" ", "// c", "\n"), ("\n", "// c", "\n"), (" ", "/* c */", " ")]
}

pub const WS_MENU: [&str; 4] = ["", " ", "\n", "\n\n\n"];

/// Number of gaps of a lexed text: before the first element, between elements, after the last.
pub fn n_gaps(l: &Lexed) -> usize {
    l.els.len() + 1
}

fn gap_bounds(l: &Lexed, g: usize) -> (usize, usize) {
    let s = if g == 0 { 0 } else { l.els[g - 1].end };
    let e = if g == l.els.len() { l.src.len() } else { l.els[g].start };
    (s, e)
}

/// Replace gap `g` by `text`.
pub fn with_gap(l: &Lexed, g: usize, text: &str) -> String {
    let (s, e) = gap_bounds(l, g);
    let mut out = String::with_capacity(l.src.len() + text.len());
    out.push_str(&l.src[..s]);
    out.push_str(text);
    out.push_str(&l.src[e..]);
    out
}

/// Replace gaps `g1 <= g2` (two insertions; when equal, both texts go into the same gap in order).
pub fn with_gaps2(l: &Lexed, g1: usize, t1: &str, g2: usize, t2: &str) -> String {
    assert!(g1 <= g2);
    if g1 == g2 {
        return with_gap(l, g1, &format!("{}{}", t1, t2.trim_start_matches(' ')));
    }
    let (s1, e1) = gap_bounds(l, g1);
    let (s2, e2) = gap_bounds(l, g2);
    let mut out = String::new();
    out.push_str(&l.src[..s1]);
    out.push_str(t1);
    out.push_str(&l.src[e1..s2]);
    out.push_str(t2);
    out.push_str(&l.src[e2..]);
    out
}

/// A case of the declared space: which base, which deviation.
#[derive(Clone, Debug)]
pub struct Variant {
    pub text: String,
    /// human-readable description of the deviation, e.g. `comment gap=3 " "+"// c"+"\n"`
    pub what: String,
}

pub fn comment_variants(l: &Lexed) -> Vec<Variant> {
    let mut v = vec![];
    for g in 0..n_gaps(l) {
        for (b, c, a) in comment_menu() {
            v.push(Variant {
                text: with_gap(l, g, &format!("{b}{c}{a}")),
                what: format!("comment gap={g} {:?}", format!("{b}{c}{a}")),
            });
        }
    }
    v
}

/// Whitespace variants: every gap replaced by each of WS_MENU, one at a time. A variant whose
/// token sequence differs from the base's (two tokens merged, a line comment swallowed the next
/// token) is not in the space; the number of such rejects is returned.
pub fn ws_variants(l: &Lexed) -> (Vec<Variant>, usize) {
    let base = l.sig();
    let mut v = vec![];
    let mut rejected = 0;
    for g in 0..n_gaps(l) {
        let (s, e) = gap_bounds(l, g);
        for w in WS_MENU {
            if &l.src[s..e] == w {
                continue; // the base itself
            }
            let text = with_gap(l, g, w);
            // only the gaps without a newline can merge tokens / be swallowed by a line comment
            if !w.contains('\n') {
                match lex(&text) {
                    Some(l2) if l2.sig() == base => {}
                    _ => {
                        rejected += 1;
                        continue;
                    }
                }
            }
            v.push(Variant {
                text,
                what: format!("ws gap={g} {w:?}"),
            });
        }
    }
    (v, rejected)
}

pub fn pair_variants(l: &Lexed) -> Vec<Variant> {
    let mut v = vec![];
    let m = pair_menu();
    for g1 in 0..n_gaps(l) {
        for g2 in g1..n_gaps(l) {
            for (b1, c1, a1) in &m {
                for (b2, c2, a2) in &m {
                    let c2 = c2.replace('c', "e");
                    v.push(Variant {
                        text: with_gaps2(l, g1, &format!("{b1}{c1}{a1}"), g2, &format!("{b2}{c2}{a2}")),
                        what: format!(
                            "pair gaps={g1},{g2} {:?} {:?}",
                            format!("{b1}{c1}{a1}"),
                            format!("{b2}{c2}{a2}")
                        ),
                    });
                }
            }
        }
    }
    v
}

// ---------------------------------------------------------------------------------------------
// Context of a position in a lexed text (for class keys)

const KEYWORDS: &[&str] = &[
    "fn", "struct", "enum", "impl", "trait", "abi", "storage", "configurable", "use", "const", "match",
    "if", "else", "while", "for", "asm", "mod", "let", "where", "type", "pub", "return", "break", "continue",
    "script", "contract", "predicate", "library", "self", "Self", "mut", "ref", "as", "in", "true", "false",
];

pub fn is_keyword(s: &str) -> bool {
    KEYWORDS.contains(&s)
}

/// abstract one element: keywords and punctuation verbatim, identifiers `id`, literals by kind
pub fn abs_el(l: &Lexed, i: usize) -> String {
    let e = &l.els[i];
    let t = l.text(i);
    match e.k {
        K::Ident => {
            if is_keyword(t) {
                t.to_string()
            } else {
                "id".into()
            }
        }
        K::Punct | K::Open | K::Close => t.to_string(),
        K::Lit => {
            if t.starts_with('"') {
                "str".into()
            } else if t.starts_with('\'') {
                "chr".into()
            } else {
                "num".into()
            }
        }
        K::Doc => "///".into(),
        K::Comment => {
            if t.starts_with("//") {
                "//".into()
            } else {
                "/**/".into()
            }
        }
    }
}

/// Introducer of the group opened at element `open`: the nearest construct keyword before it in the
/// same token stream (not crossing a `;`, a `,`-free statement boundary or a closed brace group).
fn introducer(l: &Lexed, open: usize) -> String {
    let d = l.els[open].depth;
    let delim = l.text(open).to_string();
    let mut i = open;
    let mut steps = 0;
    let mut saw_ident_before = false;
    while i > 0 && steps < 40 {
        i -= 1;
        let e = &l.els[i];
        if e.depth < d {
            break;
        }
        if e.depth > d || e.k == K::Comment || e.k == K::Doc {
            continue;
        }
        steps += 1;
        let t = l.text(i);
        match e.k {
            K::Punct if t == ";" => break,
            K::Close if t == "}" => break,
            K::Ident => {
                if matches!(
                    t,
                    "fn" | "struct"
                        | "enum"
                        | "impl"
                        | "trait"
                        | "abi"
                        | "storage"
                        | "configurable"
                        | "use"
                        | "const"
                        | "match"
                        | "if"
                        | "while"
                        | "for"
                        | "asm"
                        | "let"
                        | "else"
                        | "where"
                ) {
                    if t == "for" {
                        // `impl A for B {`: keep looking for the `impl`
                        let mut j = i;
                        let mut n = 0;
                        while j > 0 && n < 30 {
                            j -= 1;
                            if l.els[j].depth != d {
                                continue;
                            }
                            n += 1;
                            let tj = l.text(j);
                            if tj == ";" || tj == "}" {
                                break;
                            }
                            if l.els[j].k == K::Ident && tj == "impl" {
                                return format!("impl{delim}");
                            }
                        }
                    }
                    // `let x = S { .. }` is a struct literal, not a "let block"
                    if (t == "let" || t == "const") && delim == "{" {
                        return "expr{".into();
                    }
                    return format!("{t}{delim}");
                }
                if steps == 1 {
                    saw_ident_before = true;
                }
            }
            _ => {}
        }
    }
    if saw_ident_before {
        match delim.as_str() {
            "(" => "call(".into(),
            "{" => "lit{".into(),
            _ => "idx[".into(),
        }
    } else {
        delim
    }
}

/// Chain of enclosing constructs of element index `i` (outermost first), at most `max` innermost
/// entries plus the outermost (item-level) one.
pub fn context_chain(l: &Lexed, i: usize, max: usize) -> String {
    let mut stack: Vec<usize> = vec![];
    for (j, e) in l.els.iter().enumerate() {
        if j >= i {
            break;
        }
        match e.k {
            K::Open => stack.push(j),
            K::Close => {
                stack.pop();
            }
            _ => {}
        }
    }
    let mut names: Vec<String> = stack.iter().map(|&o| introducer(l, o)).collect();
    if names.is_empty() {
        // top level: name the item the position is in (keyword after the last `;`/`}` at depth 0)
        let mut j = i.min(l.els.len());
        let mut kw = String::from("top");
        while j > 0 {
            j -= 1;
            let e = &l.els[j];
            if e.depth != 0 {
                continue;
            }
            let t = l.text(j);
            if (e.k == K::Punct && t == ";") || (e.k == K::Close && t == "}") {
                break;
            }
            if e.k == K::Ident
                && matches!(
                    t,
                    "fn" | "struct" | "enum" | "impl" | "trait" | "abi" | "storage" | "configurable" | "use" | "const" | "mod" | "type"
                )
            {
                kw = format!("{t}-head");
            }
        }
        return kw;
    }
    if names.len() > max + 1 {
        let first = names[0].clone();
        let tail = names.split_off(names.len() - max);
        names = vec![first, "…".into()];
        names.extend(tail);
    }
    names.join(">")
}

/// index of the element containing byte offset `off`, or the next element after it
pub fn el_at(l: &Lexed, off: usize) -> usize {
    for (i, e) in l.els.iter().enumerate() {
        if e.end > off {
            return i;
        }
    }
    l.els.len()
}

pub fn abs_or(l: &Lexed, i: isize) -> String {
    if i < 0 {
        "^".into()
    } else if i as usize >= l.els.len() {
        "$".into()
    } else {
        abs_el(l, i as usize)
    }
}

pub fn count_by<T: Ord + Clone>(items: impl Iterator<Item = T>) -> BTreeMap<T, usize> {
    let mut m = BTreeMap::new();
    for i in items {
        *m.entry(i).or_insert(0) += 1;
    }
    m
}

// ---------------------------------------------------------------------------------------------
// Bounded-exhaustive item grammar

#[derive(Clone, Debug)]
pub struct GenSrc {
    /// family/index, e.g. `fnsig/17`
    pub name: String,
    pub text: String,
}

/// identifier scale: every `$`-marked identifier gets `k` extra characters
pub const SCALES: [usize; 3] = [0, 10, 26];

/// Replace every `$name` (name = [a-zA-Z0-9_]+) by name followed by `k` times 'x' (lower-case
/// names) or 'X' (upper-case initial), so that widths are scaled without changing the structure.
pub fn scale(template: &str, k: usize) -> String {
    let mut out = String::new();
    let b = template.as_bytes();
    let mut i = 0;
    while i < b.len() {
        if b[i] == b'$' {
            let mut j = i + 1;
            while j < b.len() && (b[j].is_ascii_alphanumeric() || b[j] == b'_') {
                j += 1;
            }
            let name = &template[i + 1..j];
            out.push_str(name);
            let upper = name.chars().next().map(|c| c.is_ascii_uppercase()).unwrap_or(false);
            for _ in 0..k {
                out.push(if upper { 'X' } else { 'x' });
            }
            i = j;
        } else {
            // template is ASCII
            out.push(b[i] as char);
            i += 1;
        }
    }
    out
}

pub const GENERICS: [(&str, &str); 4] = [
    ("", ""),
    ("<$T>", ""),
    ("<$T>", " where $T: $Tr"),
    ("<$T, $U>", " where $T: $Tr + $Tr2, $U: $Tr"),
];

pub const STMTS: [&str; 24] = [
    "let $x = $a;",
    "let mut $x: u64 = $a + $b * 2;",
    "$x = $foo($a, $b);",
    "$foo($a, $b).$bar().$baz($a);",
    "if $a == $b { $x = 1; } else { $x = 2; }",
    "while $a < $b { $a = $a + 1; }",
    "let $y = match $a { 0 => $b, 1 | 2 => { $a } _ => $a };",
    "let $s = $S { x: $a, y: $b };",
    "let $t = ($a, $b);",
    "let $arr = [$a, $b, $a];",
    "return $a;",
    "let $c = $a && $b || !$a;",
    "asm(r1: $a, r2) { add r2 r1 r1; r2: u64 };",
    "let $S { x, y } = $s;",
    "storage.$x.write($a);",
    "log($a.$b.$c[0].1);",
    "for $i in $v.iter() { $a = $i; }",
    "if let Some($x) = $a { $b } else { $a };",
    "let $c = $a.$foo() || $b.$bar() && $a.$baz();",
    "require($a == $b && $b == $c && $c == $a, \"msg\");",
    "let $r = match $s { $S { x: true, y: 0, z: (0, 0, 0) } => 1, _ => 0 };",
    "let $v = $Vec::<$T>::new();",
    "let $r = if $a { $b } else if $c { $a } else { 0 };",
    "let $z = ($a + $b) * ($c - 1) / 2 % 3 << 1;",
];

pub const FINALS: [&str; 3] = ["", "$a", "$a + $b"];

pub const USES: [&str; 13] = [
    "use $a;",
    "use $a::$b;",
    "use $a::*;",
    "use $a::$b as $c;",
    "use $a::{$b};",
    "use $a::{$b, $c};",
    "use $a::{$c, $b};",
    "use $a::{$b::{$d, $c}, $e};",
    "use $a::{self, $b};",
    "use ::$a::$b;",
    "pub use $a::$b;",
    "use $a::{$b as $c, $d::*};",
    "use $a::{$b,};",
];

pub const MISC: [&str; 12] = [
    "type $X = u64;",
    "mod $m;",
    "pub mod $m;",
    "#[test]\nfn $f() {}",
    "#[test(should_revert)]\nfn $f() {}",
    "#[cfg(experimental_new_encoding = true)]\nfn $f() {}",
    "/// doc\nfn $f() {}",
    "/// doc\n/// doc2\n#[inline(never)]\npub fn $f() {}",
    "#[storage(read, write)]\nfn $f() {}",
    "#[allow(dead_code)]\nconst $C: u64 = 1;",
    "type $X = ($A, [$B; 2]);",
    "#[test]\n#[inline(always)]\nfn $f() {}",
];

/// items used for the two-item files (spacing between items)
pub const PAIR_ITEMS: [&str; 10] = [
    "use a::b;",
    "const C: u64 = 1;",
    "fn f() {}",
    "struct S { a: u64 }",
    "enum E { A: () }",
    "impl S { fn f() {} }",
    "trait T { fn f(); }",
    "abi A { fn f(); }",
    "storage { a: u64 = 0 }",
    "configurable { A: u64 = 1 }",
];

pub const LADDERS: [&str; 16] = [
    "fn @(a: u64, b: u64) -> u64 { a }",
    "fn f() { let x = foo(@, b, c); }",
    "fn f() { let s = S { x: @, y: b }; }",
    "fn f() { let a = [@, b, c]; }",
    "fn f() { let x = a.@().bar().baz(); }",
    "fn f() { let x = if @ { a } else { b }; }",
    "use a::{@, b};",
    "struct S { @: u64, b: bool }",
    "const @: u64 = a + b;",
    "fn f() { let x = @ || b.foo() && c.bar(); }",
    "fn f<T>(a: T) where T: @ {}",
    "fn f() { match a { S { x: @, y: 0 } => 1, _ => 0 } }",
    "enum E { @: u64, B: () }",
    "#[storage(@, write)]\nfn f() {}",
    "impl @ for S {}",
    "fn f() { require(@ == b && b == c, \"m\"); }",
];
pub const LADDER_MAX: usize = 70;

fn closed_form_count() -> usize {
    let sc = SCALES.len();
    let fnsig = 2 * GENERICS.len() * 4 * 3 * 2 * sc;
    let n = STMTS.len();
    let fnbody = (1 + n) * FINALS.len() * sc + n * n * FINALS.len();
    let structs = 2 * GENERICS.len() * 4 * 2 * sc;
    let enums = structs;
    let impls = 4 * 5 * sc;
    let traits = 2 * 2 * 3 * 6 * 2 * sc;
    let abis = 2 * 4 * 2 * sc;
    let uses = USES.len() * sc;
    let consts = 2 * 2 * 6 * sc;
    let storage = 6 * 2 * sc;
    let configurable = 4 * 2 * sc;
    let misc = MISC.len() * sc;
    let pairs = PAIR_ITEMS.len() * PAIR_ITEMS.len() * 3;
    let ladders = LADDERS.len() * (LADDER_MAX + 1);
    fnsig + fnbody + structs + enums + impls + traits + abis + uses + consts + storage + configurable + misc + pairs + ladders
}

/// All sources of the item grammar. Returns (sources, closed-form count).
pub fn generated() -> (Vec<GenSrc>, usize) {
    let mut out: Vec<GenSrc> = vec![];
    let mut fam_n: BTreeMap<String, usize> = BTreeMap::new();
    let mut push = |fam: &str, header: &str, tpl: &str, k: usize| {
        let c = fam_n.entry(fam.to_string()).or_insert(0);
        let n = *c;
        *c += 1;
        out.push(GenSrc {
            name: format!("{fam}/{n}"),
            text: format!("{header}\n{}\n", scale(tpl, k)),
        });
    };
    let lib = "library;";
    let con = "contract;";
    // fn signatures
    for k in SCALES {
        for vis in ["", "pub "] {
            for (g, w) in GENERICS {
                for params in ["", "$a: u64", "$a: u64, $b: bool", "ref mut $a: u64, $b: (u64, bool), $c: [u8; 3]"] {
                    for ret in ["", " -> u64", " -> (u64, $Bool)"] {
                        for body in ["{}", "{ 1 }"] {
                            push("fnsig", lib, &format!("{vis}fn $f{g}({params}){ret}{w} {body}"), k);
                        }
                    }
                }
            }
        }
    }
    // fn bodies: statement lists of length <= 1 at every scale, length 2 at scale 0
    for k in SCALES {
        for fin in FINALS {
            push("fnbody", lib, &format!("fn f($a: u64, $b: u64) -> u64 {{ {fin} }}"), k);
            for s in STMTS {
                push("fnbody", lib, &format!("fn f($a: u64, $b: u64) -> u64 {{ {s} {fin} }}"), k);
            }
        }
    }
    for fin in FINALS {
        for s1 in STMTS {
            for s2 in STMTS {
                push("fnbody2", lib, &format!("fn f($a: u64, $b: u64) -> u64 {{ {s1} {s2} {fin} }}"), 0);
            }
        }
    }
    // struct / enum
    for k in SCALES {
        for vis in ["", "pub "] {
            for (g, w) in GENERICS {
                for fields in ["", "$a: u64", "$a: u64, pub $b: $Vec<$T>", "$a: u64, $bb: (u64, bool), $ccc: [u8; 3]"] {
                    for tc in ["", ","] {
                        let tc = if fields.is_empty() { "" } else { tc };
                        push("struct", lib, &format!("{vis}struct $S{g}{w} {{ {fields}{tc} }}"), k);
                    }
                }
            }
        }
    }
    for k in SCALES {
        for vis in ["", "pub "] {
            for (g, w) in GENERICS {
                for fields in ["", "$A: ()", "$A: u64, $B: $Vec<$T>", "$A: (), $Bb: (u64, bool), $Ccc: [u8; 3]"] {
                    for tc in ["", ","] {
                        let tc = if fields.is_empty() { "" } else { tc };
                        push("enum", lib, &format!("{vis}enum $E{g}{w} {{ {fields}{tc} }}"), k);
                    }
                }
            }
        }
    }
    // impl
    for k in SCALES {
        for head in ["impl $S", "impl<$T> $S<$T>", "impl $Tr for $S", "impl<$T> $Tr<$T> for $S<$T> where $T: $Tr2"] {
            for items in [
                "",
                "fn $f(self) -> u64 { 1 }",
                "const $C: u64 = 1; fn $f() {}",
                "fn $f(self) {} pub fn $g(ref mut self, $a: u64) { self.$a = $a; }",
                "type $X = u64; fn $f() -> Self::$X { 1 }",
            ] {
                push("impl", lib, &format!("{head} {{ {items} }}"), k);
            }
        }
    }
    // trait
    for k in SCALES {
        for vis in ["", "pub "] {
            for g in ["", "<$T>"] {
                for sup in ["", ": $A", ": $A + $B"] {
                    for items in [
                        "",
                        "fn $f(self);",
                        "fn $f(self) -> u64; fn $g();",
                        "type $X;",
                        "const $C: u64;",
                        "type $X; fn $f() -> Self::$X;",
                    ] {
                        for prov in ["", " { fn $h(self) {} }"] {
                            push("trait", lib, &format!("{vis}trait $Tr{g}{sup} {{ {items} }}{prov}"), k);
                        }
                    }
                }
            }
        }
    }
    // abi
    for k in SCALES {
        for sup in ["", ": $A"] {
            for items in [
                "",
                "fn $f($a: u64) -> u64;",
                "#[storage(read)] fn $f() -> u64; #[storage(read, write)] #[payable] fn $g($a: u64);",
                "/// doc\n fn $f();",
            ] {
                for prov in ["", " { fn $h() {} }"] {
                    push("abi", con, &format!("abi $Abi{sup} {{ {items} }}{prov}"), k);
                }
            }
        }
    }
    for k in SCALES {
        for u in USES {
            push("use", lib, u, k);
        }
    }
    for k in SCALES {
        for vis in ["", "pub "] {
            for ty in ["", ": u64"] {
                for val in ["1", "$a + $b", "$S { x: 1 }", "[1, 2, 3]", "\"str\"", "$foo($a, $b)"] {
                    push("const", lib, &format!("{vis}const $C{ty} = {val};"), k);
                }
            }
        }
    }
    for k in SCALES {
        for fields in [
            "",
            "$a: u64 = 0",
            "$a: u64 = 0, $bb: bool = false",
            "$ns { $a: u64 = 0 }",
            "$a in 0x0000000000000000000000000000000000000000000000000000000000000001: u64 = 0",
            "$a: $S = $S { x: 1, y: 2 }, $m: StorageMap<u64, bool> = StorageMap {}",
        ] {
            for tc in ["", ","] {
                let tc = if fields.is_empty() { "" } else { tc };
                push("storage", con, &format!("storage {{ {fields}{tc} }}"), k);
            }
        }
    }
    for k in SCALES {
        for fields in ["", "$A: u64 = 1", "$A: u64 = 1, $Bb: bool = true", "$A: $S = $S { x: 1, y: 2 }"] {
            for tc in ["", ","] {
                let tc = if fields.is_empty() { "" } else { tc };
                push("configurable", con, &format!("configurable {{ {fields}{tc} }}"), k);
            }
        }
    }
    for k in SCALES {
        for m in MISC {
            push("misc", lib, m, k);
        }
    }
    for a in PAIR_ITEMS {
        for b in PAIR_ITEMS {
            for sep in ["\n", "\n\n", "\n\n\n"] {
                push("pair", con, &format!("{a}{sep}{b}"), 0);
            }
        }
    }
    for l in LADDERS {
        for k in 0..=LADDER_MAX {
            let name = if l.starts_with("impl") || l.starts_with("fn f<T>") || l.starts_with("enum") {
                format!("A{}", "b".repeat(k))
            } else {
                format!("a{}", "b".repeat(k))
            };
            push("ladder", lib, &l.replace('@', &name), 0);
        }
    }
    let n = closed_form_count();
    (out, n)
}

// ---------------------------------------------------------------------------------------------
// C19 comparator: token sequences modulo whitespace and the documented cosmetic rewrites

#[derive(Clone, Debug)]
pub enum Node {
    Tok {
        k: K,
        text: String,
        /// index into `Lexed::els`
        idx: usize,
        joint: bool,
    },
    Group {
        open: char,
        items: Vec<Node>,
        idx_open: usize,
        idx_close: usize,
    },
}

impl Node {
    fn is_punct(&self, p: &str) -> bool {
        matches!(self, Node::Tok { k: K::Punct, text, .. } if text.trim_end_matches('~') == p)
    }
    fn is_ident(&self, p: &str) -> bool {
        matches!(self, Node::Tok { k: K::Ident, text, .. } if text == p)
    }
    fn is_group(&self, c: char) -> bool {
        matches!(self, Node::Group { open, .. } if *open == c)
    }
    fn first_idx(&self) -> usize {
        match self {
            Node::Tok { idx, .. } => *idx,
            Node::Group { idx_open, .. } => *idx_open,
        }
    }
}

/// Token tree of the non-comment elements.
pub fn tree(l: &Lexed) -> Vec<Node> {
    fn go(l: &Lexed, i: &mut usize) -> Vec<Node> {
        let mut v = vec![];
        while *i < l.els.len() {
            let e = &l.els[*i];
            match e.k {
                K::Comment => {
                    *i += 1;
                }
                K::Open => {
                    let io = *i;
                    *i += 1;
                    let items = go(l, i);
                    let ic = (*i).min(l.els.len() - 1);
                    *i += 1;
                    v.push(Node::Group {
                        open: l.text(io).chars().next().unwrap(),
                        items,
                        idx_open: io,
                        idx_close: ic,
                    });
                }
                K::Close => return v,
                _ => {
                    v.push(Node::Tok {
                        k: e.k,
                        text: l.text(*i).to_string(),
                        idx: *i,
                        joint: e.joint,
                    });
                    *i += 1;
                }
            }
        }
        v
    }
    let mut i = 0;
    go(l, &mut i)
}

/// A token of the normalised sequence; `idx` points back into `Lexed::els`.
#[derive(Clone, Debug)]
pub struct NTok {
    pub text: String,
    pub idx: usize,
}

/// Two-punct operators whose meaning differs from the two puncts written apart. `>` `>` is left
/// out on purpose (closing two generic argument lists: `Vec<Vec<u8> >` == `Vec<Vec<u8>>`), and so
/// is `>` `=` (`x: Map<u64, bool>= …` is accepted by the parser as `>` followed by `=`).
const COMPOUNDS: &[(&str, &str)] = &[
    (":", ":"), ("-", ">"), ("=", ">"), ("=", "="), ("!", "="), ("<", "="), ("&", "&"), ("|", "|"),
    ("<", "<"), ("+", "="), ("-", "="), ("*", "="), ("/", "="), (".", "."),
];

fn top_level_commas(items: &[Node]) -> usize {
    items.iter().filter(|n| n.is_punct(",")).count()
}

/// commas outside `<…>` (for types: `(Foo<u64, u64>)` is a parenthesised single type)
fn commas_outside_angles(items: &[Node]) -> usize {
    let mut depth = 0i32;
    let mut c = 0;
    for n in items {
        if n.is_punct("<") {
            depth += 1;
        } else if n.is_punct(">") {
            depth -= 1;
        } else if n.is_punct(",") && depth <= 0 {
            c += 1;
        }
    }
    c
}

/// Is the paren group at `items[i]` an argument / parameter list (then a trailing comma is always
/// cosmetic) rather than a tuple (where `(a,)` differs from `(a)`)?
fn is_arg_list(items: &[Node], i: usize) -> bool {
    if i == 0 {
        return false;
    }
    match &items[i - 1] {
        Node::Tok { k: K::Ident, text, .. } => !matches!(
            text.as_str(),
            "return" | "in" | "let" | "match" | "if" | "while" | "else" | "mut" | "ref" | "as" | "for" | "break" | "continue" | "where"
        ),
        // generic call `f::<T>(a)`, but not `-> (a,)`
        p if p.is_punct(">") => !(i >= 2 && items[i - 2].is_punct("-")),
        Node::Group { .. } => true, // `f(a)(b)`, `a[0](b)`
        _ => false,
    }
}

/// N4 helper: tokens that may appear in a type
fn type_like(items: &[Node]) -> bool {
    let mut angle: i32 = 0;
    for n in items {
        match n {
            Node::Tok { k: K::Ident, .. } => {}
            Node::Tok { k: K::Punct, text, .. } => match text.as_str() {
                ":" | "&" | "," | "_" => {}
                "<" => angle += 1,
                ">" => {
                    angle -= 1;
                    if angle < 0 {
                        return false;
                    }
                }
                _ => return false,
            },
            Node::Tok { .. } => return false,
            Node::Group { open: '(', items, .. } => {
                if !type_like(items) {
                    return false;
                }
            }
            Node::Group { open: '[', items, .. } => {
                // [T; n] or [T]
                let t: Vec<Node> = items.iter().take_while(|n| !n.is_punct(";")).cloned().collect();
                if !type_like(&t) {
                    return false;
                }
            }
            Node::Group { .. } => return false,
        }
    }
    angle == 0
}

fn emit(n: &Node, out: &mut Vec<NTok>) {
    emit2(n, false, out)
}

fn emit2(n: &Node, arg_list: bool, out: &mut Vec<NTok>) {
    match n {
        Node::Tok { text, idx, .. } => out.push(NTok {
            text: text.clone(),
            idx: *idx,
        }),
        Node::Group { open, items, idx_open, idx_close } => {
            out.push(NTok {
                text: open.to_string(),
                idx: *idx_open,
            });
            norm_stream(items, Some(*open), arg_list, out);
            let close = match open {
                '(' => ")",
                '[' => "]",
                _ => "}",
            };
            out.push(NTok {
                text: close.to_string(),
                idx: *idx_close,
            });
        }
    }
}

/// Render one `use` tree element list (the contents of a `{…}` group inside a `use`) in canonical
/// form: elements sorted, single-element groups unbraced.
fn norm_use_group(items: &[Node], out: &mut Vec<NTok>) {
    // split at top-level commas
    let mut elems: Vec<Vec<NTok>> = vec![];
    let mut cur: Vec<NTok> = vec![];
    for n in items {
        if n.is_punct(",") {
            if !cur.is_empty() {
                elems.push(std::mem::take(&mut cur));
            }
            continue;
        }
        norm_use_node(n, &mut cur);
    }
    if !cur.is_empty() {
        elems.push(cur);
    }
    elems.sort_by_key(|e| e.iter().map(|t| t.text.clone()).collect::<Vec<_>>().join(" "));
    let idx0 = items.first().map(|n| n.first_idx()).unwrap_or(0);
    if elems.len() == 1 {
        // N3b: `use a::{b};` == `use a::b;` (swayfmt test item_use::single_import_without_braces)
        out.extend(elems.pop().unwrap());
        return;
    }
    out.push(NTok { text: "{".into(), idx: idx0 });
    let n = elems.len();
    for (i, e) in elems.into_iter().enumerate() {
        out.extend(e);
        if i + 1 < n {
            out.push(NTok { text: ",".into(), idx: idx0 });
        }
    }
    out.push(NTok { text: "}".into(), idx: idx0 });
}

fn norm_use_node(n: &Node, out: &mut Vec<NTok>) {
    match n {
        Node::Group { open: '{', items, .. } => norm_use_group(items, out),
        _ => emit(n, out),
    }
}

/// Normalise one token stream (the contents of a group, or the top level).
///
/// Rules (each is a documented cosmetic rewrite of swayfmt, applied to BOTH sides):
/// * N1 trailing comma before a closing delimiter is dropped — except the comma of a 1-tuple
///   `(a,)` (argument / parameter lists are recognised by the token before the `(`). Documented by
///   swayfmt tests: items/item_use/tests.rs `multiline_with_trailing_comma`,
///   `single_line_sort_with_trailing_comma` (added when multi-line, removed when single-line);
///   items/item_struct/tests.rs `struct_with_where_clause` and tests/mod.rs (`struct_...` cases:
///   last field gets a comma); utils/language/expr/tests.rs `multiline_tuple` (multi-line
///   collections end with a comma).
/// * N2 a comma after the last `where` bound (before the `{` body or `;`): swayfmt
///   utils/language/where_clause.rs writes `bound,\n` for every bound including
///   `final_value_opt`; documented by items/item_struct/tests.rs `struct_with_where_clause`.
/// * N3 inside a `use` statement: order of the elements of a `{…}` group (items/item_use/tests.rs
///   `single_line_sort`, `multiline` with the `out_of_order` input) and braces of a single-element
///   group (`single_import_without_braces`, `single_import_multiline_with_braces`).
/// * N4 parentheses around a single type: the parser itself drops them (sway-parse/src/ty/mod.rs:
///   "only patterns of (ty) are parsed as ty"), so the formatter cannot print them. Only applied
///   to a paren group without top-level comma whose content looks like a type (identifiers, paths,
///   balanced `<…>`, nested tuple/array types) and that stands in a type position (after `->`, `:`,
///   `<`, `,`, `as`, `for`, `type X =`; before `,`, `>`, `{`, `;`, `=`, `where`, `for` or the end).
fn norm_stream(items: &[Node], enclosing: Option<char>, arg_list: bool, out: &mut Vec<NTok>) {
    let n = items.len();
    let mut in_where = false;
    let mut in_use = false;
    let mut i = 0;
    while i < n {
        let it = &items[i];
        // N3
        if it.is_ident("use") {
            in_use = true;
        }
        if it.is_punct(";") {
            in_use = false;
        }
        if in_use && it.is_group('{') {
            norm_use_node(it, out);
            i += 1;
            continue;
        }
        // N2
        if it.is_ident("where") {
            in_where = true;
        }
        if it.is_punct(",") {
            let last = i + 1 == n;
            // N1
            if last && enclosing.is_some() {
                let one_tuple = enclosing == Some('(') && !arg_list && top_level_commas(items) == 1;
                if !one_tuple {
                    i += 1;
                    continue;
                }
            }
            // N2
            if in_where && i + 1 < n && (items[i + 1].is_group('{') || items[i + 1].is_punct(";")) {
                i += 1;
                continue;
            }
        }
        if it.is_group('{') || it.is_punct(";") {
            in_where = false;
        }
        // N4
        if let Node::Group { open: '(', items: inner, .. } = it {
            let prev_ok = if i == 0 {
                matches!(enclosing, Some('(') | Some('['))
            } else {
                let p = &items[i - 1];
                p.is_punct(">") && i >= 2 && items[i - 2].is_punct("-")
                    || (p.is_punct(":") && !(i >= 2 && items[i - 2].is_punct(":")))
                    || p.is_punct("<")
                    || p.is_punct(",")
                    || p.is_punct("=") && i >= 3 && items[..i - 1].iter().rev().take(8).any(|x| x.is_ident("type"))
                    || p.is_ident("as")
                    || p.is_ident("for")
            };
            let next_ok = if i + 1 == n {
                true
            } else {
                let q = &items[i + 1];
                q.is_punct(",") || q.is_punct(">") || q.is_group('{') || q.is_punct(";") || q.is_punct("=") || q.is_ident("where") || q.is_ident("for")
            };
            let single = commas_outside_angles(inner) == 0 && !inner.is_empty();
            if prev_ok && next_ok && single && type_like(inner) {
                norm_stream(inner, None, false, out);
                i += 1;
                continue;
            }
        }
        if let Node::Tok { k: K::Doc, text, idx, .. } = it {
            out.push(NTok { text: text.trim_end().to_string(), idx: *idx });
            i += 1;
            continue;
        }
        emit2(it, it.is_group('(') && is_arg_list(items, i), out);
        i += 1;
    }
}

/// mark a punct that is glued to the next punct and forms a two-punct operator with it (`:~ :`)
fn mark_compounds(items: &mut [Node]) {
    let n = items.len();
    for i in 0..n {
        let glue = match (&items[i], items.get(i + 1)) {
            (Node::Tok { k: K::Punct, text, joint: true, .. }, Some(Node::Tok { k: K::Punct, text: t2, .. })) => {
                COMPOUNDS.contains(&(text.as_str(), t2.as_str()))
            }
            _ => false,
        };
        match &mut items[i] {
            Node::Tok { text, .. } if glue => text.push('~'),
            Node::Group { items, .. } => mark_compounds(items),
            _ => {}
        }
    }
}

pub fn normalised(l: &Lexed) -> Vec<NTok> {
    let mut t = tree(l);
    mark_compounds(&mut t);
    let mut out = vec![];
    norm_stream(&t, None, false, &mut out);
    out
}

/// One differing hunk between the normalised input tokens and the normalised output tokens.
#[derive(Clone, Debug)]
pub struct TokDiff {
    /// index of the first differing token in the normalised input sequence
    pub at: usize,
    pub removed: Vec<NTok>,
    pub added: Vec<NTok>,
}

/// Greedy hunk diff: at a mismatch, find the nearest re-synchronisation point (smallest di+dj such
/// that 3 consecutive tokens agree again, or both sequences end) and report the skipped tokens as
/// one hunk. Exact enough for classification; `None`-free: an empty result means "equal".
pub fn token_hunks(x: &[NTok], a: &[NTok]) -> Vec<TokDiff> {
    const ANCHOR: usize = 3;
    const MAXD: usize = 400;
    let agree = |i: usize, j: usize| -> bool {
        // ANCHOR tokens agree from (i, j), or both sequences end together within the anchor
        let mut k = 0;
        while k < ANCHOR {
            match (x.get(i + k), a.get(j + k)) {
                (Some(p), Some(q)) if p.text == q.text => k += 1,
                (None, None) => return true,
                _ => return false,
            }
        }
        true
    };
    let mut out = vec![];
    let (mut i, mut j) = (0, 0);
    loop {
        while i < x.len() && j < a.len() && x[i].text == a[j].text {
            i += 1;
            j += 1;
        }
        if i >= x.len() && j >= a.len() {
            break;
        }
        let mut found = None;
        'search: for d in 1..=MAXD {
            for di in 0..=d {
                let dj = d - di;
                if i + di > x.len() || j + dj > a.len() {
                    continue;
                }
                if agree(i + di, j + dj) {
                    found = Some((di, dj));
                    break 'search;
                }
            }
        }
        let (di, dj) = found.unwrap_or((x.len() - i, a.len() - j));
        out.push(TokDiff {
            at: i,
            removed: x[i..i + di].to_vec(),
            added: a[j..j + dj].to_vec(),
        });
        i += di;
        j += dj;
        if found.is_none() {
            break;
        }
    }
    out
}

/// abstract a token list: keywords/puncts verbatim, identifiers `id`, literals by kind, an
/// attribute `# [ … ]` collapsed to `#[…]`; at most `max` entries
fn abs_list(l: &Lexed, toks: &[NTok], max: usize) -> String {
    let mut v: Vec<String> = vec![];
    let mut i = 0;
    while i < toks.len() && v.len() < max {
        let t = &toks[i];
        if t.text == "#" && toks.get(i + 1).map(|t| t.text == "[").unwrap_or(false) {
            // skip to the matching `]`
            let mut depth = 0;
            let mut j = i + 1;
            while j < toks.len() {
                if toks[j].text == "[" {
                    depth += 1;
                } else if toks[j].text == "]" {
                    depth -= 1;
                    if depth == 0 {
                        break;
                    }
                }
                j += 1;
            }
            v.push("#[…]".into());
            i = j + 1;
            continue;
        }
        let own = l.els.get(t.idx).map(|e| &l.src[e.start..e.end] == t.text || e.k == K::Doc).unwrap_or(false);
        v.push(if own { abs_el(l, t.idx) } else { t.text.clone() });
        i += 1;
    }
    if i < toks.len() {
        v.push("…".into());
    }
    // collapse runs of the same abstract token (`#[…] #[…] ///` == `#[…]+ ///`)
    let mut w: Vec<String> = vec![];
    for t in v {
        match w.last_mut() {
            Some(last) if last.trim_end_matches('+') == t => {
                if !last.ends_with('+') {
                    last.push('+');
                }
            }
            _ => w.push(t),
        }
    }
    w.join(" ")
}

/// class key for one token hunk: (construct at the hunk in the input, abstracted removed tokens,
/// abstracted added tokens)
pub fn classify_token_hunk(x: &Lexed, a: &Lexed, nx: &[NTok], d: &TokDiff) -> String {
    let pos = if d.at < nx.len() { nx[d.at].idx } else { x.els.len() };
    let ctx = context_chain(x, pos, 1);
    // token split by a misplaced newline: one input token == two output tokens glued; a doc comment
    // `///…` cut after its first `/`; a two-punct operator pulled apart (`:~` vs `:`)
    if let (Some(r), true) = (d.removed.first(), d.added.len() >= 2) {
        let glued = format!("{}{}", d.added[0].text.trim_end_matches('~'), d.added[1].text.trim_end_matches('~'));
        if r.text.trim_end_matches('~') == glued && x.els[r.idx].k != K::Punct {
            return "token-split-by-inserted-whitespace".to_string();
        }
    }
    if let (Some(r), Some(g)) = (d.removed.first(), d.added.first()) {
        if x.els[r.idx].k == K::Doc && g.text == "/" {
            return "token-split-by-inserted-whitespace".to_string();
        }
        if d.removed.len() == 1 && d.added.len() == 1 && r.text.ends_with('~') && r.text.trim_end_matches('~') == g.text {
            return "token-split-by-inserted-whitespace".to_string();
        }
    }
    // literal rewritten
    if d.removed.len() == 1 && d.added.len() == 1 && x.els[d.removed[0].idx].k == K::Lit && a.els[d.added[0].idx].k == K::Lit {
        let (r, g) = (&d.removed[0].text, &d.added[0].text);
        let shape = if r.contains('\\') && !g.contains('\\') {
            "escape-sequence-replaced-by-raw-char"
        } else if r.to_lowercase() == g.to_lowercase() {
            "case-changed"
        } else {
            "text-changed"
        };
        return format!("literal-rewritten|{}|{shape}", abs_el(x, d.removed[0].idx));
    }
    format!("{ctx}|-[{}]|+[{}]", abs_list(x, &d.removed, 3), abs_list(a, &d.added, 3))
}

/// Difference of two ordered comment lists: (lost, gained) as indices into x / a comment lists,
/// computed by a longest-common-subsequence alignment. Both empty + lists different cannot happen.
pub fn comment_diff(x: &[String], a: &[String]) -> (Vec<usize>, Vec<usize>) {
    let (n, m) = (x.len(), a.len());
    let mut t = vec![vec![0u32; m + 1]; n + 1];
    for i in (0..n).rev() {
        for j in (0..m).rev() {
            t[i][j] = if x[i] == a[j] { t[i + 1][j + 1] + 1 } else { t[i + 1][j].max(t[i][j + 1]) };
        }
    }
    let (mut i, mut j) = (0, 0);
    let (mut lost, mut gained) = (vec![], vec![]);
    while i < n && j < m {
        if x[i] == a[j] {
            i += 1;
            j += 1;
        } else if t[i + 1][j] >= t[i][j + 1] {
            lost.push(i);
            i += 1;
        } else {
            gained.push(j);
            j += 1;
        }
    }
    lost.extend(i..n);
    gained.extend(j..m);
    (lost, gained)
}

/// indices (into els) of the comment elements
pub fn comment_idxs(l: &Lexed) -> Vec<usize> {
    (0..l.els.len()).filter(|&i| l.els[i].k == K::Comment).collect()
}

/// prev/next non-comment neighbours of element i, abstracted
pub fn neighbours(l: &Lexed, i: usize) -> (String, String) {
    let mut p = i as isize - 1;
    while p >= 0 && l.els[p as usize].k == K::Comment {
        p -= 1;
    }
    let mut q = i + 1;
    while q < l.els.len() && l.els[q].k == K::Comment {
        q += 1;
    }
    (abs_or(l, p), abs_or(l, q as isize))
}

// ---------------------------------------------------------------------------------------------
// C18 classifier: what differs between pass 1 and pass 2

fn ws_class(w: &str) -> String {
    let nl = w.matches('\n').count();
    if nl == 0 {
        if w.is_empty() {
            "0".into()
        } else if w.contains('\t') {
            "t".into()
        } else if w.len() == 1 {
            "s".into()
        } else {
            "ss".into()
        }
    } else if nl == 1 {
        "n".into()
    } else {
        "nn".into()
    }
}

const BINOPS: &[&str] = &["&", "|", "=", "+", "-", "*", "/", "%", "<", ">", "^", "!"];

/// Texts of the gaps of a lexed text (n+1 gaps for n elements).
fn gaps(l: &Lexed) -> Vec<&str> {
    (0..n_gaps(l))
        .map(|g| {
            let (s, e) = gap_bounds(l, g);
            &l.src[s..e]
        })
        .collect()
}

/// Class keys for a pass-1 text `a` and a different pass-2 text `b`.
pub fn classify_nonidempotent(x: &str, a: &str, b: &str, aligned: bool) -> Vec<String> {
    let (Some(la), Some(lb)) = (lex(a), lex(b)) else {
        return vec!["nonidempotent|pass-output-unlexable".into()];
    };
    if la.sig() != lb.sig() {
        // tokens or comments changed between the passes
        let (na, nb) = (normalised(&la), normalised(&lb));
        let mut keys: Vec<String> = token_hunks(&na, &nb)
            .iter()
            .map(|d| format!("nonidempotent|tokens-changed-on-pass2|{}", classify_token_hunk(&la, &lb, &na, d)))
            .collect();
        let (ca, cb) = (la.comments(), lb.comments());
        if token_hunks(&na, &nb).iter().any(|d| {
            d.removed.len() == 1
                && d.added.len() == 1
                && la.els[d.removed[0].idx].k == K::Doc
                && lb.els[d.added[0].idx].k == K::Doc
                && d.added[0].text.starts_with(d.removed[0].text.as_str())
        }) {
            return vec!["nonidempotent|block-comment-appended-to-preceding-line-comment-on-pass2|doc-comment".into()];
        }
        if ca != cb {
            let (lost, gained) = comment_diff(&ca, &cb);
            if swallowed_by_line_comment(&ca, &cb, &lost, &gained) {
                return vec!["nonidempotent|block-comment-appended-to-preceding-line-comment-on-pass2".into()];
            }
            let ci = comment_idxs(&la);
            let cj = comment_idxs(&lb);
            for i in lost {
                keys.push(format!("nonidempotent|comment-lost-on-pass2|{}", comment_slot(&la, ci[i])));
            }
            for j in gained {
                keys.push(format!("nonidempotent|comment-gained-on-pass2|{}", comment_slot(&lb, cj[j])));
            }
        }
        if keys.is_empty() {
            let raw = |l: &Lexed| -> Vec<NTok> {
                (0..l.els.len())
                    .filter(|&i| l.els[i].k != K::Comment)
                    .map(|i| NTok { text: l.text(i).to_string(), idx: i })
                    .collect()
            };
            let (ra, rb) = (raw(&la), raw(&lb));
            let hs = token_hunks(&ra, &rb);
            if let Some(d) = hs.first() {
                // same after normalisation: a cosmetic token (trailing comma, braces) toggles between passes
                let pos = if d.at < ra.len() { ra[d.at].idx } else { la.els.len().saturating_sub(1) };
                keys.push(format!(
                    "nonidempotent|cosmetic-token-toggles|{}|-[{}]|+[{}]",
                    innermost(&la, pos),
                    abs_list(&la, &d.removed, 3),
                    abs_list(&lb, &d.added, 3)
                ));
            } else {
                // same tokens, same comments: a comment changes place relative to the tokens
                let (sa, sb) = (la.sig(), lb.sig());
                let first = sa.iter().zip(sb.iter()).position(|(p, q)| p != q).unwrap_or(0);
                let (ea, eb) = (&la.els[first.min(la.els.len() - 1)], &lb.els[first.min(lb.els.len() - 1)]);
                let crossed = if ea.k == K::Comment { abs_el(&lb, first) } else { abs_el(&la, first) };
                let dir = if ea.k == K::Comment { "later" } else if eb.k == K::Comment { "earlier" } else { "?" };
                keys.push(format!("nonidempotent|comment-moves-across-token-on-pass2|{dir}|across {crossed}"));
            }
        }
        keys.sort();
        keys.dedup();
        return keys;
    }
    // same elements: only whitespace differs. Group the differing gaps into hunks.
    let (ga, gb) = (gaps(&la), gaps(&lb));
    let diff: Vec<usize> = (0..ga.len()).filter(|&g| ga[g] != gb[g]).collect();
    // (a) a newline that pass 1 put in the middle of a line (no indentation after it) and pass 2
    // removes again: `handle_newlines` inserted a newline sequence at a drifted offset. Everything
    // else that differs in such a case is a consequence of the same drift, so the case gets one key,
    // built from the trigger (what made the unformatted and formatted leaf spans disagree).
    // The same mechanism can also drop a blank line at a place where the next pass does not record
    // one (not after `;` / `}`): pass 1 has a blank line that pass 2 removes.
    let is_c = |l: &Lexed, i: isize| i >= 0 && (i as usize) < l.els.len() && l.els[i as usize].k == K::Comment;
    let stray = diff.iter().find(|&&g| is_stray_newline(&la, g, ga[g]) && !gb[g].contains('\n')).copied();
    let blank = diff
        .iter()
        .find(|&&g| ws_class(ga[g]) == "nn" && ws_class(gb[g]) != "nn" && !is_c(&la, g as isize) && !is_c(&la, g as isize - 1))
        .copied();
    if let Some(g) = stray.or(blank) {
        let trig = drift_trigger(x, a, aligned);
        let at = if trig == "none" {
            format!(
                "|{}|{}^{}|{}",
                innermost(&la, g.min(la.els.len().saturating_sub(1))),
                abs_or(&la, g as isize - 1),
                abs_or(&la, g as isize),
                if stray.is_some() { "mid-line" } else { "blank-line" }
            )
        } else {
            String::new()
        };
        return vec![format!("nonidempotent|misplaced-newline-sequence|trigger={trig}{at}")];
    }
    let mut keys = vec![];
    let mut last: Option<usize> = None;
    for &g in &diff {
        let new_hunk = match last {
            None => true,
            Some(p) => g - p > 8,
        };
        last = Some(g);
        if !new_hunk {
            continue;
        }
        keys.push(format!("nonidempotent|{}", ws_hunk_key(&la, g, ga[g], gb[g])));
    }
    keys.sort();
    keys.dedup();
    keys
}

/// pass-1 gap `w` before element `g` holds a newline that is not followed by a plausible
/// indentation: exactly one space, or nothing although the next element is nested and is not a
/// closing delimiter; at top level: nothing although the previous element does not end an item
fn is_stray_newline(l: &Lexed, g: usize, w: &str) -> bool {
    if !w.contains('\n') || g == 0 || g >= l.els.len() {
        return false;
    }
    let indent = w.rsplit('\n').next().unwrap_or("");
    if indent == " " {
        return true;
    }
    if !indent.is_empty() {
        return false;
    }
    let next = &l.els[g];
    let prev = &l.els[g - 1];
    if next.k == K::Comment || prev.k == K::Comment || prev.k == K::Doc {
        return false;
    }
    if next.depth > 0 {
        return next.k != K::Close;
    }
    // top level: a newline is expected after `;`, `}` and `]` (attributes)
    let pt = l.text(g - 1);
    !(pt == ";" || pt == "}" || pt == "]")
}

/// What made the leaf spans of input and pass-1 output disagree: the first raw token hunk that is
/// not itself a token split; `comment` when tokens agree and the input has comments; else `none`.
fn drift_trigger(x: &str, a: &str, aligned: bool) -> String {
    let (Some(lx), Some(la)) = (lex(x), lex(a)) else { return "unlexable".into() };
    {
        let (cx, ca) = (lx.comments(), la.comments());
        if cx != ca {
            let (lost, gained) = comment_diff(&cx, &ca);
            if swallowed_by_line_comment(&cx, &ca, &lost, &gained) {
                return "block-comment-appended-to-preceding-line-comment".into();
            }
        }
    }
    let raw = |l: &Lexed| -> Vec<NTok> {
        (0..l.els.len())
            .filter(|&i| l.els[i].k != K::Comment)
            .map(|i| NTok { text: l.text(i).to_string(), idx: i })
            .collect()
    };
    let (rx, ra) = (raw(&lx), raw(&la));
    for d in token_hunks(&rx, &ra) {
        if let (Some(r), true) = (d.removed.first(), d.added.len() >= 2) {
            if r.text == format!("{}{}", d.added[0].text, d.added[1].text) {
                continue;
            }
        }
        if let (Some(r), Some(g)) = (d.removed.first(), d.added.first()) {
            if lx.els[r.idx].k == K::Doc && g.text == "/" {
                continue;
            }
        }
        let pos = if d.at < rx.len() { rx[d.at].idx } else { lx.els.len().saturating_sub(1) };
        let (r, g) = (abs_list(&lx, &d.removed, 3), abs_list(&la, &d.added, 3));
        let ctx = innermost(&lx, pos);
        if aligned && matches!(ctx.as_str(), "struct{" | "enum{" | "storage{" | "configurable{" | "struct-head" | "enum-head") {
            return "field-alignment-on".into();
        }
        if r.is_empty() && g == "," {
            return "trailing-comma-added".into();
        }
        if lx.els[d.removed.first().map(|t| t.idx).unwrap_or(0)].k == K::Doc && d.removed.len() == 1 && d.added.len() == 1 {
            return "block-comment-appended-to-preceding-line-comment|doc-comment".into();
        }
        if r == "," && g.is_empty() {
            return "trailing-comma-removed".into();
        }
        if ctx == "use-head" && r.starts_with('{') {
            return "single-import-braces-removed".into();
        }
        return format!("{ctx}:-[{r}]+[{g}]");
    }
    if lx.els.iter().any(|e| e.k == K::Comment) {
        "comment".into()
    } else {
        "none".into()
    }
}

/// innermost enclosing construct of element i
pub fn innermost(l: &Lexed, i: usize) -> String {
    let c = context_chain(l, i, 1);
    c.rsplit('>').next().unwrap_or("top").to_string()
}

/// key of a whitespace hunk whose first differing gap is `g` (gap before element g)
fn ws_hunk_key(l: &Lexed, g: usize, wa: &str, wb: &str) -> String {
    let prev = abs_or(l, g as isize - 1);
    let next = abs_or(l, g as isize);
    let (ca, cb) = (ws_class(wa), ws_class(wb));
    let shape = if ca == cb && ca.starts_with('n') {
        let ia = wa.rsplit('\n').next().unwrap_or("").len();
        let ib = wb.rsplit('\n').next().unwrap_or("").len();
        format!("{ca}→{cb}:indent{}", if ib > ia { "+" } else { "-" })
    } else if ca == cb {
        format!("{ca}→{cb}:{}", if wb.len() > wa.len() { "wider" } else { "narrower" })
    } else {
        format!("{ca}→{cb}")
    };
    // (b) hunks at a comment: the comment machinery (write_comments / rewrite_with_comments /
    // insert_after_span) is generic over constructs, so the key is (side, comment kind, shape)
    let is_c = |i: isize| i >= 0 && (i as usize) < l.els.len() && l.els[i as usize].k == K::Comment;
    if is_c(g as isize) {
        return format!("comment-spacing|before {next}|{shape}");
    }
    if is_c(g as isize - 1) {
        return format!("comment-spacing|after {prev}|{shape}");
    }
    let mut construct = innermost(l, g.min(l.els.len().saturating_sub(1)));
    // a line break next to a binary operator: the construct is the operator chain itself
    let is_op = |i: isize| -> bool {
        i >= 0 && (i as usize) < l.els.len() && l.els[i as usize].k == K::Punct && BINOPS.contains(&l.text(i as usize))
    };
    if (is_op(g as isize) || is_op(g as isize - 1)) && (wa.contains('\n') || wb.contains('\n')) {
        // operand shape: is the operand before the operator a method chain broken over lines?
        let before = &l.src[..gap_bounds(l, g).0];
        let line = before.lines().last().unwrap_or("").trim_start();
        construct = if line.starts_with('.') { "binop-chain-with-method-chain-operands".into() } else { "binop-chain".into() };
    }
    // a comment close by (within 2 elements) is part of the input predicate
    let near = (g as isize - 3..=g as isize + 2).any(is_c);
    format!("{construct}{}|{prev}^{next}|{shape}", if near { "+comment-nearby" } else { "" })
}

// ---------------------------------------------------------------------------------------------
// Syntactic slot of a comment (input predicate of the comment classes)

fn chain_vec(l: &Lexed, i: usize) -> Vec<String> {
    let mut stack: Vec<usize> = vec![];
    for (j, e) in l.els.iter().enumerate() {
        if j >= i {
            break;
        }
        match e.k {
            K::Open => stack.push(j),
            K::Close => {
                stack.pop();
            }
            _ => {}
        }
    }
    stack.iter().map(|&o| introducer(l, o)).collect()
}

/// keyword of the top-level item that contains element i (`fn`, `use`, `mod`, …) or "" when i is
/// after the last item. The item starts after the previous `;` / `}` at depth 0 and its keyword is
/// the first item keyword from there (so `pub /* c */ use a;` belongs to the `use` item).
fn top_item_keyword(l: &Lexed, i: usize) -> String {
    let mut start = 0;
    let upto = i.min(l.els.len());
    for j in 0..upto {
        let e = &l.els[j];
        if e.depth != 0 || e.k == K::Comment {
            continue;
        }
        let t = l.text(j);
        if (e.k == K::Punct && t == ";") || (e.k == K::Close && t == "}") {
            start = j + 1;
        }
    }
    for j in start..l.els.len() {
        let e = &l.els[j];
        if e.depth != 0 {
            continue;
        }
        let t = l.text(j);
        if e.k == K::Ident
            && matches!(
                t,
                "fn" | "struct" | "enum" | "impl" | "trait" | "abi" | "storage" | "configurable" | "use" | "const" | "mod" | "type"
                    | "library" | "script" | "contract" | "predicate"
            )
        {
            return t.to_string();
        }
        if (e.k == K::Punct && t == ";") || (e.k == K::Close && t == "}") {
            break;
        }
    }
    String::new()
}

/// Name the syntactic slot a comment (element `ci` of `l`) sits in. Named slots correspond to the
/// places where swayfmt has no comment handling (nodes formatted as one leaf span, items without
/// `rewrite_with_comments`); anything else falls back to `<construct>|<prev>^<next>`.
pub fn comment_slot(l: &Lexed, ci: usize) -> String {
    let mut p = ci as isize - 1;
    while p >= 0 && l.els[p as usize].k == K::Comment {
        p -= 1;
    }
    let mut q = ci + 1;
    while q < l.els.len() && l.els[q].k == K::Comment {
        q += 1;
    }
    let pt = if p >= 0 { l.text(p as usize) } else { "" };
    let nt = if q < l.els.len() { l.text(q) } else { "" };
    let (pa, na) = (abs_or(l, p), abs_or(l, q as isize));
    let chain = chain_vec(l, ci);
    let inner = chain.last().cloned().unwrap_or_default();
    // the item keyword: for nested positions, the keyword of the outermost group's item
    let item = if let Some(first_open) = {
        let mut st: Vec<usize> = vec![];
        for (j, e) in l.els.iter().enumerate() {
            if j >= ci {
                break;
            }
            match e.k {
                K::Open => st.push(j),
                K::Close => {
                    st.pop();
                }
                _ => {}
            }
        }
        st.first().copied()
    } {
        top_item_keyword(l, first_open)
    } else {
        top_item_keyword(l, ci)
    };
    let dbl_colon_prev = pt == ":" && p >= 1 && l.text(p as usize - 1) == ":" && l.els[p as usize - 1].joint;
    let dbl_colon_next = nt == ":" && q + 1 < l.els.len() && l.text(q + 1) == ":" && l.els[q].joint;
    // attribute: an enclosing `[` group introduced by `#`, or between `#`/`!` and `[`
    let in_attr = {
        let mut st: Vec<usize> = vec![];
        for (j, e) in l.els.iter().enumerate() {
            if j >= ci {
                break;
            }
            match e.k {
                K::Open => st.push(j),
                K::Close => {
                    st.pop();
                }
                _ => {}
            }
        }
        st.iter().any(|&o| l.text(o) == "[" && o >= 1 && (l.text(o - 1) == "#" || l.text(o - 1) == "!"))
            || ((pt == "#" || pt == "!") && nt == "[")
    };
    if in_attr {
        return "inside-attribute".into();
    }
    if item == "use" {
        return "inside-use-statement".into();
    }
    if item == "mod" {
        return "inside-mod-declaration".into();
    }
    if matches!(item.as_str(), "library" | "script" | "contract" | "predicate") && chain.is_empty() {
        return "inside-module-kind-declaration".into();
    }
    if item == "configurable" {
        return "inside-configurable-item".into();
    }
    if chain.iter().any(|c| c == "asm(") {
        return "inside-asm-register-list".into();
    }
    if chain.iter().any(|c| c == "asm{") {
        return "inside-asm-body".into();
    }
    if pt == "asm" || (pt == ")" && nt == "{" && {
        // `asm(...) /* c */ {`
        let mut d = 0i32;
        let mut j = p;
        let mut is_asm = false;
        while j >= 0 {
            let t = l.text(j as usize);
            if t == ")" {
                d += 1;
            } else if t == "(" {
                d -= 1;
                if d == 0 {
                    is_asm = j >= 1 && l.text(j as usize - 1) == "asm";
                    break;
                }
            }
            j -= 1;
        }
        is_asm
    }) {
        return "asm-between-keyword-registers-and-body".into();
    }
    if dbl_colon_prev || dbl_colon_next || (pt == ":" && p >= 1 && l.els[p as usize - 1].joint && l.text(p as usize - 1) == ":") {
        return "inside-path".into();
    }
    if pa == "///" {
        return "between-doc-comment-and-item".into();
    }
    let type_only_ctx = matches!(inner.as_str(), "struct{" | "enum{" | "where{" | "storage{" | "abi{" | "trait{" | "impl{" | "fn(" | "(" | "[" | "");
    if pt == "<" || nt == ">" || nt == "<" && pa == "id" && type_only_ctx || pt == ">" && (nt == ":" || nt == "(") {
        return "inside-generic-list".into();
    }
    // `,` inside an angle list of an item head
    if chain.is_empty() && (pt == "," || nt == ",") && matches!(item.as_str(), "fn" | "struct" | "enum" | "impl" | "trait" | "abi") {
        return "inside-generic-list".into();
    }
    if pt == "{" && nt == "}" {
        return format!("inside-empty-braces|{inner}");
    }
    if pt == "}" && nt == "else" {
        return "between-if-block-and-else".into();
    }
    if (nt == ":" || pt == ":") && !inner.is_empty() {
        return format!("around-colon|{inner}");
    }
    if inner == "(" {
        return "inside-tuple-or-parenthesised-type".into();
    }
    if inner == "[" {
        return "inside-array-type-or-literal".into();
    }
    if matches!(inner.as_str(), "call(" | "lit{" | "idx[" | "let(" | "let[" | "if(" | "abi(" | "fn(" | "fn[" | "expr{" | "match(" | "while(" | "for(" | "const(" | "const[" | "storage(") {
        return format!("inside-expression-or-list|{inner}");
    }
    if nt == "," && !inner.is_empty() {
        return format!("before-comma|{inner}");
    }
    if chain.is_empty() {
        return format!("{}|{pa}^{na}", if item.is_empty() { "between-items".to_string() } else { format!("{item}-head") });
    }
    format!("{inner}|{pa}^{na}")
}

// ---------------------------------------------------------------------------------------------
// The two oracles

#[derive(Clone, Debug, Default)]
pub struct Outcome {
    /// the formatter accepted the input (pass 1 is Ok); otherwise the case is outside the quantifier
    pub accepted: bool,
    /// pass-1 output differs from the input (the case is non-trivial)
    pub changed: bool,
    /// hash of the pass-1 output
    pub out_hash: u64,
    /// (class key, human text)
    pub violations: Vec<(String, String)>,
}

pub fn hash_str(s: &str) -> u64 {
    use std::hash::{Hash, Hasher};
    let mut h = std::collections::hash_map::DefaultHasher::new();
    s.hash(&mut h);
    h.finish()
}

fn first_diff_lines(a: &str, b: &str) -> String {
    let la: Vec<&str> = a.lines().collect();
    let lb: Vec<&str> = b.lines().collect();
    let mut i = 0;
    while i < la.len() && i < lb.len() && la[i] == lb[i] {
        i += 1;
    }
    let f = |l: &Vec<&str>| l[i.min(l.len())..(i + 3).min(l.len())].join("⏎");
    format!("line {}: {:?} vs {:?}", i + 1, vhcore::truncate(&f(&la), 120), vhcore::truncate(&f(&lb), 120))
}

/// Token-level classification of a formatter output that is damaged (does not lex / parse, or the
/// second pass rejects it): reuse the C19 comparator against the input.
fn classify_damage(x: &str, a: &str, aligned: bool) -> Vec<String> {
    let (Some(lx), Some(la)) = (lex(x), lex(a)) else {
        return vec!["output-unlexable".into()];
    };
    let (nx, na) = (normalised(&lx), normalised(&la));
    let mut keys: Vec<String> = token_hunks(&nx, &na).iter().map(|d| classify_token_hunk(&lx, &la, &nx, d)).collect();
    if keys.iter().any(|k| k == "token-split-by-inserted-whitespace") {
        return vec![format!("token-split-by-inserted-whitespace|trigger={}", drift_trigger(x, a, aligned))];
    }
    if aligned && keys.iter().any(|k| ["struct{", "enum{", "storage{", "configurable{"].iter().any(|c| k.starts_with(c))) {
        return vec!["field-alignment-on".into()];
    }
    keys.sort();
    keys.dedup();
    keys.truncate(3);
    if keys.is_empty() {
        keys.push("tokens-same".into());
    }
    keys
}

/// C18: whenever fmt(x) is Ok, fmt(fmt(x)) is Ok and equal to it. No panic.
pub fn c18_check(x: &str, cfg: &Config) -> Outcome {
    leading_ws_wrapper(x, cfg, c18_inner)
}

fn c18_inner(x: &str, cfg: &Config) -> Outcome {
    let mut o = Outcome::default();
    let aligned = matches!(cfg.structures.field_alignment, FieldAlignment::AlignFields(_));
    let a = match fmt(x, cfg) {
        FmtOut::Ok(a) => a,
        FmtOut::Err(_) => return o,
        FmtOut::Panic(m) => {
            let loc = m.split('|').next().unwrap_or("").to_string();
            o.accepted = true;
            o.violations.push((format!("panic@{loc}|pass1"), format!("formatter panicked on the input: {m}")));
            return o;
        }
    };
    o.accepted = true;
    o.changed = a != x;
    o.out_hash = hash_str(&a);
    match fmt(&a, cfg) {
        FmtOut::Ok(b) => {
            if a != b {
                let what = first_diff_lines(&a, &b);
                // Pass 1 can itself emit leading whitespace (a space before a leading block comment);
                // pass 2 then runs into the formatter's leading-whitespace offset confusion. If the
                // pass-1 output without that whitespace is a fixpoint, this is the whole story.
                if a.starts_with(char::is_whitespace) {
                    if let FmtOut::Ok(b2) = fmt(a.trim_start(), cfg) {
                        let (a1, b1) = (a.trim_start(), b2.trim_start());
                        if b.trim_start() != b1 {
                            // pass 2 behaves differently because of the leading whitespace
                            o.violations.push((
                                "nonidempotent|pass1-output-starts-with-whitespace".into(),
                                format!("fmt(x) starts with whitespace and fmt(fmt(x)) != fmt(x): {what}"),
                            ));
                        }
                        if a1 != b1 {
                            // what remains without the leading whitespace
                            for k in classify_nonidempotent(x, a1, b1, aligned) {
                                o.violations.push((k, format!("fmt(fmt(x)) != fmt(x): {}", first_diff_lines(a1, b1))));
                            }
                        }
                        return o;
                    }
                }
                for k in classify_nonidempotent(x, &a, &b, aligned) {
                    o.violations.push((k, format!("fmt(fmt(x)) != fmt(x): {what}")));
                }
            }
        }
        FmtOut::Err(e) => {
            let keys = classify_damage(x, &a, aligned);
            for k in keys {
                o.violations.push((
                    format!("pass2-rejects-pass1-output|{k}"),
                    format!("fmt(x) is Ok but fmt(fmt(x)) is Err: {}", vhcore::truncate(&e.replace('\n', "; "), 100)),
                ));
            }
        }
        FmtOut::Panic(m) => {
            let loc = m.split('|').next().unwrap_or("").to_string();
            o.violations.push((format!("panic@{loc}|pass2"), format!("formatter panicked on its own output: {m}")));
        }
    }
    o
}

/// Was a block comment appended to the line of a preceding `//` comment (so that the line comment
/// now swallows it and whatever follows on that line)? `cx`/`ca` = comment texts of input/output.
fn swallowed_by_line_comment(cx: &[String], ca: &[String], lost: &[usize], gained: &[usize]) -> bool {
    gained.iter().any(|&j| {
        let g = &ca[j];
        g.starts_with("//") && lost.iter().any(|&i| g.len() > cx[i].len() && g.starts_with(cx[i].as_str()) && cx[i].starts_with("//"))
    })
}

/// C19: fmt(x) parses, tokens(fmt(x)) ≅ tokens(x), comments(fmt(x)) == comments(x). No panic.
pub fn c19_check(x: &str, cfg: &Config) -> Outcome {
    leading_ws_wrapper(x, cfg, c19_inner)
}

/// Leading whitespace: the formatter builds its comment and newline maps from the *trimmed* source
/// text but keeps the spans of the AST parsed from the untrimmed text, so every position is shifted.
/// A violation on an input with leading whitespace that does not occur on the same input without
/// it gets the input predicate `input-starts-with-whitespace` and is keyed by failure family only.
fn leading_ws_wrapper(x: &str, cfg: &Config, inner: fn(&str, &Config) -> Outcome) -> Outcome {
    let mut o = inner(x, cfg);
    if o.violations.is_empty() || !x.starts_with(char::is_whitespace) {
        return o;
    }
    let o2 = inner(x.trim_start(), cfg);
    let keys2: Vec<&String> = o2.violations.iter().map(|(k, _)| k).collect();
    let mut seen = std::collections::BTreeSet::new();
    let mut v = vec![];
    for (k, w) in o.violations.drain(..) {
        let k = if keys2.contains(&&k) {
            k
        } else {
            let fam: Vec<&str> = k.split('|').collect();
            // `panic@file:line|pass1` keeps both parts, everything else its first component
            let f = if fam[0].starts_with("panic@") { k.clone() } else { fam[0].to_string() };
            format!("input-starts-with-whitespace|{f}")
        };
        if seen.insert(k.clone()) {
            v.push((k, w));
        }
    }
    o.violations = v;
    o
}

fn c19_inner(x: &str, cfg: &Config) -> Outcome {
    let mut o = Outcome::default();
    let aligned = matches!(cfg.structures.field_alignment, FieldAlignment::AlignFields(_));
    // The formatter trims the source for its comment and newline maps but keeps the untrimmed spans
    // of the AST: with leading whitespace every position is shifted. One input predicate, keyed by
    // failure family only.
    let fam = |k: &str| -> String { k.to_string() };
    let a = match fmt(x, cfg) {
        FmtOut::Ok(a) => a,
        FmtOut::Err(_) => return o,
        FmtOut::Panic(m) => {
            let loc = m.split('|').next().unwrap_or("").to_string();
            o.accepted = true;
            o.violations.push((fam(&format!("panic@{loc}")), format!("formatter panicked: {m}")));
            return o;
        }
    };
    o.accepted = true;
    o.changed = a != x;
    o.out_hash = hash_str(&a);
    let Some(lx) = lex(x) else {
        // cannot happen: the formatter lexes the same text with the same lexer
        o.violations.push(("machinery|input-accepted-but-unlexable".into(), "lexer rejected an input the formatter accepted".into()));
        return o;
    };
    let Some(la) = lex(&a) else {
        o.violations.push((fam("output-unlexable"), format!("fmt(x) does not lex: {}", vhcore::truncate(&a, 160))));
        return o;
    };
    let (nx, na) = (normalised(&lx), normalised(&la));
    let hunks = token_hunks(&nx, &na);
    let (cx, ca) = (lx.comments(), la.comments());
    let (lost, gained) = if cx != ca { comment_diff(&cx, &ca) } else { (vec![], vec![]) };
    if swallowed_by_line_comment(&cx, &ca, &lost, &gained) {
        // everything else that differs (the swallowed comment, swallowed tokens) is a consequence
        let what = if hunks.is_empty() { "" } else { " together with the tokens after it" };
        o.violations.push((
            fam("block-comment-appended-to-preceding-line-comment"),
            format!("a block comment on its own line after a `//` comment is appended to that line and becomes part of the line comment{what}"),
        ));
        return o;
    }
    // the same with a doc comment as the swallowing line: `/// doc⏎/* c */` -> `/// doc /* c */`
    if hunks.iter().any(|d| {
        d.removed.len() == 1
            && d.added.len() == 1
            && lx.els[d.removed[0].idx].k == K::Doc
            && la.els[d.added[0].idx].k == K::Doc
            && d.added[0].text.starts_with(d.removed[0].text.as_str())
            && lost.iter().any(|&i| d.added[0].text.contains(cx[i].as_str()))
    }) {
        o.violations.push((
            fam("block-comment-appended-to-preceding-line-comment|doc-comment"),
            "a block comment on its own line after a `///` doc comment is appended to that line and becomes part of the doc comment".into(),
        ));
        return o;
    }
    let mut seen = std::collections::BTreeSet::new();
    // a token cut in two by whitespace inserted at a drifted offset: everything else in the case is
    // a consequence of the same drift
    if hunks.iter().any(|d| classify_token_hunk(&lx, &la, &nx, d) == "token-split-by-inserted-whitespace") {
        o.violations.push((
            fam(&format!("tokens|token-split-by-inserted-whitespace|trigger={}", drift_trigger(x, &a, aligned))),
            format!("whitespace inserted in the middle of a token: {}", first_diff_lines(x, &a)),
        ));
        return o;
    }
    // `structures.field_alignment = AlignFields(n)`: the aligned code path of struct / enum /
    // storage / configurable writes name, colon and type only ("TODO: Handle annotations instead of
    // stripping them", swayfmt items/item_struct/mod.rs) — one input predicate per construct
    if aligned {
        let mut ks: Vec<String> = vec![];
        for d in &hunks {
            let kk = classify_token_hunk(&lx, &la, &nx, d);
            for c in ["struct{", "enum{", "storage{", "configurable{"] {
                if kk.starts_with(c) {
                    ks.push(format!("tokens|field-alignment-on|{c}"));
                }
            }
        }
        ks.sort();
        ks.dedup();
        if !ks.is_empty() {
            // everything else in the case (misplaced newlines cutting tokens, lost comments) follows
            // from the stripped annotations
            for k in ks {
                o.violations.push((fam(&k), "with field alignment on, annotations / doc comments / storage keys of the fields are stripped".into()));
            }
            return o;
        }
    }
    for d in &hunks {
        let kk = classify_token_hunk(&lx, &la, &nx, d);
        let k = fam(&format!("tokens|{kk}"));
        if seen.len() < 4 && seen.insert(k.clone()) {
            let r: Vec<&str> = d.removed.iter().take(8).map(|t| t.text.as_str()).collect();
            let g: Vec<&str> = d.added.iter().take(8).map(|t| t.text.as_str()).collect();
            o.violations.push((k, format!("token sequence changed: input has {r:?} where output has {g:?}")));
        }
    }
    if cx != ca {
        let cix = comment_idxs(&lx);
        let cia = comment_idxs(&la);
        let gained_txt: Vec<&String> = gained.iter().map(|&j| &ca[j]).collect();
        for &i in lost.iter().take(4) {
            let shape = if gained_txt.contains(&&cx[i]) { "comments-reordered" } else { "comments-lost" };
            let k = fam(&format!("{shape}|{}", comment_slot(&lx, cix[i])));
            if seen.insert(k.clone()) {
                o.violations.push((k, format!("comment {:?} of the input is missing from / moved in the output", vhcore::truncate(&cx[i], 60))));
            }
        }
        let lost_txt: Vec<&String> = lost.iter().map(|&i| &cx[i]).collect();
        for &j in gained.iter().take(4) {
            if lost_txt.contains(&&ca[j]) {
                continue; // reported as reordered
            }
            let k = fam(&format!("comments-gained|{}", comment_slot(&la, cia[j])));
            if seen.insert(k.clone()) {
                o.violations.push((k, format!("output has comment {:?} that the input has not (duplicated or altered)", vhcore::truncate(&ca[j], 60))));
            }
        }
    }
    if hunks.is_empty() && !parses(&a) {
        // same tokens but unparseable can only be a spacing change that glues/splits operators
        o.violations.push((fam("output-unparseable|tokens-same"), format!("fmt(x) does not parse: {}", vhcore::truncate(&a, 160))));
    }
    o
}

// ---------------------------------------------------------------------------------------------
// The declared space and its driver

#[derive(Clone, Debug)]
pub struct Base {
    /// `corpus:<path>` or `gen:<family>/<n>`
    pub name: String,
    pub text: String,
}

#[derive(Clone, Debug, Default)]
pub struct BaseResult {
    pub evaluations: u64,
    pub accepted: u64,
    pub rejected_by_formatter: u64,
    pub changed: u64,
    pub distinct_outputs: u64,
    /// per family of deviation: number of cases
    pub by_family: BTreeMap<String, u64>,
    pub ws_rejected_merges: u64,
    /// key -> (count, shortest input, config, variant description, human text)
    pub viol: BTreeMap<String, (u64, String, String, String, String)>,
    pub mutated: bool,
    pub paired: bool,
}

pub struct Plan {
    pub thorough: bool,
    pub max_tokens_mutation: usize,
    pub max_tokens_pairs: usize,
}

/// Which configurations / menus apply to which family of deviation in each tier. The quick tier is
/// a declared sub-space of the thorough one (see `describe`).
impl Plan {
    pub fn new(thorough: bool) -> Plan {
        Plan {
            thorough,
            max_tokens_mutation: 120,
            max_tokens_pairs: 30,
        }
    }
}

/// Run every case derived from one base through `check` and aggregate.
pub fn run_base<F: Fn(&str, &Config) -> Outcome>(
    base: &Base,
    plan: &Plan,
    cfgs: &[(&'static str, Config)],
    slice: &BaseSlice,
    check: &F,
) -> BaseResult {
    let mut r = BaseResult::default();
    let mut outs = std::collections::HashSet::new();
    let mut one = |r: &mut BaseResult, fam: &str, text: &str, what: &str, cname: &str, cfg: &Config| {
        let o = check(text, cfg);
        r.evaluations += 1;
        *r.by_family.entry(fam.to_string()).or_insert(0) += 1;
        if !o.accepted {
            r.rejected_by_formatter += 1;
            return;
        }
        r.accepted += 1;
        if o.changed {
            r.changed += 1;
            outs.insert(o.out_hash);
        }
        for (k, human) in o.violations {
            let e = r.viol.entry(k).or_insert((0, text.to_string(), cname.to_string(), what.to_string(), human.clone()));
            e.0 += 1;
            if text.len() < e.1.len() {
                *e = (e.0, text.to_string(), cname.to_string(), what.to_string(), human);
            }
        }
    };
    // (1)/(2) the base itself under every configuration
    for (cname, cfg) in cfgs {
        one(&mut r, "base", &base.text, "as is", cname, cfg);
    }
    if !slice.mutate {
        r.distinct_outputs = outs.len() as u64;
        return r;
    }
    let Some(l) = lex(&base.text) else {
        r.distinct_outputs = outs.len() as u64;
        return r;
    };
    if l.n_tokens() == 0 || l.n_tokens() > plan.max_tokens_mutation || !l.gaps_are_whitespace() {
        r.distinct_outputs = outs.len() as u64;
        return r;
    }
    r.mutated = true;
    let var_cfgs: Vec<&(&'static str, Config)> = cfgs.iter().filter(|(n, _)| slice.variant_cfgs.contains(n)).collect();
    // (3) one comment at every gap
    let menu = comment_menu();
    for g in 0..n_gaps(&l) {
        for (mi, (b, c, a)) in menu.iter().enumerate() {
            if !slice.comment_menu.contains(&mi) {
                continue;
            }
            let text = with_gap(&l, g, &format!("{b}{c}{a}"));
            let what = format!("comment at gap {g}: {:?}", format!("{b}{c}{a}"));
            for (cname, cfg) in &var_cfgs {
                one(&mut r, "comment", &text, &what, cname, cfg);
            }
        }
    }
    // (4) whitespace of every gap
    let sig = l.sig();
    for g in 0..n_gaps(&l) {
        let (s, e) = gap_bounds(&l, g);
        for w in WS_MENU {
            if &l.src[s..e] == w {
                continue;
            }
            let text = with_gap(&l, g, w);
            if !w.contains('\n') {
                match lex(&text) {
                    Some(l2) if l2.sig() == sig => {}
                    _ => {
                        r.ws_rejected_merges += 1;
                        continue;
                    }
                }
            }
            let what = format!("whitespace of gap {g} := {w:?}");
            for (cname, cfg) in &var_cfgs {
                one(&mut r, "whitespace", &text, &what, cname, cfg);
            }
        }
    }
    // (3b) ordered pairs of comments
    if slice.pairs && l.n_tokens() <= plan.max_tokens_pairs {
        r.paired = true;
        let m = pair_menu();
        let (cname, cfg) = &cfgs[0];
        for g1 in 0..n_gaps(&l) {
            for g2 in g1..n_gaps(&l) {
                for (b1, c1, a1) in &m {
                    for (b2, c2, a2) in &m {
                        let c2 = c2.replace('c', "e");
                        let (t1, t2) = (format!("{b1}{c1}{a1}"), format!("{b2}{c2}{a2}"));
                        let text = with_gaps2(&l, g1, &t1, g2, &t2);
                        let what = format!("comments at gaps {g1},{g2}: {t1:?} {t2:?}");
                        one(&mut r, "comment-pair", &text, &what, cname, cfg);
                    }
                }
            }
        }
    }
    r.distinct_outputs = outs.len() as u64;
    r
}

/// What is explored for one base in the current tier.
#[derive(Clone, Debug)]
pub struct BaseSlice {
    pub mutate: bool,
    /// indices into `comment_menu()`
    pub comment_menu: Vec<usize>,
    pub variant_cfgs: Vec<&'static str>,
    pub pairs: bool,
}

/// All bases: every `.sw` file of the repository, then the item grammar.
pub fn bases() -> (Vec<Base>, usize, usize, usize) {
    let mut v = vec![];
    let root = vhcore::repo_root();
    let mut unreadable = 0;
    for p in vhcore::corpus_sw_files() {
        match std::fs::read_to_string(&p) {
            Ok(text) => {
                let rel = p.strip_prefix(&root).unwrap_or(&p).display().to_string();
                v.push(Base {
                    name: format!("corpus:{rel}"),
                    text,
                });
            }
            Err(_) => unreadable += 1,
        }
    }
    let n_corpus = v.len();
    let (g, closed) = generated();
    if g.len() != closed {
        vhcore::machinery_failure(&format!("item grammar produced {} sources, closed form says {closed}", g.len()));
    }
    let n_gen = g.len();
    for s in g {
        v.push(Base {
            name: format!("gen:{}", s.name),
            text: s.text,
        });
    }
    (v, n_corpus, n_gen, unreadable)
}

/// indices into comment_menu() used by the quick tier: block comment inline and on its own line,
/// line comment trailing and on its own line, doc comment on its own line
pub fn quick_comment_menu() -> Vec<usize> {
    let m = comment_menu();
    let want = [
        (" ", "/* c */", " "),
        ("\n", "/* c */", "\n"),
        (" ", "// c", "\n"),
        ("\n", "// c", "\n"),
        ("\n", "/// d", "\n"),
    ];
    (0..m.len()).filter(|&i| want.contains(&m[i])).collect()
}

/// The slice of the space explored for base `b` in the given tier.
pub fn slice_for(b: &Base, thorough: bool) -> BaseSlice {
    let all_cfgs: Vec<&'static str> = configs().iter().map(|(n, _)| *n).collect();
    if thorough {
        let big_family = b.name.starts_with("gen:ladder") || b.name.starts_with("gen:fnbody2");
        return BaseSlice {
            mutate: true,
            comment_menu: (0..comment_menu().len()).collect(),
            // the statement-pair family (1728 sources of ~50 tokens) gets its deviations under the
            // default configuration only
            variant_cfgs: if b.name.starts_with("gen:fnbody2") { vec!["default"] } else { all_cfgs },
            pairs: !big_family,
        };
    }
    // quick: generated sources of the structural families (not the statement pairs / ladders, whose
    // bases still run under all configurations) and corpus files; reduced menu; default config and
    // max_width=40
    let mutate = !(b.name.starts_with("gen:ladder") || b.name.starts_with("gen:fnbody2") || b.name.starts_with("gen:pair"));
    BaseSlice {
        mutate,
        comment_menu: quick_comment_menu(),
        variant_cfgs: vec!["default"],
        pairs: false,
    }
}

pub fn run_check<F: Fn(&str, &Config) -> Outcome + Sync>(a: &vhcore::Args, oracle: &str, check: F) -> i32 {
    let thorough = a.tier == vhcore::Tier::Thorough;
    let mut rep = vhcore::Reporter::from_args(a, "exploration");
    // not vhcore::work_dir(): that would wipe the fix-<n>.patch files kept in the same directory
    let _ = std::fs::create_dir_all(vhcore::verif_root().join("work").join(&a.id));
    let (bs, n_corpus, n_gen, unreadable) = bases();
    let cfgs = configs();
    let mut plan = Plan::new(thorough);
    if !thorough {
        plan.max_tokens_mutation = quick_max_tokens();
    }
    let t0 = std::time::Instant::now();
    // big files first so that the tail of the parallel map is short
    let mut order: Vec<usize> = (0..bs.len()).collect();
    order.sort_by_key(|&i| std::cmp::Reverse(bs[i].text.len().min(20_000) + if bs[i].text.len() < 4000 { 20_000 } else { 0 }));
    let results = vhcore::par_map_idx(order.len(), a.jobs, |k| {
        let b = &bs[order[k]];
        let sl = slice_for(b, thorough);
        run_base(b, &plan, &cfgs, &sl, &check)
    });
    let mut tot = BaseResult::default();
    let mut corpus_rejected_files = 0u64;
    let mut mutated_corpus = 0u64;
    let mut mutated_gen = 0u64;
    let mut paired = 0u64;
    let mut viol: BTreeMap<String, (u64, String, String, String, String, String)> = BTreeMap::new();
    for (k, r) in results.iter().enumerate() {
        let b = &bs[order[k]];
        tot.evaluations += r.evaluations;
        tot.accepted += r.accepted;
        tot.rejected_by_formatter += r.rejected_by_formatter;
        tot.changed += r.changed;
        tot.distinct_outputs += r.distinct_outputs;
        tot.ws_rejected_merges += r.ws_rejected_merges;
        for (f, n) in &r.by_family {
            *tot.by_family.entry(f.clone()).or_insert(0) += n;
        }
        if b.name.starts_with("corpus:") {
            // rejected under the default configuration == unparseable negative test
            if r.by_family.get("base").copied().unwrap_or(0) > 0 && r.accepted == 0 {
                corpus_rejected_files += 1;
            }
            if r.mutated {
                mutated_corpus += 1;
            }
        } else if r.mutated {
            mutated_gen += 1;
        }
        if r.paired {
            paired += 1;
        }
        for (key, (n, text, cname, what, human)) in &r.viol {
            let e = viol
                .entry(key.clone())
                .or_insert((0, text.clone(), cname.clone(), what.clone(), human.clone(), b.name.clone()));
            e.0 += n;
            if text.len() < e.1.len() {
                *e = (e.0, text.clone(), cname.clone(), what.clone(), human.clone(), b.name.clone());
            }
        }
    }
    // vacuity guards
    if tot.accepted < 2 || tot.distinct_outputs < 2 || n_corpus < 100 {
        vhcore::machinery_failure(&format!(
            "vacuous run: accepted={} distinct_outputs={} corpus_files={n_corpus}",
            tot.accepted, tot.distinct_outputs
        ));
    }
    // full list of classes with their smallest reproducer (the reporter caps replay files at 25)
    let classes: Vec<serde_json::Value> = viol
        .iter()
        .map(|(k, (n, text, cname, what, human, origin))| {
            let out = match config_by_name(cname).map(|c| fmt(text, &c)) {
                Some(FmtOut::Ok(o)) => o,
                o => format!("{o:?}"),
            };
            serde_json::json!({"key": k, "cases": n, "config": cname, "input": text, "origin": origin, "variant": what, "what": human,
                "known": rep.is_known(k), "output": out})
        })
        .collect();
    let _ = std::fs::write(
        vhcore::verif_root().join("work").join(&a.id).join("classes.json"),
        serde_json::to_string_pretty(&classes).unwrap_or_default(),
    );
    for (key, (n, text, cname, what, human, origin)) in &viol {
        let what_txt = format!("{human} [{n} cases; smallest: {origin}, {what}, config {cname}]").replace('\n', "⏎");
        rep.violation(
            key,
            &what_txt,
            serde_json::json!({"config": cname, "input": text, "origin": origin, "variant": what, "cases": n}),
        );
    }
    rep.set("evaluations", tot.evaluations);
    rep.set("accepted_by_formatter", tot.accepted);
    rep.set("rejected_by_formatter_skipped", tot.rejected_by_formatter);
    rep.set("distinct_nontrivial", tot.distinct_outputs);
    rep.set(
        "rule",
        "distinct formatter outputs fmt(x) with fmt(x) != x, counted per base text and summed over bases",
    );
    rep.set("cases_where_formatter_changed_the_text", tot.changed);
    rep.set("corpus_files", n_corpus as u64);
    rep.set("corpus_files_unreadable_not_utf8", unreadable as u64);
    rep.set("corpus_files_rejected_by_formatter_all_configs", corpus_rejected_files);
    rep.set("generated_sources", n_gen as u64);
    rep.set("corpus_files_mutated", mutated_corpus);
    rep.set("generated_sources_mutated", mutated_gen);
    rep.set("bases_with_comment_pairs", paired);
    rep.set("whitespace_variants_rejected_because_tokens_merge", tot.ws_rejected_merges);
    rep.set("cases_by_family", serde_json::json!(tot.by_family));
    rep.set("configurations", serde_json::json!(cfgs.iter().map(|(n, _)| *n).collect::<Vec<_>>()));
    rep.set("oracle", oracle);
    rep.set("violation_classes", serde_json::json!(viol.iter().map(|(k, v)| serde_json::json!({"key": k, "cases": v.0})).collect::<Vec<_>>()));
    rep.set("exhaustive", true);
    rep.set(
        "space",
        if thorough {
            "every .sw file of the repo and every source of the item grammar under 5 configurations; for every generated source and every corpus file with <= 120 tokens: each of 21 comment insertions (block/line/doc comment x {0,1,2} newlines before x {0,1,2} (block) or {1,2} (line, doc) newlines after) at every token boundary and each whitespace replacement in {\"\",\" \",\"\\n\",\"\\n\\n\\n\"} of every inter-token gap, one at a time, under 5 configurations (the 1728 statement-pair sources `fnbody2`: default configuration only); for bases with <= 30 tokens (except the ladder and statement-pair families) every ordered pair of insertions from a 3-entry menu at gaps g1 <= g2 under the default configuration"
        } else {
            "every .sw file of the repo and every source of the item grammar under 5 configurations; for every generated source of the structural families (not ladders / statement pairs / item pairs) and every corpus file with <= 40 tokens: 5 comment insertions at every token boundary and 4 whitespace replacements of every gap, under the default configuration"
        },
    );
    for (k, r) in results.iter().enumerate().take(4) {
        rep.sample(serde_json::json!({"base": bs[order[k]].name, "cases": r.evaluations, "accepted": r.accepted}));
    }
    for b in bs.iter().filter(|b| b.name.starts_with("gen:")).step_by(997).take(6) {
        let mut s = serde_json::json!({"base": b.name, "text": b.text});
        if let Some(l) = lex(&b.text) {
            let g = n_gaps(&l) / 2;
            s["comment_variant_example"] = serde_json::json!(with_gap(&l, g, "\n// c\n"));
            s["whitespace_variant_example"] = serde_json::json!(with_gap(&l, g, "\n\n\n"));
        }
        rep.sample(s);
    }
    rep.assume("the formatter is driven exactly like forc-fmt does: Formatter{config,..default}.format(src) with default ExperimentalFeatures");
    rep.assume("inputs on which Formatter::format returns Err (unparseable sources, doc comments at illegal places) are outside the quantifier and only counted");
    eprintln!("explored in {:.1}s", t0.elapsed().as_secs_f64());
    rep.finish()
}

pub fn quick_max_tokens() -> usize {
    40
}

pub fn replay<F: Fn(&str, &Config) -> Outcome>(a: &vhcore::Args, check: F) -> i32 {
    let Some(p) = &a.replay else { vhcore::machinery_failure("replay: path missing") };
    let Ok(txt) = std::fs::read_to_string(p) else { vhcore::machinery_failure("replay: cannot read file") };
    let Ok(v) = serde_json::from_str::<serde_json::Value>(&txt) else { vhcore::machinery_failure("replay: not JSON") };
    let r = &v["replay"];
    let (Some(input), Some(cname)) = (r["input"].as_str(), r["config"].as_str()) else {
        vhcore::machinery_failure("replay: missing input/config")
    };
    let Some(cfg) = config_by_name(cname) else { vhcore::machinery_failure("replay: unknown config") };
    println!("config: {cname}\n--- input\n{input}");
    match fmt(input, &cfg) {
        FmtOut::Ok(f1) => {
            println!("--- fmt(x)\n{f1}");
            match fmt(&f1, &cfg) {
                FmtOut::Ok(f2) if f2 == f1 => println!("--- fmt(fmt(x)) == fmt(x)"),
                FmtOut::Ok(f2) => println!("--- fmt(fmt(x))\n{f2}"),
                o => println!("--- fmt(fmt(x)): {o:?}"),
            }
        }
        o => println!("--- fmt(x): {o:?}"),
    }
    let o = check(input, &cfg);
    if o.violations.is_empty() {
        println!("no violation on this input");
        0
    } else {
        for (k, w) in &o.violations {
            println!("VIOLATES key={k} {w}");
        }
        1
    }
}

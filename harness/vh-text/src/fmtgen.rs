//! Shared machinery of C18 (formatting is idempotent) and C19 (formatting preserves tokens and
//! comments): formatter driver + configurations, a flattening lexer built on the real
//! `sway_parse::lex_commented`, the bounded-exhaustive input space (corpus, item grammar, comment
//! insertion, whitespace variants), the C19 token/comment comparator and the classifiers.

use std::collections::BTreeMap;
use sway_ast::token::{CommentedTokenStream, CommentedTokenTree, CommentedTree, Spacing};
use sway_types::Spanned;
use swayfmt::config::manifest::Config;
use swayfmt::config::user_def::FieldAlignment;
use swayfmt::Formatter;

// ---------------------------------------------------------------------------------------------
// Configurations

/// The five configurations of the declared space. Only options that swayfmt actually consults are
/// used (`grep config\. swayfmt/src`: whitespace.{max_width,hard_tabs,tab_spaces,newline_threshold,
/// newline_style}, structures.{field_alignment,small_structures_single_line}); DESIGN.md's
/// `match_block_trailing_comma` exists in `ExpressionsOptions` but is never read by the formatter,
/// so the fifth configuration is `structures.field_alignment = AlignFields(20)` instead.
pub fn configs() -> Vec<(&'static str, Config)> {
    let mut v = vec![("default", Config::default())];
    let mut c = Config::default();
    c.whitespace.max_width = 40;
    v.push(("max_width=40", c));
    let mut c = Config::default();
    c.whitespace.hard_tabs = true;
    v.push(("hard_tabs", c));
    let mut c = Config::default();
    c.whitespace.tab_spaces = 2;
    v.push(("tab_spaces=2", c));
    let mut c = Config::default();
    c.structures.field_alignment = FieldAlignment::AlignFields(20);
    v.push(("align_fields=20", c));
    v
}

pub fn config_by_name(name: &str) -> Option<Config> {
    configs().into_iter().find(|(n, _)| *n == name).map(|(_, c)| c)
}

// ---------------------------------------------------------------------------------------------
// Formatter driver (the real `Formatter::format`, as forc-fmt drives it)

#[derive(Clone, Debug, PartialEq, Eq)]
pub enum FmtOut {
    Ok(String),
    /// the formatter refused the input (parse error, …): the case is outside the property's
    /// quantifier ("every source the formatter accepts")
    Err(String),
    /// `file:line|message`
    Panic(String),
}

pub fn fmt(src: &str, cfg: &Config) -> FmtOut {
    let cfg = cfg.clone();
    let s = src.to_string();
    let r = vhcore::catch(move || {
        let mut f = Formatter::default();
        f.config = cfg;
        f.format(s.as_str().into())
    });
    match r {
        Ok(Ok(s)) => FmtOut::Ok(s),
        Ok(Err(e)) => FmtOut::Err(format!("{e}")),
        Err(msg) => {
            let loc = vhcore::take_panic_loc();
            FmtOut::Panic(format!("{}|{}", strip_repo(&loc), vhcore::truncate(&msg, 120)))
        }
    }
}

pub fn strip_repo(loc: &str) -> String {
    // make panic locations independent of where the worktree lives (/repo vs /tmp/lab/x/repo)
    for c in ["swayfmt/", "sway-parse/", "sway-ast/", "sway-types/", "sway-error/"] {
        if let Some(p) = loc.find(c) {
            return loc[p..].to_string();
        }
    }
    loc.to_string()
}

// ---------------------------------------------------------------------------------------------
// Lexing with the real lexer, flattened

#[derive(Clone, Copy, Debug, PartialEq, Eq, Hash, PartialOrd, Ord)]
pub enum K {
    Ident,
    Punct,
    Lit,
    Open,
    Close,
    Doc,
    Comment,
}

/// One lexed element (token, delimiter, doc comment or comment) in source order.
#[derive(Clone, Debug)]
pub struct El {
    pub k: K,
    pub start: usize,
    pub end: usize,
    /// punct directly followed by another punct (lexer's `Spacing::Joint`)
    pub joint: bool,
    /// nesting depth (number of enclosing groups)
    pub depth: usize,
}

#[derive(Clone, Debug)]
pub struct Lexed {
    pub src: String,
    pub els: Vec<El>,
}

impl Lexed {
    pub fn text(&self, i: usize) -> &str {
        &self.src[self.els[i].start..self.els[i].end]
    }
    pub fn n_tokens(&self) -> usize {
        self.els.iter().filter(|e| e.k != K::Comment).count()
    }
    /// texts of the comments, in order, trailing whitespace removed
    pub fn comments(&self) -> Vec<String> {
        self.els
            .iter()
            .filter(|e| e.k == K::Comment)
            .map(|e| norm_comment(&self.src[e.start..e.end]))
            .collect()
    }
    /// `true` iff everything between consecutive elements is whitespace (then the elements and
    /// the gaps partition the source and gap rewriting is well defined)
    pub fn gaps_are_whitespace(&self) -> bool {
        let mut p = 0;
        for e in &self.els {
            if e.start < p || !self.src[p..e.start].chars().all(char::is_whitespace) {
                return false;
            }
            p = e.end;
        }
        self.src[p..].chars().all(char::is_whitespace)
    }
    /// token signature used to decide "same token sequence" between a base text and a variant
    pub fn sig(&self) -> Vec<(K, String)> {
        self.els
            .iter()
            .map(|e| (e.k, self.src[e.start..e.end].to_string()))
            .collect()
    }
}

/// trailing whitespace on every line of a (block) comment is not significant
pub fn norm_comment(s: &str) -> String {
    s.lines().map(|l| l.trim_end()).collect::<Vec<_>>().join("\n").trim_end().to_string()
}

/// Lex with `sway_parse::lex_commented`; `None` when the lexer reports an error or panics.
pub fn lex(src: &str) -> Option<Lexed> {
    let s = src.to_string();
    let r = vhcore::catch(move || {
        let h = sway_error::handler::Handler::default();
        let end = s.len();
        let r = sway_parse::lex_commented(&h, s.as_str().into(), 0, end, &None);
        let (errs, _, _) = h.consume();
        match r {
            Ok(ts) if errs.is_empty() => Some(ts),
            _ => None,
        }
    });
    let ts: CommentedTokenStream = match r {
        Ok(Some(ts)) => ts,
        _ => {
            let _ = vhcore::take_panic_loc();
            return None;
        }
    };
    let mut els = vec![];
    flatten(&ts, 0, &mut els);
    Some(Lexed {
        src: src.to_string(),
        els,
    })
}

fn flatten(ts: &CommentedTokenStream, depth: usize, out: &mut Vec<El>) {
    for tt in ts.token_trees() {
        match tt {
            CommentedTokenTree::Comment(c) => out.push(El {
                k: K::Comment,
                start: c.span.start(),
                end: c.span.end(),
                joint: false,
                depth,
            }),
            CommentedTokenTree::Tree(t) => match t {
                CommentedTree::Punct(p) => out.push(El {
                    k: K::Punct,
                    start: p.span.start(),
                    end: p.span.end(),
                    joint: p.spacing == Spacing::Joint,
                    depth,
                }),
                CommentedTree::Ident(i) => {
                    let sp = i.span();
                    out.push(El {
                        k: K::Ident,
                        start: sp.start(),
                        end: sp.end(),
                        joint: false,
                        depth,
                    })
                }
                CommentedTree::Literal(l) => {
                    let sp = l.span();
                    out.push(El {
                        k: K::Lit,
                        start: sp.start(),
                        end: sp.end(),
                        joint: false,
                        depth,
                    })
                }
                CommentedTree::DocComment(d) => out.push(El {
                    k: K::Doc,
                    start: d.span.start(),
                    end: d.span.end(),
                    joint: false,
                    depth,
                }),
                CommentedTree::Group(g) => {
                    let (s, e) = (g.span.start(), g.span.end());
                    out.push(El {
                        k: K::Open,
                        start: s,
                        end: s + 1,
                        joint: false,
                        depth,
                    });
                    flatten(&g.token_stream, depth + 1, out);
                    out.push(El {
                        k: K::Close,
                        start: e - 1,
                        end: e,
                        joint: false,
                        depth,
                    });
                }
            },
        }
    }
}

/// Does `src` parse as a module with the real parser (no errors)?
pub fn parses(src: &str) -> bool {
    let s = src.to_string();
    let r = vhcore::catch(move || {
        swayfmt::parse::parse_file(s.as_str().into(), Default::default()).is_ok()
    });
    match r {
        Ok(b) => b,
        Err(_) => {
            let _ = vhcore::take_panic_loc();
            false
        }
    }
}

// ---------------------------------------------------------------------------------------------
// Variant spaces over one base text

/// The menu of comment insertions: (whitespace before, comment text, whitespace after).
/// Block comment: {0,1,2} newlines on either side (0 newlines = one space); line comment and doc
/// comment: {0,1,2} before and {1,2} after (with 0 newlines after, the rest of the line would
/// become part of the comment, i.e. a different token sequence).
pub fn comment_menu() -> Vec<(&'static str, &'static str, &'static str)> {
    let ws = [" ", "\n", "\n\n"];
    let mut v = vec![];
    for b in ws {
        for a in ws {
            v.push((b, "/* c */", a));
        }
    }
    for c in ["// c", "/// d"] {
        for b in ws {
            for a in &ws[1..] {
                v.push((b, c, *a));
            }
        }
    }
    v
}

/// Reduced menu used for the ordered pairs of insertions.
pub fn pair_menu() -> Vec<(&'static str, &'static str, &'static str)> {
    vec![(" ", "// c", "\n"), ("\n", "// c", "\n"), (" ", "/* c */", " ")]
}

pub const WS_MENU: [&str; 4] = ["", " ", "\n", "\n\n\n"];

/// Number of gaps of a lexed text: before the first element, between elements, after the last.
pub fn n_gaps(l: &Lexed) -> usize {
    l.els.len() + 1
}

fn gap_bounds(l: &Lexed, g: usize) -> (usize, usize) {
    let s = if g == 0 { 0 } else { l.els[g - 1].end };
    let e = if g == l.els.len() { l.src.len() } else { l.els[g].start };
    (s, e)
}

/// Replace gap `g` by `text`.
pub fn with_gap(l: &Lexed, g: usize, text: &str) -> String {
    let (s, e) = gap_bounds(l, g);
    let mut out = String::with_capacity(l.src.len() + text.len());
    out.push_str(&l.src[..s]);
    out.push_str(text);
    out.push_str(&l.src[e..]);
    out
}

/// Replace gaps `g1 <= g2` (two insertions; when equal, both texts go into the same gap in order).
pub fn with_gaps2(l: &Lexed, g1: usize, t1: &str, g2: usize, t2: &str) -> String {
    assert!(g1 <= g2);
    if g1 == g2 {
        return with_gap(l, g1, &format!("{}{}", t1, t2.trim_start_matches(' ')));
    }
    let (s1, e1) = gap_bounds(l, g1);
    let (s2, e2) = gap_bounds(l, g2);
    let mut out = String::new();
    out.push_str(&l.src[..s1]);
    out.push_str(t1);
    out.push_str(&l.src[e1..s2]);
    out.push_str(t2);
    out.push_str(&l.src[e2..]);
    out
}

/// A case of the declared space: which base, which deviation.
#[derive(Clone, Debug)]
pub struct Variant {
    pub text: String,
    /// human-readable description of the deviation, e.g. `comment gap=3 " "+"// c"+"\n"`
    pub what: String,
}

pub fn comment_variants(l: &Lexed) -> Vec<Variant> {
    let mut v = vec![];
    for g in 0..n_gaps(l) {
        for (b, c, a) in comment_menu() {
            v.push(Variant {
                text: with_gap(l, g, &format!("{b}{c}{a}")),
                what: format!("comment gap={g} {:?}", format!("{b}{c}{a}")),
            });
        }
    }
    v
}

/// Whitespace variants: every gap replaced by each of WS_MENU, one at a time. A variant whose
/// token sequence differs from the base's (two tokens merged, a line comment swallowed the next
/// token) is not in the space; the number of such rejects is returned.
pub fn ws_variants(l: &Lexed) -> (Vec<Variant>, usize) {
    let base = l.sig();
    let mut v = vec![];
    let mut rejected = 0;
    for g in 0..n_gaps(l) {
        let (s, e) = gap_bounds(l, g);
        for w in WS_MENU {
            if &l.src[s..e] == w {
                continue; // the base itself
            }
            let text = with_gap(l, g, w);
            // only the gaps without a newline can merge tokens / be swallowed by a line comment
            if !w.contains('\n') {
                match lex(&text) {
                    Some(l2) if l2.sig() == base => {}
                    _ => {
                        rejected += 1;
                        continue;
                    }
                }
            }
            v.push(Variant {
                text,
                what: format!("ws gap={g} {w:?}"),
            });
        }
    }
    (v, rejected)
}

pub fn pair_variants(l: &Lexed) -> Vec<Variant> {
    let mut v = vec![];
    let m = pair_menu();
    for g1 in 0..n_gaps(l) {
        for g2 in g1..n_gaps(l) {
            for (b1, c1, a1) in &m {
                for (b2, c2, a2) in &m {
                    let c2 = c2.replace('c', "e");
                    v.push(Variant {
                        text: with_gaps2(l, g1, &format!("{b1}{c1}{a1}"), g2, &format!("{b2}{c2}{a2}")),
                        what: format!(
                            "pair gaps={g1},{g2} {:?} {:?}",
                            format!("{b1}{c1}{a1}"),
                            format!("{b2}{c2}{a2}")
                        ),
                    });
                }
            }
        }
    }
    v
}

// ---------------------------------------------------------------------------------------------
// Context of a position in a lexed text (for class keys)

const KEYWORDS: &[&str] = &[
    "fn", "struct", "enum", "impl", "trait", "abi", "storage", "configurable", "use", "const", "match",
    "if", "else", "while", "for", "asm", "mod", "let", "where", "type", "pub", "return", "break", "continue",
    "script", "contract", "predicate", "library", "self", "Self", "mut", "ref", "as", "in", "true", "false",
];

pub fn is_keyword(s: &str) -> bool {
    KEYWORDS.contains(&s)
}

/// abstract one element: keywords and punctuation verbatim, identifiers `id`, literals by kind
pub fn abs_el(l: &Lexed, i: usize) -> String {
    let e = &l.els[i];
    let t = l.text(i);
    match e.k {
        K::Ident => {
            if is_keyword(t) {
                t.to_string()
            } else {
                "id".into()
            }
        }
        K::Punct | K::Open | K::Close => t.to_string(),
        K::Lit => {
            if t.starts_with('"') {
                "str".into()
            } else if t.starts_with('\'') {
                "chr".into()
            } else {
                "num".into()
            }
        }
        K::Doc => "///".into(),
        K::Comment => {
            if t.starts_with("//") {
                "//".into()
            } else {
                "/**/".into()
            }
        }
    }
}

/// Introducer of the group opened at element `open`: the nearest construct keyword before it in the
/// same token stream (not crossing a `;`, a `,`-free statement boundary or a closed brace group).
fn introducer(l: &Lexed, open: usize) -> String {
    let d = l.els[open].depth;
    let delim = l.text(open).to_string();
    let mut i = open;
    let mut steps = 0;
    let mut saw_ident_before = false;
    while i > 0 && steps < 40 {
        i -= 1;
        let e = &l.els[i];
        if e.depth < d {
            break;
        }
        if e.depth > d || e.k == K::Comment || e.k == K::Doc {
            continue;
        }
        steps += 1;
        let t = l.text(i);
        match e.k {
            K::Punct if t == ";" => break,
            K::Close if t == "}" => break,
            K::Ident => {
                if matches!(
                    t,
                    "fn" | "struct"
                        | "enum"
                        | "impl"
                        | "trait"
                        | "abi"
                        | "storage"
                        | "configurable"
                        | "use"
                        | "const"
                        | "match"
                        | "if"
                        | "while"
                        | "for"
                        | "asm"
                        | "let"
                        | "else"
                        | "where"
                ) {
                    // `let x = S { .. }` is a struct literal, not a "let block"
                    if (t == "let" || t == "const") && delim == "{" {
                        return "expr{".into();
                    }
                    return format!("{t}{delim}");
                }
                if steps == 1 {
                    saw_ident_before = true;
                }
            }
            _ => {}
        }
    }
    if saw_ident_before {
        match delim.as_str() {
            "(" => "call(".into(),
            "{" => "lit{".into(),
            _ => "idx[".into(),
        }
    } else {
        delim
    }
}

/// Chain of enclosing constructs of element index `i` (outermost first), at most `max` innermost
/// entries plus the outermost (item-level) one.
pub fn context_chain(l: &Lexed, i: usize, max: usize) -> String {
    let mut stack: Vec<usize> = vec![];
    for (j, e) in l.els.iter().enumerate() {
        if j >= i {
            break;
        }
        match e.k {
            K::Open => stack.push(j),
            K::Close => {
                stack.pop();
            }
            _ => {}
        }
    }
    let mut names: Vec<String> = stack.iter().map(|&o| introducer(l, o)).collect();
    if names.is_empty() {
        // top level: name the item the position is in (keyword after the last `;`/`}` at depth 0)
        let mut j = i.min(l.els.len());
        let mut kw = String::from("top");
        while j > 0 {
            j -= 1;
            let e = &l.els[j];
            if e.depth != 0 {
                continue;
            }
            let t = l.text(j);
            if (e.k == K::Punct && t == ";") || (e.k == K::Close && t == "}") {
                break;
            }
            if e.k == K::Ident
                && matches!(
                    t,
                    "fn" | "struct" | "enum" | "impl" | "trait" | "abi" | "storage" | "configurable" | "use" | "const" | "mod" | "type"
                )
            {
                kw = format!("{t}-head");
            }
        }
        return kw;
    }
    if names.len() > max + 1 {
        let first = names[0].clone();
        let tail = names.split_off(names.len() - max);
        names = vec![first, "…".into()];
        names.extend(tail);
    }
    names.join(">")
}

/// index of the element containing byte offset `off`, or the next element after it
pub fn el_at(l: &Lexed, off: usize) -> usize {
    for (i, e) in l.els.iter().enumerate() {
        if e.end > off {
            return i;
        }
    }
    l.els.len()
}

pub fn abs_or(l: &Lexed, i: isize) -> String {
    if i < 0 {
        "^".into()
    } else if i as usize >= l.els.len() {
        "$".into()
    } else {
        abs_el(l, i as usize)
    }
}

pub fn count_by<T: Ord + Clone>(items: impl Iterator<Item = T>) -> BTreeMap<T, usize> {
    let mut m = BTreeMap::new();
    for i in items {
        *m.entry(i).or_insert(0) += 1;
    }
    m
}

// ---------------------------------------------------------------------------------------------
// Bounded-exhaustive item grammar

#[derive(Clone, Debug)]
pub struct GenSrc {
    /// family/index, e.g. `fnsig/17`
    pub name: String,
    pub text: String,
}

/// identifier scale: every `$`-marked identifier gets `k` extra characters
pub const SCALES: [usize; 3] = [0, 10, 26];

/// Replace every `$name` (name = [a-zA-Z0-9_]+) by name followed by `k` times 'x' (lower-case
/// names) or 'X' (upper-case initial), so that widths are scaled without changing the structure.
pub fn scale(template: &str, k: usize) -> String {
    let mut out = String::new();
    let b = template.as_bytes();
    let mut i = 0;
    while i < b.len() {
        if b[i] == b'$' {
            let mut j = i + 1;
            while j < b.len() && (b[j].is_ascii_alphanumeric() || b[j] == b'_') {
                j += 1;
            }
            let name = &template[i + 1..j];
            out.push_str(name);
            let upper = name.chars().next().map(|c| c.is_ascii_uppercase()).unwrap_or(false);
            for _ in 0..k {
                out.push(if upper { 'X' } else { 'x' });
            }
            i = j;
        } else {
            // template is ASCII
            out.push(b[i] as char);
            i += 1;
        }
    }
    out
}

pub const GENERICS: [(&str, &str); 4] = [
    ("", ""),
    ("<$T>", ""),
    ("<$T>", " where $T: $Tr"),
    ("<$T, $U>", " where $T: $Tr + $Tr2, $U: $Tr"),
];

pub const STMTS: [&str; 24] = [
    "let $x = $a;",
    "let mut $x: u64 = $a + $b * 2;",
    "$x = $foo($a, $b);",
    "$foo($a, $b).$bar().$baz($a);",
    "if $a == $b { $x = 1; } else { $x = 2; }",
    "while $a < $b { $a = $a + 1; }",
    "let $y = match $a { 0 => $b, 1 | 2 => { $a } _ => $a };",
    "let $s = $S { x: $a, y: $b };",
    "let $t = ($a, $b);",
    "let $arr = [$a, $b, $a];",
    "return $a;",
    "let $c = $a && $b || !$a;",
    "asm(r1: $a, r2) { add r2 r1 r1; r2: u64 };",
    "let $S { x, y } = $s;",
    "storage.$x.write($a);",
    "log($a.$b.$c[0].1);",
    "for $i in $v.iter() { $a = $i; }",
    "if let Some($x) = $a { $b } else { $a };",
    "let $c = $a.$foo() || $b.$bar() && $a.$baz();",
    "require($a == $b && $b == $c && $c == $a, \"msg\");",
    "let $r = match $s { $S { x: true, y: 0, z: (0, 0, 0) } => 1, _ => 0 };",
    "let $v = $Vec::<$T>::new();",
    "let $r = if $a { $b } else if $c { $a } else { 0 };",
    "let $z = ($a + $b) * ($c - 1) / 2 % 3 << 1;",
];

pub const FINALS: [&str; 3] = ["", "$a", "$a + $b"];

pub const USES: [&str; 13] = [
    "use $a;",
    "use $a::$b;",
    "use $a::*;",
    "use $a::$b as $c;",
    "use $a::{$b};",
    "use $a::{$b, $c};",
    "use $a::{$c, $b};",
    "use $a::{$b::{$d, $c}, $e};",
    "use $a::{self, $b};",
    "use ::$a::$b;",
    "pub use $a::$b;",
    "use $a::{$b as $c, $d::*};",
    "use $a::{$b,};",
];

pub const MISC: [&str; 12] = [
    "type $X = u64;",
    "mod $m;",
    "pub mod $m;",
    "#[test]\nfn $f() {}",
    "#[test(should_revert)]\nfn $f() {}",
    "#[cfg(experimental_new_encoding = true)]\nfn $f() {}",
    "/// doc\nfn $f() {}",
    "/// doc\n/// doc2\n#[inline(never)]\npub fn $f() {}",
    "#[storage(read, write)]\nfn $f() {}",
    "#[allow(dead_code)]\nconst $C: u64 = 1;",
    "type $X = ($A, [$B; 2]);",
    "#[test]\n#[inline(always)]\nfn $f() {}",
];

/// items used for the two-item files (spacing between items)
pub const PAIR_ITEMS: [&str; 10] = [
    "use a::b;",
    "const C: u64 = 1;",
    "fn f() {}",
    "struct S { a: u64 }",
    "enum E { A: () }",
    "impl S { fn f() {} }",
    "trait T { fn f(); }",
    "abi A { fn f(); }",
    "storage { a: u64 = 0 }",
    "configurable { A: u64 = 1 }",
];

pub const LADDERS: [&str; 16] = [
    "fn @(a: u64, b: u64) -> u64 { a }",
    "fn f() { let x = foo(@, b, c); }",
    "fn f() { let s = S { x: @, y: b }; }",
    "fn f() { let a = [@, b, c]; }",
    "fn f() { let x = a.@().bar().baz(); }",
    "fn f() { let x = if @ { a } else { b }; }",
    "use a::{@, b};",
    "struct S { @: u64, b: bool }",
    "const @: u64 = a + b;",
    "fn f() { let x = @ || b.foo() && c.bar(); }",
    "fn f<T>(a: T) where T: @ {}",
    "fn f() { match a { S { x: @, y: 0 } => 1, _ => 0 } }",
    "enum E { @: u64, B: () }",
    "#[storage(@, write)]\nfn f() {}",
    "impl @ for S {}",
    "fn f() { require(@ == b && b == c, \"m\"); }",
];
pub const LADDER_MAX: usize = 70;

fn closed_form_count() -> usize {
    let sc = SCALES.len();
    let fnsig = 2 * GENERICS.len() * 4 * 3 * 2 * sc;
    let n = STMTS.len();
    let fnbody = (1 + n) * FINALS.len() * sc + n * n * FINALS.len();
    let structs = 2 * GENERICS.len() * 4 * 2 * sc;
    let enums = structs;
    let impls = 4 * 5 * sc;
    let traits = 2 * 2 * 3 * 6 * 2 * sc;
    let abis = 2 * 4 * 2 * sc;
    let uses = USES.len() * sc;
    let consts = 2 * 2 * 6 * sc;
    let storage = 6 * 2 * sc;
    let configurable = 4 * 2 * sc;
    let misc = MISC.len() * sc;
    let pairs = PAIR_ITEMS.len() * PAIR_ITEMS.len() * 3;
    let ladders = LADDERS.len() * (LADDER_MAX + 1);
    fnsig + fnbody + structs + enums + impls + traits + abis + uses + consts + storage + configurable + misc + pairs + ladders
}

/// All sources of the item grammar. Returns (sources, closed-form count).
pub fn generated() -> (Vec<GenSrc>, usize) {
    let mut out: Vec<GenSrc> = vec![];
    let mut fam_n: BTreeMap<String, usize> = BTreeMap::new();
    let mut push = |fam: &str, header: &str, tpl: &str, k: usize| {
        let c = fam_n.entry(fam.to_string()).or_insert(0);
        let n = *c;
        *c += 1;
        out.push(GenSrc {
            name: format!("{fam}/{n}"),
            text: format!("{header}\n{}\n", scale(tpl, k)),
        });
    };
    let lib = "library;";
    let con = "contract;";
    // fn signatures
    for k in SCALES {
        for vis in ["", "pub "] {
            for (g, w) in GENERICS {
                for params in ["", "$a: u64", "$a: u64, $b: bool", "ref mut $a: u64, $b: (u64, bool), $c: [u8; 3]"] {
                    for ret in ["", " -> u64", " -> (u64, $Bool)"] {
                        for body in ["{}", "{ 1 }"] {
                            push("fnsig", lib, &format!("{vis}fn $f{g}({params}){ret}{w} {body}"), k);
                        }
                    }
                }
            }
        }
    }
    // fn bodies: statement lists of length <= 1 at every scale, length 2 at scale 0
    for k in SCALES {
        for fin in FINALS {
            push("fnbody", lib, &format!("fn f($a: u64, $b: u64) -> u64 {{ {fin} }}"), k);
            for s in STMTS {
                push("fnbody", lib, &format!("fn f($a: u64, $b: u64) -> u64 {{ {s} {fin} }}"), k);
            }
        }
    }
    for fin in FINALS {
        for s1 in STMTS {
            for s2 in STMTS {
                push("fnbody2", lib, &format!("fn f($a: u64, $b: u64) -> u64 {{ {s1} {s2} {fin} }}"), 0);
            }
        }
    }
    // struct / enum
    for k in SCALES {
        for vis in ["", "pub "] {
            for (g, w) in GENERICS {
                for fields in ["", "$a: u64", "$a: u64, pub $b: $Vec<$T>", "$a: u64, $bb: (u64, bool), $ccc: [u8; 3]"] {
                    for tc in ["", ","] {
                        let tc = if fields.is_empty() { "" } else { tc };
                        push("struct", lib, &format!("{vis}struct $S{g}{w} {{ {fields}{tc} }}"), k);
                    }
                }
            }
        }
    }
    for k in SCALES {
        for vis in ["", "pub "] {
            for (g, w) in GENERICS {
                for fields in ["", "$A: ()", "$A: u64, $B: $Vec<$T>", "$A: (), $Bb: (u64, bool), $Ccc: [u8; 3]"] {
                    for tc in ["", ","] {
                        let tc = if fields.is_empty() { "" } else { tc };
                        push("enum", lib, &format!("{vis}enum $E{g}{w} {{ {fields}{tc} }}"), k);
                    }
                }
            }
        }
    }
    // impl
    for k in SCALES {
        for head in ["impl $S", "impl<$T> $S<$T>", "impl $Tr for $S", "impl<$T> $Tr<$T> for $S<$T> where $T: $Tr2"] {
            for items in [
                "",
                "fn $f(self) -> u64 { 1 }",
                "const $C: u64 = 1; fn $f() {}",
                "fn $f(self) {} pub fn $g(ref mut self, $a: u64) { self.$a = $a; }",
                "type $X = u64; fn $f() -> Self::$X { 1 }",
            ] {
                push("impl", lib, &format!("{head} {{ {items} }}"), k);
            }
        }
    }
    // trait
    for k in SCALES {
        for vis in ["", "pub "] {
            for g in ["", "<$T>"] {
                for sup in ["", ": $A", ": $A + $B"] {
                    for items in [
                        "",
                        "fn $f(self);",
                        "fn $f(self) -> u64; fn $g();",
                        "type $X;",
                        "const $C: u64;",
                        "type $X; fn $f() -> Self::$X;",
                    ] {
                        for prov in ["", " { fn $h(self) {} }"] {
                            push("trait", lib, &format!("{vis}trait $Tr{g}{sup} {{ {items} }}{prov}"), k);
                        }
                    }
                }
            }
        }
    }
    // abi
    for k in SCALES {
        for sup in ["", ": $A"] {
            for items in [
                "",
                "fn $f($a: u64) -> u64;",
                "#[storage(read)] fn $f() -> u64; #[storage(read, write)] #[payable] fn $g($a: u64);",
                "/// doc\n fn $f();",
            ] {
                for prov in ["", " { fn $h() {} }"] {
                    push("abi", con, &format!("abi $Abi{sup} {{ {items} }}{prov}"), k);
                }
            }
        }
    }
    for k in SCALES {
        for u in USES {
            push("use", lib, u, k);
        }
    }
    for k in SCALES {
        for vis in ["", "pub "] {
            for ty in ["", ": u64"] {
                for val in ["1", "$a + $b", "$S { x: 1 }", "[1, 2, 3]", "\"str\"", "$foo($a, $b)"] {
                    push("const", lib, &format!("{vis}const $C{ty} = {val};"), k);
                }
            }
        }
    }
    for k in SCALES {
        for fields in [
            "",
            "$a: u64 = 0",
            "$a: u64 = 0, $bb: bool = false",
            "$ns { $a: u64 = 0 }",
            "$a in 0x0000000000000000000000000000000000000000000000000000000000000001: u64 = 0",
            "$a: $S = $S { x: 1, y: 2 }, $m: StorageMap<u64, bool> = StorageMap {}",
        ] {
            for tc in ["", ","] {
                let tc = if fields.is_empty() { "" } else { tc };
                push("storage", con, &format!("storage {{ {fields}{tc} }}"), k);
            }
        }
    }
    for k in SCALES {
        for fields in ["", "$A: u64 = 1", "$A: u64 = 1, $Bb: bool = true", "$A: $S = $S { x: 1, y: 2 }"] {
            for tc in ["", ","] {
                let tc = if fields.is_empty() { "" } else { tc };
                push("configurable", con, &format!("configurable {{ {fields}{tc} }}"), k);
            }
        }
    }
    for k in SCALES {
        for m in MISC {
            push("misc", lib, m, k);
        }
    }
    for a in PAIR_ITEMS {
        for b in PAIR_ITEMS {
            for sep in ["\n", "\n\n", "\n\n\n"] {
                push("pair", con, &format!("{a}{sep}{b}"), 0);
            }
        }
    }
    for l in LADDERS {
        for k in 0..=LADDER_MAX {
            let name = if l.starts_with("impl") || l.starts_with("fn f<T>") || l.starts_with("enum") {
                format!("A{}", "b".repeat(k))
            } else {
                format!("a{}", "b".repeat(k))
            };
            push("ladder", lib, &l.replace('@', &name), 0);
        }
    }
    let n = closed_form_count();
    (out, n)
}

// ---------------------------------------------------------------------------------------------
// C19 comparator: token sequences modulo whitespace and the documented cosmetic rewrites

#[derive(Clone, Debug)]
pub enum Node {
    Tok {
        k: K,
        text: String,
        /// index into `Lexed::els`
        idx: usize,
        joint: bool,
    },
    Group {
        open: char,
        items: Vec<Node>,
        idx_open: usize,
        idx_close: usize,
    },
}

impl Node {
    fn is_punct(&self, p: &str) -> bool {
        matches!(self, Node::Tok { k: K::Punct, text, .. } if text == p)
    }
    fn is_ident(&self, p: &str) -> bool {
        matches!(self, Node::Tok { k: K::Ident, text, .. } if text == p)
    }
    fn is_group(&self, c: char) -> bool {
        matches!(self, Node::Group { open, .. } if *open == c)
    }
    fn first_idx(&self) -> usize {
        match self {
            Node::Tok { idx, .. } => *idx,
            Node::Group { idx_open, .. } => *idx_open,
        }
    }
}

/// Token tree of the non-comment elements.
pub fn tree(l: &Lexed) -> Vec<Node> {
    fn go(l: &Lexed, i: &mut usize) -> Vec<Node> {
        let mut v = vec![];
        while *i < l.els.len() {
            let e = &l.els[*i];
            match e.k {
                K::Comment => {
                    *i += 1;
                }
                K::Open => {
                    let io = *i;
                    *i += 1;
                    let items = go(l, i);
                    let ic = (*i).min(l.els.len() - 1);
                    *i += 1;
                    v.push(Node::Group {
                        open: l.text(io).chars().next().unwrap(),
                        items,
                        idx_open: io,
                        idx_close: ic,
                    });
                }
                K::Close => return v,
                _ => {
                    v.push(Node::Tok {
                        k: e.k,
                        text: l.text(*i).to_string(),
                        idx: *i,
                        joint: e.joint,
                    });
                    *i += 1;
                }
            }
        }
        v
    }
    let mut i = 0;
    go(l, &mut i)
}

/// A token of the normalised sequence; `idx` points back into `Lexed::els`.
#[derive(Clone, Debug)]
pub struct NTok {
    pub text: String,
    pub idx: usize,
}

/// Two-punct operators whose meaning differs from the two puncts written apart. `>` `>` is left
/// out on purpose (closing two generic argument lists: `Vec<Vec<u8> >` == `Vec<Vec<u8>>`).
const COMPOUNDS: &[(&str, &str)] = &[
    (":", ":"), ("-", ">"), ("=", ">"), ("=", "="), ("!", "="), ("<", "="), (">", "="), ("&", "&"), ("|", "|"),
    ("<", "<"), ("+", "="), ("-", "="), ("*", "="), ("/", "="), (".", "."),
];

fn top_level_commas(items: &[Node]) -> usize {
    items.iter().filter(|n| n.is_punct(",")).count()
}

/// N4 helper: tokens that may appear in a type
fn type_like(items: &[Node]) -> bool {
    let mut angle: i32 = 0;
    for n in items {
        match n {
            Node::Tok { k: K::Ident, .. } => {}
            Node::Tok { k: K::Punct, text, .. } => match text.as_str() {
                ":" | "&" | "," | "_" => {}
                "<" => angle += 1,
                ">" => {
                    angle -= 1;
                    if angle < 0 {
                        return false;
                    }
                }
                _ => return false,
            },
            Node::Tok { .. } => return false,
            Node::Group { open: '(', items, .. } => {
                if !type_like(items) {
                    return false;
                }
            }
            Node::Group { open: '[', items, .. } => {
                // [T; n] or [T]
                let t: Vec<Node> = items.iter().take_while(|n| !n.is_punct(";")).cloned().collect();
                if !type_like(&t) {
                    return false;
                }
            }
            Node::Group { .. } => return false,
        }
    }
    angle == 0
}

fn emit(n: &Node, out: &mut Vec<NTok>) {
    match n {
        Node::Tok { text, idx, .. } => out.push(NTok {
            text: text.clone(),
            idx: *idx,
        }),
        Node::Group { open, items, idx_open, idx_close } => {
            out.push(NTok {
                text: open.to_string(),
                idx: *idx_open,
            });
            norm_stream(items, Some(*open), false, out);
            let close = match open {
                '(' => ")",
                '[' => "]",
                _ => "}",
            };
            out.push(NTok {
                text: close.to_string(),
                idx: *idx_close,
            });
        }
    }
}

/// Render one `use` tree element list (the contents of a `{…}` group inside a `use`) in canonical
/// form: elements sorted, single-element groups unbraced.
fn norm_use_group(items: &[Node], out: &mut Vec<NTok>) {
    // split at top-level commas
    let mut elems: Vec<Vec<NTok>> = vec![];
    let mut cur: Vec<NTok> = vec![];
    for n in items {
        if n.is_punct(",") {
            if !cur.is_empty() {
                elems.push(std::mem::take(&mut cur));
            }
            continue;
        }
        norm_use_node(n, &mut cur);
    }
    if !cur.is_empty() {
        elems.push(cur);
    }
    elems.sort_by_key(|e| e.iter().map(|t| t.text.clone()).collect::<Vec<_>>().join(" "));
    let idx0 = items.first().map(|n| n.first_idx()).unwrap_or(0);
    if elems.len() == 1 {
        // N3b: `use a::{b};` == `use a::b;` (swayfmt test item_use::single_import_without_braces)
        out.extend(elems.pop().unwrap());
        return;
    }
    out.push(NTok { text: "{".into(), idx: idx0 });
    let n = elems.len();
    for (i, e) in elems.into_iter().enumerate() {
        out.extend(e);
        if i + 1 < n {
            out.push(NTok { text: ",".into(), idx: idx0 });
        }
    }
    out.push(NTok { text: "}".into(), idx: idx0 });
}

fn norm_use_node(n: &Node, out: &mut Vec<NTok>) {
    match n {
        Node::Group { open: '{', items, .. } => norm_use_group(items, out),
        _ => emit(n, out),
    }
}

/// Normalise one token stream (the contents of a group, or the top level).
///
/// Rules (each is a documented cosmetic rewrite of swayfmt, applied to BOTH sides):
/// * N1 trailing comma before a closing delimiter is dropped — except the comma of a 1-tuple
///   `(a,)`. swayfmt tests: items/item_struct/tests.rs `struct_trailing_comma…`, item_use tests
///   `…_with_trailing_comma`, items/item_enum/tests.rs, utils/language/expr/tests.rs (multi-line
///   calls/arrays/struct literals get a trailing comma, single-line ones lose it).
/// * N2 a comma after the last `where` bound (before the `{` body or `;`) — swayfmt
///   utils/language/where_clause.rs always writes `T: Bound,\n` per bound (tests in
///   items/item_fn/tests.rs `fn_with_where…`, item_trait tests).
/// * N3 inside a `use` statement: order of the elements of a `{…}` group (item_use tests
///   `single_line_sort`, `multiline…out_of_order`) and braces of a single-element group
///   (`single_import_without_braces`).
/// * N4 parentheses around a single type: the parser itself drops them (`sway-parse/src/ty/mod.rs`:
///   "only patterns of (ty) are parsed as ty"), so the formatter cannot print them.
fn norm_stream(items: &[Node], enclosing: Option<char>, _in_use: bool, out: &mut Vec<NTok>) {
    let n = items.len();
    let mut in_where = false;
    let mut in_use = false;
    let mut i = 0;
    while i < n {
        let it = &items[i];
        // N3
        if it.is_ident("use") {
            in_use = true;
        }
        if it.is_punct(";") {
            in_use = false;
        }
        if in_use && it.is_group('{') {
            norm_use_node(it, out);
            i += 1;
            continue;
        }
        // N2
        if it.is_ident("where") {
            in_where = true;
        }
        if it.is_punct(",") {
            let last = i + 1 == n;
            // N1
            if last && enclosing.is_some() {
                let one_tuple = enclosing == Some('(') && top_level_commas(items) == 1;
                if !one_tuple {
                    i += 1;
                    continue;
                }
            }
            // N2
            if in_where && i + 1 < n && (items[i + 1].is_group('{') || items[i + 1].is_punct(";")) {
                i += 1;
                continue;
            }
        }
        if it.is_group('{') || it.is_punct(";") {
            in_where = false;
        }
        // N4
        if let Node::Group { open: '(', items: inner, .. } = it {
            let prev_ok = if i == 0 {
                matches!(enclosing, Some('(') | Some('['))
            } else {
                let p = &items[i - 1];
                p.is_punct(">") && i >= 2 && items[i - 2].is_punct("-")
                    || (p.is_punct(":") && !(i >= 2 && items[i - 2].is_punct(":")))
                    || p.is_punct("<")
                    || p.is_punct(",")
                    || p.is_punct("=") && i >= 3 && items[..i - 1].iter().rev().take(8).any(|x| x.is_ident("type"))
                    || p.is_ident("as")
                    || p.is_ident("for")
            };
            let next_ok = if i + 1 == n {
                true
            } else {
                let q = &items[i + 1];
                q.is_punct(",") || q.is_punct(">") || q.is_group('{') || q.is_punct(";") || q.is_punct("=") || q.is_ident("where") || q.is_ident("for")
            };
            let single = top_level_commas(inner) == 0 && !inner.is_empty();
            if prev_ok && next_ok && single && type_like(inner) {
                norm_stream(inner, None, false, out);
                i += 1;
                continue;
            }
        }
        // compound puncts
        if let Node::Tok { k: K::Punct, text, idx, joint } = it {
            let mut t = text.clone();
            if *joint && i + 1 < n {
                if let Node::Tok { k: K::Punct, text: t2, .. } = &items[i + 1] {
                    if COMPOUNDS.contains(&(text.as_str(), t2.as_str())) {
                        t.push('~'); // "glued to the next punct"
                    }
                }
            }
            out.push(NTok { text: t, idx: *idx });
            i += 1;
            continue;
        }
        if let Node::Tok { k: K::Doc, text, idx, .. } = it {
            out.push(NTok { text: text.trim_end().to_string(), idx: *idx });
            i += 1;
            continue;
        }
        emit(it, out);
        i += 1;
    }
}

pub fn normalised(l: &Lexed) -> Vec<NTok> {
    let t = tree(l);
    let mut out = vec![];
    norm_stream(&t, None, false, &mut out);
    out
}

/// Result of comparing the tokens of an input with those of the formatter's output.
#[derive(Clone, Debug)]
pub struct TokDiff {
    /// index of the first differing token in the normalised input sequence
    pub at: usize,
    pub removed: Vec<NTok>,
    pub added: Vec<NTok>,
}

pub fn token_diff(x: &[NTok], a: &[NTok]) -> Option<TokDiff> {
    let mut i = 0;
    while i < x.len() && i < a.len() && x[i].text == a[i].text {
        i += 1;
    }
    if i == x.len() && i == a.len() {
        return None;
    }
    let mut xe = x.len();
    let mut ae = a.len();
    while xe > i && ae > i && x[xe - 1].text == a[ae - 1].text {
        xe -= 1;
        ae -= 1;
    }
    Some(TokDiff {
        at: i,
        removed: x[i..xe].to_vec(),
        added: a[i..ae].to_vec(),
    })
}

fn abs_ntok(l: &Lexed, t: &NTok) -> String {
    let a = abs_el(l, t.idx);
    // normalised texts that are not the element's own text (e.g. `:~`) keep their own form
    if l.text(t.idx) == t.text || l.els[t.idx].k == K::Doc {
        a
    } else {
        t.text.clone()
    }
}

/// class key for a token difference: construct at the first differing input token + abstracted
/// removed/added tokens (first 5 of each)
pub fn classify_token_diff(x: &Lexed, a: &Lexed, nx: &[NTok], d: &TokDiff) -> String {
    let pos = if d.at < nx.len() { nx[d.at].idx } else { x.els.len() };
    let ctx = context_chain(x, pos, 1);
    // token split by a misplaced newline: one input token == two output tokens glued
    if let (Some(r), true) = (d.removed.first(), d.added.len() >= 2) {
        let glued = format!("{}{}", d.added[0].text.trim_end_matches('~'), d.added[1].text.trim_end_matches('~'));
        if r.text.trim_end_matches('~') == glued && x.els[r.idx].k != K::Punct {
            return format!("token-split|{}", abs_el(x, r.idx));
        }
    }
    let rem: Vec<String> = d.removed.iter().take(5).map(|t| abs_ntok(x, t)).collect();
    let add: Vec<String> = d.added.iter().take(5).map(|t| abs_ntok(a, t)).collect();
    let prev = if d.at > 0 && d.at - 1 < nx.len() { abs_ntok(x, &nx[d.at - 1]) } else { "^".into() };
    format!("{ctx}|after {prev}|-[{}]|+[{}]", rem.join(" "), add.join(" "))
}

/// Difference of two ordered comment lists: (lost, gained) as indices into x / a comment lists,
/// computed by a longest-common-subsequence alignment. Both empty + lists different cannot happen.
pub fn comment_diff(x: &[String], a: &[String]) -> (Vec<usize>, Vec<usize>) {
    let (n, m) = (x.len(), a.len());
    let mut t = vec![vec![0u32; m + 1]; n + 1];
    for i in (0..n).rev() {
        for j in (0..m).rev() {
            t[i][j] = if x[i] == a[j] { t[i + 1][j + 1] + 1 } else { t[i + 1][j].max(t[i][j + 1]) };
        }
    }
    let (mut i, mut j) = (0, 0);
    let (mut lost, mut gained) = (vec![], vec![]);
    while i < n && j < m {
        if x[i] == a[j] {
            i += 1;
            j += 1;
        } else if t[i + 1][j] >= t[i][j + 1] {
            lost.push(i);
            i += 1;
        } else {
            gained.push(j);
            j += 1;
        }
    }
    lost.extend(i..n);
    gained.extend(j..m);
    (lost, gained)
}

/// indices (into els) of the comment elements
pub fn comment_idxs(l: &Lexed) -> Vec<usize> {
    (0..l.els.len()).filter(|&i| l.els[i].k == K::Comment).collect()
}

/// prev/next non-comment neighbours of element i, abstracted
pub fn neighbours(l: &Lexed, i: usize) -> (String, String) {
    let mut p = i as isize - 1;
    while p >= 0 && l.els[p as usize].k == K::Comment {
        p -= 1;
    }
    let mut q = i + 1;
    while q < l.els.len() && l.els[q].k == K::Comment {
        q += 1;
    }
    (abs_or(l, p), abs_or(l, q as isize))
}

//! Input spaces of C16 (lexer/parser robustness): alphabets, shard enumeration with random access
//! (so that a watchdog can name the input a worker was processing), a repo-independent tokenizer
//! for corpus files and the first-order deviations of a corpus file.
//!
//! Everything here is deterministic and exhaustive over the declared space; nothing is sampled.

use serde_json::{json, Value};
use std::path::PathBuf;

/// (1) 26 symbols chosen from the lexer's decision points. Multi-char entries are one symbol.
pub const CHARS26: [&str; 26] = [
    "\"", "'", "\\", "/", "*", "0", "1", "x", "b", "_", ".", "e", "é", "😀", "\n", "{", ")", "u8",
    "r#", "!", "<", ">", "-", "=", ":", " ",
];

/// (2a) 30-token core alphabet (each token is followed by one space when joined).
pub const TOK30: [&str; 30] = [
    "fn", "struct", "impl", "use", "let", "if", "match", "pub", "const", "x", "{", "}", "(", ")",
    "[", "]", "::", "=>", ",", ";", ":", "=", "<", ">", ".", "&", "0u8", "\"s\"", "/// d\n",
    "#[test]",
];

/// (2b) wide token alphabet: every reserved keyword, every punctuation kind, literal variants
/// (good and malformed suffixes/prefixes), comments, doc comments, attributes, raw / reserved
/// identifiers, a non-ASCII identifier.
pub const TOKWIDE: [&str; 90] = [
    // keywords
    "script", "contract", "predicate", "library", "mod", "pub", "use", "as", "struct", "enum",
    "self", "Self", "fn", "trait", "impl", "for", "abi", "const", "storage", "str", "asm",
    "return", "if", "else", "match", "mut", "let", "while", "where", "ref", "true", "false",
    "break", "continue", "configurable", "type", "panic", "class", "in",
    // identifiers
    "x", "u64", "__x", "r#fn", "é", "_",
    // delimiters
    "{", "}", "(", ")", "[", "]",
    // punctuation
    "::", "=>", "->", "..", ",", ";", ":", "=", "==", "<", ">", ".", "&", "|", "!", "-", "*", "+",
    "/", "%", "^", "#", "#!",
    // literals
    "0", "0u8", "1_x", "0x", "0x1u8", "0b2", "1_", "\"s\"", "'c'", "'ab'",
    // comments / attributes
    "/// d\n", "//! d\n", "// c\n", "/* c */", "#[test]", "#[cfg(x = \"y\")]",
];

/// (4) bodies of char / string literals: escape-code decision points of `parse_escape_code`.
pub const ESC21: [&str; 21] = [
    "a", "é", "😀", "\\n", "\\0", "\\x41", "\\x4", "\\xg1", "\\u{e9}", "\\u{110000}", "\\u{d800}",
    "\\u{fffffffff}", "\\u{", "\\u", "\\q", "\\\\", "'", "\"", "\\", "\u{202E}", "\n",
];

/// Replacement tokens of the corpus deviations.
pub const REPL8: [&str; 8] = ["{", "}", "(", ")", "[", "]", "fn", "let"];

#[derive(Clone, Copy, Debug, PartialEq, Eq, Hash, PartialOrd, Ord)]
pub enum Alpha {
    Chars26,
    Tok30,
    TokWide,
    Esc21,
}

impl Alpha {
    pub fn name(&self) -> &'static str {
        match self {
            Alpha::Chars26 => "chars26",
            Alpha::Tok30 => "tok30",
            Alpha::TokWide => "tokwide",
            Alpha::Esc21 => "esc21",
        }
    }
    pub fn from_name(s: &str) -> Option<Alpha> {
        Some(match s {
            "chars26" => Alpha::Chars26,
            "tok30" => Alpha::Tok30,
            "tokwide" => Alpha::TokWide,
            "esc21" => Alpha::Esc21,
            _ => return None,
        })
    }
    pub fn symbols(&self) -> &'static [&'static str] {
        match self {
            Alpha::Chars26 => &CHARS26,
            Alpha::Tok30 => &TOK30,
            Alpha::TokWide => &TOKWIDE,
            Alpha::Esc21 => &ESC21,
        }
    }
    /// Number of inputs generated per symbol sequence (contexts / wrappers).
    pub fn variants(&self) -> u64 {
        match self {
            Alpha::Chars26 => 1,
            Alpha::Tok30 | Alpha::TokWide => 4,
            Alpha::Esc21 => 8,
        }
    }
    /// Build variant `v` of the symbol sequence `idx` into `out`.
    pub fn build(&self, idx: &[usize], v: u64, out: &mut String) {
        out.clear();
        let syms = self.symbols();
        match self {
            Alpha::Chars26 => {
                for &i in idx {
                    out.push_str(syms[i]);
                }
            }
            Alpha::Tok30 | Alpha::TokWide => {
                // contexts: bare, item position, statement position, impl-item position
                let (pre, post) = match v {
                    0 => ("", ""),
                    1 => ("script; ", ""),
                    2 => ("script; fn f() { ", "}"),
                    _ => ("script; impl T { ", "}"),
                };
                out.push_str(pre);
                for &i in idx {
                    out.push_str(syms[i]);
                    out.push(' ');
                }
                out.push_str(post);
            }
            Alpha::Esc21 => {
                // bit0: quote kind, bit1: closed, bit2: trailing multi-byte char
                let q = if v & 1 == 0 { '\'' } else { '"' };
                out.push(q);
                for &i in idx {
                    out.push_str(syms[i]);
                }
                if v & 2 != 0 {
                    out.push(q);
                }
                if v & 4 != 0 {
                    out.push('é');
                }
            }
        }
    }
}

/// One unit of work. Inputs inside a shard are numbered `0..count()`; `for_each` can start
/// anywhere, so `(shard, seq)` names an input.
#[derive(Clone, Debug)]
pub enum Shard {
    /// all symbol sequences of length `len` with the given prefix, times the alphabet's variants
    Seqs {
        alpha: Alpha,
        len: usize,
        prefix: Vec<usize>,
    },
    /// the corpus file itself and all its first-order deviations
    File { path: PathBuf },
}

impl Shard {
    pub fn to_json(&self) -> Value {
        match self {
            Shard::Seqs { alpha, len, prefix } => {
                json!({"alpha": alpha.name(), "len": len, "prefix": prefix})
            }
            Shard::File { path } => json!({"file": path.to_string_lossy()}),
        }
    }
    pub fn from_json(v: &Value) -> Option<Shard> {
        if let Some(f) = v["file"].as_str() {
            return Some(Shard::File {
                path: PathBuf::from(f),
            });
        }
        Some(Shard::Seqs {
            alpha: Alpha::from_name(v["alpha"].as_str()?)?,
            len: v["len"].as_u64()? as usize,
            prefix: v["prefix"]
                .as_array()?
                .iter()
                .map(|x| x.as_u64().unwrap_or(0) as usize)
                .collect(),
        })
    }
    pub fn space(&self) -> &'static str {
        match self {
            Shard::Seqs { alpha, .. } => alpha.name(),
            Shard::File { .. } => "corpus",
        }
    }
}

/// Closed-form number of inputs of a `Seqs` shard.
pub fn seqs_count(alpha: Alpha, len: usize, prefix_len: usize) -> u64 {
    (alpha.symbols().len() as u64).pow((len - prefix_len) as u32) * alpha.variants()
}

/// Enumerate the inputs `start..end` of a `Seqs` shard (odometer order, variants innermost).
/// `f(seq, symbol indices, variant, text)` returns false to stop.
pub fn for_each_seq(
    alpha: Alpha,
    len: usize,
    prefix: &[usize],
    start: u64,
    end: u64,
    f: &mut dyn FnMut(u64, &[usize], u64, &str) -> bool,
) {
    assert!(prefix.len() <= len);
    let k = alpha.symbols().len() as u64;
    let nv = alpha.variants();
    let total = seqs_count(alpha, len, prefix.len());
    let end = end.min(total);
    if start >= end {
        return;
    }
    // decode start / nv into the free digits
    let mut idx: Vec<usize> = prefix.to_vec();
    idx.resize(len, 0);
    let mut r = start / nv;
    for p in (prefix.len()..len).rev() {
        idx[p] = (r % k) as usize;
        r /= k;
    }
    let mut v = start % nv;
    let mut seq = start;
    let mut buf = String::new();
    loop {
        alpha.build(&idx, v, &mut buf);
        if !f(seq, &idx, v, &buf) {
            return;
        }
        seq += 1;
        if seq >= end {
            return;
        }
        v += 1;
        if v < nv {
            continue;
        }
        v = 0;
        let mut p = len;
        loop {
            if p == prefix.len() {
                return;
            }
            p -= 1;
            idx[p] += 1;
            if (idx[p] as u64) < k {
                break;
            }
            idx[p] = 0;
        }
    }
}

// ---------------------------------------------------------------------------------------------
// Corpus files: a simple tokenizer that does not depend on the lexer under test

/// Byte ranges of the tokens of `s`: identifiers/numbers, string literals, char literals, line and
/// block comments (each one token), a few glued two-char operators, every other non-space char.
pub fn tokenize(s: &str) -> Vec<(usize, usize)> {
    const GLUED: [&str; 16] = [
        "::", "=>", "->", "==", "!=", "<=", ">=", "&&", "||", "+=", "-=", "*=", "/=", "..", "<<",
        ">>",
    ];
    let b = s.as_bytes();
    let n = b.len();
    let mut out = vec![];
    let mut i = 0;
    let next_char_len = |i: usize| s[i..].chars().next().map(|c| c.len_utf8()).unwrap_or(1);
    while i < n {
        let c = s[i..].chars().next().unwrap();
        if c.is_whitespace() {
            i += c.len_utf8();
            continue;
        }
        let st = i;
        if s[i..].starts_with("//") {
            while i < n && b[i] != b'\n' {
                i += 1;
            }
        } else if s[i..].starts_with("/*") {
            match s[i + 2..].find("*/") {
                Some(p) => i = i + 2 + p + 2,
                None => i = n,
            }
        } else if c == '"' {
            i += 1;
            while i < n && b[i] != b'"' {
                if b[i] == b'\\' && i + 1 < n {
                    i += 1 + next_char_len(i + 1);
                } else {
                    i += next_char_len(i);
                }
            }
            i = (i + 1).min(n);
        } else if c == '\'' {
            // 'x' or '\x' (any escape up to the next quote within 12 bytes), else a lone quote
            let rest = &s[i + 1..];
            let mut it = rest.char_indices();
            let mut e = None;
            if let Some((_, c1)) = it.next() {
                if c1 == '\\' {
                    if let Some(p) = rest[1..].find('\'') {
                        if p >= 1 && p <= 12 {
                            e = Some(i + 1 + 1 + p + 1);
                        }
                    }
                } else if c1 != '\'' {
                    if let Some((p2, '\'')) = it.next() {
                        e = Some(i + 1 + p2 + 1);
                    }
                }
            }
            i = e.unwrap_or(i + 1);
        } else if c.is_alphanumeric() || c == '_' {
            while i < n {
                let d = s[i..].chars().next().unwrap();
                if d.is_alphanumeric() || d == '_' {
                    i += d.len_utf8();
                } else {
                    break;
                }
            }
        } else if let Some(g) = GLUED.iter().find(|g| s[i..].starts_with(**g)) {
            i += g.len();
        } else {
            i += c.len_utf8();
        }
        out.push((st, i));
    }
    out
}

/// Closed-form number of inputs generated for a file with `t` tokens and `chars` characters:
/// the file itself, t deletions, t duplications, t-1 adjacent swaps, 8t replacements and one
/// truncation per char boundary in `0..len` (i.e. one per char).
pub fn file_count(t: u64, chars: u64) -> u64 {
    1 + t + t + t.saturating_sub(1) + 8 * t + chars
}

/// Enumerate inputs `start..end` of a corpus file. `f(seq, description, text)`.
pub fn for_each_file_input(
    text: &str,
    start: u64,
    end: u64,
    f: &mut dyn FnMut(u64, &dyn Fn() -> Value, &str) -> bool,
) {
    let toks = tokenize(text);
    let t = toks.len() as u64;
    let bounds: Vec<usize> = text.char_indices().map(|(i, _)| i).collect();
    let total = file_count(t, bounds.len() as u64);
    let end = end.min(total);
    let mut buf = String::with_capacity(text.len() + 16);
    let tok = |i: u64| &text[toks[i as usize].0..toks[i as usize].1];
    for seq in start..end {
        buf.clear();
        let mut s = seq;
        let descr: Value;
        if s == 0 {
            buf.push_str(text);
            descr = json!({"mutation": "none"});
        } else {
            s -= 1;
            let o3 = 2 * t + t.saturating_sub(1);
            let o4 = o3 + 8 * t;
            if s < t {
                let (a, b) = toks[s as usize];
                buf.push_str(&text[..a]);
                buf.push_str(&text[b..]);
                descr = json!({"mutation": "delete", "token": s, "text": tok(s)});
            } else if s < 2 * t {
                let i = s - t;
                let (a, b) = toks[i as usize];
                buf.push_str(&text[..b]);
                buf.push(' ');
                buf.push_str(&text[a..]);
                descr = json!({"mutation": "duplicate", "token": i, "text": tok(i)});
            } else if s < o3 {
                let i = s - 2 * t;
                let (a, b) = toks[i as usize];
                let (c, d) = toks[i as usize + 1];
                buf.push_str(&text[..a]);
                buf.push_str(&text[c..d]);
                buf.push_str(&text[b..c]);
                buf.push_str(&text[a..b]);
                buf.push_str(&text[d..]);
                descr = json!({"mutation": "swap", "token": i, "text": [tok(i), tok(i + 1)]});
            } else if s < o4 {
                let j = s - o3;
                let (i, r) = (j / 8, (j % 8) as usize);
                let (a, b) = toks[i as usize];
                buf.push_str(&text[..a]);
                buf.push_str(REPL8[r]);
                buf.push_str(&text[b..]);
                descr = json!({"mutation": "replace", "token": i, "text": tok(i), "by": REPL8[r]});
            } else {
                let j = s - o4;
                let cut = bounds[j as usize];
                buf.push_str(&text[..cut]);
                descr = json!({"mutation": "truncate", "byte": cut});
            }
        }
        if !f(seq, &|| descr.clone(), &buf) {
            return;
        }
    }
}

#[cfg(test)]
mod tests {
    use super::*;

    #[test]
    fn seq_counts_and_random_access() {
        for alpha in [Alpha::Chars26, Alpha::Tok30, Alpha::Esc21] {
            let mut all = vec![];
            for_each_seq(alpha, 2, &[], 0, u64::MAX, &mut |seq, _, _, s| {
                assert_eq!(seq as usize, all.len());
                all.push(s.to_string());
                true
            });
            assert_eq!(all.len() as u64, seqs_count(alpha, 2, 0));
            for st in [0u64, 1, 7, 29, 100, all.len() as u64 - 1] {
                let mut got = None;
                for_each_seq(alpha, 2, &[], st, st + 1, &mut |seq, _, _, s| {
                    got = Some((seq, s.to_string()));
                    true
                });
                assert_eq!(got, Some((st, all[st as usize].clone())));
            }
        }
    }

    #[test]
    fn file_inputs() {
        let text = "fn f() { é \"a b\" } // c";
        let toks = tokenize(text);
        let strs: Vec<&str> = toks.iter().map(|&(a, b)| &text[a..b]).collect();
        assert_eq!(strs, vec!["fn", "f", "(", ")", "{", "é", "\"a b\"", "}", "// c"]);
        let mut n = 0;
        for_each_file_input(text, 0, u64::MAX, &mut |seq, _, s| {
            assert_eq!(seq, n);
            assert!(s.len() <= 2 * text.len() + 1);
            n += 1;
            true
        });
        assert_eq!(n, file_count(9, text.chars().count() as u64));
    }
}

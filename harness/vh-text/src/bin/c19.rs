//! C19 — Formatting preserves program meaning (token sequence modulo documented cosmetic
//! rewrites) and comments. Same input space as C18; comparator and classifier in `vh_text::fmtgen`.
use vh_text::fmtgen::*;

const ORACLE: &str = "fmt(x) parses; tokens(fmt(x)) == tokens(x) modulo whitespace and the cosmetic rules N1-N4 (trailing commas, comma after last where bound, use-group order/single-item braces, parentheses around a single type); comments(fmt(x)) == comments(x) as ordered lists; no panic";

fn main() {
    let a = vhcore::parse_args();
    vhcore::silence_panics();
    let code = match a.cmd.as_str() {
        "check" => run_check(&a, ORACLE, c19_check),
        "replay" => replay(&a, c19_check),
        "norm" => {
            let src = std::fs::read_to_string(&a.rest[0]).unwrap();
            let l = lex(&src).unwrap();
            for e in &l.els {
                print!("{}{} ", &src[e.start..e.end], if e.joint { "~" } else { "" });
            }
            println!();
            for t in normalised(&l) {
                print!("{} ", t.text);
            }
            println!();
            0
        }
        "case" => {
            let src = std::fs::read_to_string(&a.rest[0]).unwrap();
            let cfg = config_by_name(a.rest.get(1).map(|s| s.as_str()).unwrap_or("default")).unwrap();
            let o = c19_check(&src, &cfg);
            println!("{o:#?}");
            0
        }
        _ => vhcore::machinery_failure("usage: c19 check C19 --tier quick|thorough | replay C19 <file>"),
    };
    std::process::exit(code);
}

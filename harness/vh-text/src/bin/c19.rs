use vh_text::fmtgen::*;

fn main() {
    let a = vhcore::parse_args();
    vhcore::silence_panics();
    let code = match a.cmd.as_str() {
        "probe" => probe(&a),
        _ => vhcore::machinery_failure("usage"),
    };
    std::process::exit(code);
}

fn probe(a: &vhcore::Args) -> i32 {
    let files = vhcore::corpus_sw_files();
    let cfgs = configs();
    let t = std::time::Instant::now();
    let res = vhcore::par_map(&files, a.jobs, |p| {
        let Ok(src) = std::fs::read_to_string(p) else { return vec![] };
        let mut out = vec![];
        let Some(lx) = lex(&src) else { return vec![format!("UNLEXABLE {}", p.display())] };
        let nx = normalised(&lx);
        for (name, c) in &cfgs {
            if let FmtOut::Ok(f1) = fmt(&src, c) {
                let Some(la) = lex(&f1) else {
                    out.push(format!("OUT-UNLEXABLE {name} {}", p.display()));
                    continue;
                };
                let na = normalised(&la);
                if let Some(d) = token_diff(&nx, &na) {
                    let key = classify_token_diff(&lx, &la, &nx, &d);
                    out.push(format!("TOK {name} {} {key}", p.display()));
                }
                let (cx, ca) = (lx.comments(), la.comments());
                if cx != ca {
                    let (lost, gained) = comment_diff(&cx, &ca);
                    let ci = comment_idxs(&lx);
                    for l in lost.iter().take(3) {
                        let (p0, q0) = neighbours(&lx, ci[*l]);
                        out.push(format!(
                            "COMMENT-LOST {name} {} {} | {p0}^{}^{q0} | {:?}",
                            p.display(),
                            context_chain(&lx, ci[*l], 1),
                            abs_el(&lx, ci[*l]),
                            cx[*l]
                        ));
                    }
                    for g in gained.iter().take(3) {
                        out.push(format!("COMMENT-GAINED {name} {} {:?}", p.display(), ca[*g]));
                    }
                }
                if !parses(&f1) {
                    out.push(format!("OUT-UNPARSEABLE {name} {}", p.display()));
                }
            }
        }
        out
    });
    for o in &res {
        for l in o {
            println!("{l}");
        }
    }
    println!("files={} wall={:?}", files.len(), t.elapsed());
    0
}

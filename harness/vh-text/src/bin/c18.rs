//! C18 — Formatting is idempotent. Bounded-exhaustive: corpus + item grammar + every single
//! comment insertion / whitespace replacement (+ ordered pairs), 5 configurations.
//! The space, the oracle and the classifier live in `vh_text::fmtgen`.
use vh_text::fmtgen::*;

fn main() {
    let a = vhcore::parse_args();
    vhcore::silence_panics();
    let code = match a.cmd.as_str() {
        "check" => run_check(&a, "fmt(x) Ok => fmt(fmt(x)) Ok and == fmt(x); no panic", c18_check),
        "replay" => replay(&a, c18_check),
        // debugging aids: `c18 fmt <file> [config]`, `c18 case <file> [config]`
        "fmt" => {
            let src = std::fs::read_to_string(&a.rest[0]).unwrap();
            let cfg = config_by_name(a.rest.get(1).map(|s| s.as_str()).unwrap_or("default")).unwrap();
            match fmt(&src, &cfg) {
                FmtOut::Ok(s) => {
                    print!("{s}");
                    0
                }
                o => {
                    println!("{o:?}");
                    1
                }
            }
        }
        "case" => {
            let src = std::fs::read_to_string(&a.rest[0]).unwrap();
            let cfg = config_by_name(a.rest.get(1).map(|s| s.as_str()).unwrap_or("default")).unwrap();
            let o = c18_check(&src, &cfg);
            println!("{o:#?}");
            0
        }
        _ => vhcore::machinery_failure("usage: c18 check C18 --tier quick|thorough | replay C18 <file>"),
    };
    std::process::exit(code);
}

use vh_text::fmtgen::*;

fn main() {
    let a = vhcore::parse_args();
    vhcore::silence_panics();
    let code = match a.cmd.as_str() {
        "probe" => probe(&a),
        "fmt" => {
            let src = std::fs::read_to_string(&a.rest[0]).unwrap();
            let cfg = config_by_name(a.rest.get(1).map(|s| s.as_str()).unwrap_or("default")).unwrap();
            match fmt(&src, &cfg) {
                FmtOut::Ok(s) => { print!("{s}"); 0 }
                o => { println!("{o:?}"); 1 }
            }
        }
        _ => vhcore::machinery_failure("usage"),
    };
    std::process::exit(code);
}

fn probe(a: &vhcore::Args) -> i32 {
    let files = vhcore::corpus_sw_files();
    let cfgs = configs();
    let t = std::time::Instant::now();
    let res = vhcore::par_map(&files, a.jobs, |p| {
        let Ok(src) = std::fs::read_to_string(p) else { return (0usize, vec![]) };
        let mut out = vec![];
        let ntok = lex(&src).map(|l| l.n_tokens()).unwrap_or(0);
        for (name, c) in &cfgs {
            match fmt(&src, c) {
                FmtOut::Ok(f1) => match fmt(&f1, c) {
                    FmtOut::Ok(f2) => {
                        if f1 != f2 {
                            let l1: Vec<&str> = f1.lines().collect();
                            let l2: Vec<&str> = f2.lines().collect();
                            let mut i = 0;
                            while i < l1.len() && i < l2.len() && l1[i] == l2[i] { i += 1; }
                            let lo = i.saturating_sub(2);
                            out.push(format!("NONIDEM {name} {}\n--- pass1\n{}\n--- pass2\n{}", p.display(), l1[lo..(i+4).min(l1.len())].join("\n"), l2[lo..(i+4).min(l2.len())].join("\n")));
                        }
                    }
                    o => out.push(format!("SECOND {name} {} {:?}", p.display(), o)),
                },
                FmtOut::Err(_) => out.push(format!("ERR {name} {}", p.display())),
                FmtOut::Panic(m) => out.push(format!("PANIC {name} {} {m}", p.display())),
            }
        }
        (ntok, out)
    });
    let mut small = 0;
    let mut small30 = 0;
    for (n, o) in &res {
        if *n <= 120 && *n > 0 {
            small += 1;
        }
        if *n <= 30 && *n > 0 {
            small30 += 1;
        }
        for l in o {
            println!("{l}");
        }
    }
    println!("files={} small120={small} small30={small30} wall={:?}", files.len(), t.elapsed());
    0
}

//! C16 — "Lexer and parser never crash and report in-bounds spans".
//!
//! Bounded-exhaustive exploration (E-text) of five declared input spaces through the real
//! `sway_parse::{lex_commented, lex, parse_file, parse_module_kind}`:
//!   (1) all strings of length <= n over a 26-symbol alphabet of lexer decision points,
//!   (2a) all token sequences of length <= m over a 30-token alphabet, each in 4 contexts,
//!   (2b) all token sequences of length <= w over a 90-token alphabet, each in 4 contexts,
//!   (3) every corpus `.sw` file with <= T tokens and all its first-order deviations,
//!   (4) all char/string literal bodies of length <= e over 21 escape-code symbols, 8 wrappers each.
//! Oracle per input: no entry point panics; every span of every diagnostic left in the `Handler`
//! satisfies 0 <= start <= end <= len on char boundaries of the input; every input terminates.
//!
//! Process layout: the parent (`check`) owns a queue of shards and `jobs` worker *processes*
//! (`worker` sub-command of this binary, line protocol over stdin/stdout). A worker reports the
//! sequence number of the input it is processing every 200 ms; if that number does not change for
//! 5 s the parent kills the worker, re-runs that single input alone in a fresh worker with the
//! same limit (a second stall is a `hang` violation) and re-queues the rest of the shard. A worker
//! that dies (abort, stack overflow, OOM kill) has the remainder of its shard re-run in trace mode
//! (one line per input) so that the fatal input is identified exactly.

use serde_json::{json, Value};
use std::collections::{BTreeMap, HashSet, VecDeque};
use std::hash::{Hash, Hasher};
use std::io::{BufRead, BufReader, Write};
use std::panic::AssertUnwindSafe;
use std::sync::atomic::{AtomicBool, AtomicU64, AtomicUsize, Ordering};
use std::sync::mpsc::{channel, Receiver, RecvTimeoutError};
use std::sync::{Arc, Mutex};
use std::time::{Duration, Instant};
use sway_error::error::CompileError;
use sway_error::handler::Handler;
use sway_error::lex_error::LexErrorKind;
use sway_error::parser_error::ParseErrorKind;
use sway_features::ExperimentalFeatures;
use sway_types::span::Source;
use sway_types::{Span, Spanned};
use vh_text::lexgen::*;
use vhcore::Tier;

const ENTRIES: [&str; 4] = ["lex_commented", "lex", "parse_file", "parse_module_kind"];
const STALL_LIMIT: Duration = Duration::from_secs(5);
const MAX_EVENTS: usize = 40;

fn main() {
    let a = vhcore::parse_args();
    vhcore::silence_panics();
    let code = match a.cmd.as_str() {
        "check" => run(&a),
        "replay" => replay(&a),
        "worker" => worker(),
        "probe" => {
            // debugging aid: `c16 probe <text>...` prints the oracle's view of each argument
            for input in &a.rest {
                let o = check_input(input, true, false);
                println!("{input:?}: {:?} diags={} spans={}", o.res, o.n_diags, o.n_spans);
                for d in &o.descr {
                    println!("    {d}");
                }
                for v in &o.viols {
                    println!("    VIOL {} :: {}", v.key, v.what);
                }
            }
            0
        }
        _ => vhcore::machinery_failure("usage: c16 check C16 --tier quick|thorough | replay C16 <path>"),
    };
    std::process::exit(code);
}

// ---------------------------------------------------------------------------------------------
// Oracle: one input through the four entry points

fn normalize_loc(loc: &str) -> String {
    let root = vhcore::repo_root();
    let root = root.to_string_lossy();
    if let Some(rest) = loc.strip_prefix(&format!("{}/", root.trim_end_matches('/'))) {
        return rest.to_string();
    }
    if let Some(p) = loc.find("/registry/src/") {
        let after = &loc[p + "/registry/src/".len()..];
        if let Some((_, rest)) = after.split_once('/') {
            return format!("registry:{rest}");
        }
    }
    if let Some(after) = loc.strip_prefix("/rustc/") {
        if let Some((_, rest)) = after.split_once('/') {
            return format!("rust:{rest}");
        }
    }
    loc.to_string()
}

/// Runs entry point `which`; returns 0 = Ok, 1 = Err, 2 = panic (location in the second field).
fn run_entry(which: usize, src: &Source) -> (u8, String, Handler) {
    let handler = Handler::default();
    let len = src.text.len();
    let _ = vhcore::take_panic_loc();
    let r = vhcore::catch(AssertUnwindSafe(|| match which {
        0 => sway_parse::lex_commented(&handler, src.clone(), 0, len, &None).is_ok(),
        1 => sway_parse::lex(&handler, src.clone(), 0, len, None).is_ok(),
        2 => sway_parse::parse_file(&handler, src.clone(), None, ExperimentalFeatures::default())
            .is_ok(),
        _ => sway_parse::parse_module_kind(
            &handler,
            src.clone(),
            None,
            ExperimentalFeatures::default(),
        )
        .is_ok(),
    }));
    match r {
        Ok(true) => (0, String::new(), handler),
        Ok(false) => (1, String::new(), handler),
        Err(msg) => {
            let loc = normalize_loc(&vhcore::take_panic_loc());
            (2, format!("{loc}\u{1}{msg}"), handler)
        }
    }
}

fn span_problem(sp: &Span, input: &str) -> Option<&'static str> {
    let (s, e) = (sp.start(), sp.end());
    if s > e {
        Some("start>end")
    } else if e > input.len() {
        Some("end>len")
    } else if !input.is_char_boundary(s) || !input.is_char_boundary(e) {
        Some("not-char-boundary")
    } else {
        None
    }
}

/// Variant name of a diagnostic (Debug formatting of a bad span may itself panic: guarded).
fn kind_name(e: &CompileError) -> String {
    let r = vhcore::catch(AssertUnwindSafe(|| {
        let d = match e {
            CompileError::Lex { error } => format!("Lex::{:?}", error.kind),
            CompileError::Parse { error } => format!("Parse::{:?}", error.kind),
            other => format!("{other:?}"),
        };
        d.chars()
            .take_while(|c| c.is_alphanumeric() || *c == ':' || *c == '_')
            .collect::<String>()
    }));
    let _ = vhcore::take_panic_loc();
    r.unwrap_or_else(|_| "?".into())
}

struct Viol {
    key: String,
    what: String,
    core: Option<String>,
}

#[derive(Default)]
struct Outcome {
    res: [u8; 4],
    sig: u64,
    n_diags: u64,
    n_spans: u64,
    n_foreign: u64,
    viols: Vec<Viol>,
    /// short human description (only filled when `describe`)
    descr: Vec<String>,
}

fn check_spans_of(
    entry: usize,
    e: &CompileError,
    src: &Source,
    input: &str,
    o: &mut Outcome,
    describe: bool,
) {
    let mut spans: Vec<(&'static str, Span)> = Vec::with_capacity(2);
    match vhcore::catch(AssertUnwindSafe(|| e.span())) {
        Ok(sp) => spans.push(("primary", sp)),
        Err(msg) => {
            let loc = normalize_loc(&vhcore::take_panic_loc());
            o.viols.push(Viol {
                key: format!("panic@{loc}|CompileError::span()"),
                what: format!("CompileError::span() panicked: {msg}"),
                core: None,
            });
        }
    }
    match e {
        CompileError::Lex { error } => match &error.kind {
            LexErrorKind::UnicodeEscapeInvalidCharValue { span } => {
                spans.push(("kind.span", span.clone()))
            }
            LexErrorKind::InvalidIntSuffix { suffix } => spans.push(("kind.suffix", suffix.span())),
            _ => {}
        },
        CompileError::Parse { error } => match &error.kind {
            ParseErrorKind::UnassignableExpression {
                erroneous_expression_span,
                ..
            } => spans.push(("kind.erroneous_expression_span", erroneous_expression_span.clone())),
            ParseErrorKind::UnnecessaryVisibilityQualifier { visibility } => {
                spans.push(("kind.visibility", visibility.span()))
            }
            ParseErrorKind::MissingColonInEnumTypeField {
                variant_name,
                tuple_contents,
            } => {
                spans.push(("kind.variant_name", variant_name.span()));
                if let Some(s) = tuple_contents {
                    spans.push(("kind.tuple_contents", s.clone()));
                }
            }
            _ => {}
        },
        _ => {}
    }
    for (which, sp) in &spans {
        o.n_spans += 1;
        if !Arc::ptr_eq(&sp.src().text, &src.text) {
            o.n_foreign += 1;
        }
        if let Some(p) = span_problem(sp, input) {
            let k = kind_name(e);
            o.viols.push(Viol {
                key: format!("span:{p}|{k}.{which}|entry={}", ENTRIES[entry]),
                what: format!(
                    "{} reported {k} with {which} span {}..{} but the input has {} bytes ({p})",
                    ENTRIES[entry],
                    sp.start(),
                    sp.end(),
                    input.len()
                ),
                core: None,
            });
        }
    }
    if describe {
        if let Some((_, sp)) = spans.first() {
            o.descr.push(format!(
                "{}:{} {}..{}",
                ENTRIES[entry],
                kind_name(e),
                sp.start(),
                sp.end()
            ));
        }
    }
}

fn selftest_hooks(input: &str) {
    // Test hooks of the harness itself (inert unless the variables are set): used to validate the
    // watchdog and the crash attribution without touching the code under test.
    if let Ok(h) = std::env::var("VH_C16_SELFTEST_HANG") {
        if h == input {
            loop {
                std::thread::sleep(Duration::from_secs(3600));
            }
        }
    }
    if let Ok(h) = std::env::var("VH_C16_SELFTEST_ABORT") {
        if h == input {
            std::process::abort();
        }
    }
}

fn check_input(input: &str, describe: bool, hooks: bool) -> Outcome {
    if hooks {
        selftest_hooks(input);
    }
    let mut o = Outcome::default();
    let src = Source::new(input);
    let mut h = std::collections::hash_map::DefaultHasher::new();
    let mut panics: BTreeMap<String, (usize, Vec<&'static str>, String)> = BTreeMap::new();
    for which in 0..4 {
        let (r, info, handler) = run_entry(which, &src);
        o.res[which] = r;
        (which as u8, r).hash(&mut h);
        if r == 2 {
            let (loc, msg) = info.split_once('\u{1}').unwrap_or((&info, ""));
            let e = panics
                .entry(loc.to_string())
                .or_insert((which, vec![], msg.to_string()));
            e.1.push(ENTRIES[which]);
        }
        let (errors, warnings, infos) = handler.consume();
        o.n_diags += (errors.len() + warnings.len() + infos.len()) as u64;
        for e in &errors {
            std::mem::discriminant(e).hash(&mut h);
            match e {
                CompileError::Lex { error } => std::mem::discriminant(&error.kind).hash(&mut h),
                CompileError::Parse { error } => std::mem::discriminant(&error.kind).hash(&mut h),
                _ => {}
            }
            check_spans_of(which, e, &src, input, &mut o, describe);
        }
        for w in &warnings {
            0xfeu8.hash(&mut h);
            o.n_spans += 1;
            if let Some(p) = span_problem(&w.span, input) {
                o.viols.push(Viol {
                    key: format!("span:{p}|warning|entry={}", ENTRIES[which]),
                    what: format!("{} emitted a warning with span {}..{} ({p})", ENTRIES[which], w.span.start(), w.span.end()),
                    core: None,
                });
            }
        }
        for i in &infos {
            0xfdu8.hash(&mut h);
            o.n_spans += 1;
            if let Some(p) = span_problem(&i.span, input) {
                o.viols.push(Viol {
                    key: format!("span:{p}|info|entry={}", ENTRIES[which]),
                    what: format!("{} emitted an info with span {}..{} ({p})", ENTRIES[which], i.span.start(), i.span.end()),
                    core: None,
                });
            }
        }
    }
    for (loc, (first_entry, entries, msg)) in panics {
        let (shape, core) = classify_panic(input, first_entry, &loc);
        o.viols.push(Viol {
            key: format!("panic@{loc}|{shape}"),
            what: format!(
                "{} panicked at {loc}: {} (minimal core {:?})",
                entries.join("+"),
                vhcore::truncate(&msg, 120),
                core
            ),
            core: Some(core),
        });
        if describe {
            o.descr.push(format!("panic@{loc} in {}", entries.join("+")));
        }
    }
    o.sig = h.finish();
    o
}

// ---------------------------------------------------------------------------------------------
// Panic classifier: (panic location, shape of the 1-minimal core that still panics there)

fn panics_at(input: &str, entry: usize, loc: &str) -> bool {
    let src = Source::new(input);
    let (r, info, _) = run_entry(entry, &src);
    r == 2 && info.split_once('\u{1}').map(|x| x.0).unwrap_or(&info) == loc
}

/// Delta-debugging (removal of windows of halving sizes, then of every window of 3, 2, 1 chars)
/// alternated with a normalisation pass that maps every char to a class representative (`é` for
/// non-ASCII, `a` for ASCII) whenever the same panic survives, until nothing changes. Deterministic.
fn minimize(input: &str, test: &dyn Fn(&str) -> bool) -> String {
    let mut cs: Vec<char> = input.chars().collect();
    let mut budget = 40_000usize;
    'outer: loop {
        let mut changed = false;
        // window sizes n/2, n/4, ... 4 (aligned), then 3, 2, 1 at every offset
        // (for inputs of <= 16 chars: every window size at every offset)
        let mut sizes = vec![];
        let small = cs.len() <= 16;
        if small {
            // short inputs: every window of every size
            sizes.extend((1..cs.len()).rev());
        } else {
            let mut c = cs.len() / 2;
            while c > 3 {
                sizes.push(c);
                c /= 2;
            }
            sizes.extend([3, 2, 1]);
        }
        for size in sizes {
            let step = if size <= 3 || small { 1 } else { size };
            let mut i = 0;
            while i + size <= cs.len() {
                let cand: String = cs[..i].iter().chain(cs[i + size..].iter()).collect();
                if budget == 0 {
                    break 'outer;
                }
                budget -= 1;
                if test(&cand) {
                    cs.drain(i..i + size);
                    changed = true;
                } else {
                    i += step;
                }
            }
        }
        // normalise chars to class representatives; a successful replacement can enable removals
        for i in 0..cs.len() {
            let c = cs[i];
            let r = if c.is_ascii() { 'a' } else { 'é' };
            if c != r {
                cs[i] = r;
                let cand: String = cs.iter().collect();
                if budget > 0 && test(&cand) {
                    changed = true;
                } else {
                    cs[i] = c;
                }
                budget = budget.saturating_sub(1);
            }
        }
        if !changed {
            break;
        }
    }
    cs.into_iter().collect()
}

/// Input-shape predicate of a panic class, decided on the 1-minimal core (so that unrelated
/// surrounding text cannot influence the class). One predicate per root cause seen so far;
/// anything else gets its own `min=<core>` key and is therefore a new violation.
fn shape_of_core(core: &str) -> String {
    let cs: Vec<char> = core.chars().collect();
    let n = cs.len();
    let quoted = n >= 1 && (cs[0] == '\'' || cs[0] == '"');
    // `\u` directly followed by a non-ASCII char at the very end of the core
    let u_nobrace_multibyte = n >= 3 && cs[n - 3] == '\\' && cs[n - 2] == 'u' && !cs[n - 1].is_ascii();
    if core == "/*é" {
        "unterminated-block-comment-ending-in-multibyte-char".to_string()
    } else if quoted && u_nobrace_multibyte {
        "unicode-escape-without-brace-followed-by-multibyte-char".to_string()
    } else if n >= 4 && cs[0] == '\'' && cs[n - 1] == '\'' && (core.len() > n || core.contains('\\')) {
        "closed-char-literal-with-several-chars-and-multibyte-or-escape".to_string()
    } else {
        format!("min={}", core.escape_default())
    }
}

thread_local! {
    /// results of `panics_at` for short candidates of the current (entry, location) pair
    static MEMO: std::cell::RefCell<(usize, String, std::collections::HashMap<String, bool>)> =
        std::cell::RefCell::new((0, String::new(), std::collections::HashMap::new()));
}

fn classify_panic(input: &str, entry: usize, loc: &str) -> (String, String) {
    MEMO.with(|m| {
        let mut m = m.borrow_mut();
        if m.0 != entry || m.1 != loc {
            *m = (entry, loc.to_string(), std::collections::HashMap::new());
        }
    });
    let test = |s: &str| {
        if let Some(r) = MEMO.with(|m| m.borrow().2.get(s).copied()) {
            return r;
        }
        let r = panics_at(s, entry, loc);
        MEMO.with(|m| {
            let mut m = m.borrow_mut();
            if m.2.len() < 300_000 && s.len() <= 48 {
                m.2.insert(s.to_string(), r);
            }
        });
        r
    };
    let core = minimize(input, &test);
    (shape_of_core(&core), core)
}

// ---------------------------------------------------------------------------------------------
// Worker process

static W_REQ: AtomicU64 = AtomicU64::new(0);
static W_SEQ: AtomicU64 = AtomicU64::new(0);
static W_ACTIVE: AtomicBool = AtomicBool::new(false);

#[derive(Default)]
struct Acc {
    n: u64,
    res: [[u64; 3]; 4],
    with_diags: u64,
    /// inputs accepted by all four entry points without any diagnostic
    clean: u64,
    diags: u64,
    spans: u64,
    foreign: u64,
    sigs: HashSet<u64>,
    /// key -> (count, what, replay of the smallest example)
    viols: BTreeMap<String, (u64, String, Value)>,
    samples: Vec<Value>,
}

impl Acc {
    fn to_json(&self) -> Value {
        let mut sigs: Vec<u64> = self.sigs.iter().copied().collect();
        sigs.sort();
        json!({
            "n": self.n, "res": self.res, "with_diags": self.with_diags, "clean": self.clean, "diags": self.diags,
            "spans": self.spans, "foreign": self.foreign, "sigs": sigs,
            "viols": self.viols.iter().map(|(k, (c, w, r))| json!({"key": k, "count": c, "what": w, "replay": r})).collect::<Vec<_>>(),
            "samples": self.samples,
        })
    }
    fn merge_json(&mut self, v: &Value) {
        self.n += v["n"].as_u64().unwrap_or(0);
        for e in 0..4 {
            for r in 0..3 {
                self.res[e][r] += v["res"][e][r].as_u64().unwrap_or(0);
            }
        }
        self.with_diags += v["with_diags"].as_u64().unwrap_or(0);
        self.clean += v["clean"].as_u64().unwrap_or(0);
        self.diags += v["diags"].as_u64().unwrap_or(0);
        self.spans += v["spans"].as_u64().unwrap_or(0);
        self.foreign += v["foreign"].as_u64().unwrap_or(0);
        for s in v["sigs"].as_array().cloned().unwrap_or_default() {
            if let Some(s) = s.as_u64() {
                self.sigs.insert(s);
            }
        }
        for x in v["viols"].as_array().cloned().unwrap_or_default() {
            let key = x["key"].as_str().unwrap_or("").to_string();
            self.add_viol(
                key,
                x["count"].as_u64().unwrap_or(1),
                x["what"].as_str().unwrap_or("").to_string(),
                x["replay"].clone(),
            );
        }
        for s in v["samples"].as_array().cloned().unwrap_or_default() {
            self.samples.push(s);
        }
    }
    fn add_viol(&mut self, key: String, count: u64, what: String, replay: Value) {
        let len = |r: &Value| r["input"].as_str().map(|s| s.len()).unwrap_or(usize::MAX);
        match self.viols.get_mut(&key) {
            None => {
                self.viols.insert(key, (count, what, replay));
            }
            Some(e) => {
                e.0 += count;
                let better = (len(&replay), replay["input"].as_str().unwrap_or(""))
                    < (len(&e.2), e.2["input"].as_str().unwrap_or(""));
                if better {
                    e.1 = what;
                    e.2 = replay;
                }
            }
        }
    }
}

fn account(acc: &mut Acc, shard: &Shard, seq: u64, descr: &dyn Fn() -> Value, input: &str, o: Outcome) {
    acc.n += 1;
    for e in 0..4 {
        acc.res[e][o.res[e] as usize] += 1;
    }
    if o.n_diags > 0 {
        acc.with_diags += 1;
    } else if o.res == [0, 0, 0, 0] {
        acc.clean += 1;
    }
    acc.diags += o.n_diags;
    acc.spans += o.n_spans;
    acc.foreign += o.n_foreign;
    acc.sigs.insert(o.sig);
    for v in o.viols {
        let replay = json!({
            "space": shard.space(), "shard": shard.to_json(), "seq": seq, "case": descr(),
            "input": input, "min_core": v.core,
        });
        acc.add_viol(v.key, 1, v.what, replay);
    }
}

fn process_range(shard: &Shard, start: u64, end: u64, trace: bool, id: u64) -> Result<Acc, String> {
    let mut acc = Acc::default();
    let mut want_samples: [bool; 2] = [true, true]; // [has diagnostics, parses OK]
    let mut one = |seq: u64, descr: &dyn Fn() -> Value, input: &str, acc: &mut Acc| {
        W_SEQ.store(seq, Ordering::Relaxed);
        if trace {
            println!("T {id} {seq}");
        }
        let o = check_input(input, false, true);
        let interesting = (want_samples[0] && o.n_diags > 0 && o.res[2] == 1 && input.len() < 200)
            || (want_samples[1] && o.res[2] == 0 && o.n_diags == 0 && input.len() < 200 && seq > 0);
        if interesting {
            let d = check_input(input, true, false);
            if o.res[2] == 0 {
                want_samples[1] = false;
            } else {
                want_samples[0] = false;
            }
            acc.samples.push(json!({
                "space": shard.space(), "case": descr(), "input": input,
                "results": (0..4).map(|e| format!("{}={}", ENTRIES[e], ["ok", "err", "PANIC"][o.res[e] as usize])).collect::<Vec<_>>(),
                "diagnostics": d.descr,
            }));
        }
        account(acc, shard, seq, descr, input, o);
    };
    match shard {
        Shard::Seqs { alpha, len, prefix } => {
            let syms = alpha.symbols();
            for_each_seq(*alpha, *len, prefix, start, end, &mut |seq, idx, v, s| {
                let d = || json!({"symbols": idx.iter().map(|&i| syms[i]).collect::<Vec<_>>(), "variant": v});
                one(seq, &d, s, &mut acc);
                true
            });
        }
        Shard::File { path } => {
            let text = std::fs::read_to_string(path).map_err(|e| format!("{}: {e}", path.display()))?;
            for_each_file_input(&text, start, end, &mut |seq, d, s| {
                let dd = || {
                    let mut v = d();
                    v["file"] = json!(path.to_string_lossy());
                    v
                };
                one(seq, &dd, s, &mut acc);
                true
            });
        }
    }
    Ok(acc)
}

fn worker() -> i32 {
    std::thread::spawn(|| loop {
        std::thread::sleep(Duration::from_millis(200));
        if W_ACTIVE.load(Ordering::SeqCst) {
            let id = W_REQ.load(Ordering::SeqCst);
            let seq = W_SEQ.load(Ordering::SeqCst);
            println!("P {id} {seq}");
        }
    });
    let stdin = std::io::stdin();
    for line in stdin.lock().lines() {
        let Ok(line) = line else { break };
        let Ok(req) = serde_json::from_str::<Value>(&line) else {
            println!("E bad request");
            return 2;
        };
        let id = req["id"].as_u64().unwrap_or(0);
        let (start, end) = (req["start"].as_u64().unwrap_or(0), req["end"].as_u64().unwrap_or(u64::MAX));
        let trace = req["trace"].as_bool().unwrap_or(false);
        let Some(shard) = Shard::from_json(&req["shard"]) else {
            println!("E bad shard");
            return 2;
        };
        W_SEQ.store(start, Ordering::SeqCst);
        W_REQ.store(id, Ordering::SeqCst);
        W_ACTIVE.store(true, Ordering::SeqCst);
        println!("P {id} {start}");
        let r = process_range(&shard, start, end, trace, id);
        W_ACTIVE.store(false, Ordering::SeqCst);
        match r {
            Ok(acc) => {
                let mut v = acc.to_json();
                v["id"] = json!(id);
                println!("R {v}");
            }
            Err(e) => {
                println!("E {e}");
                return 2;
            }
        }
    }
    0
}

// ---------------------------------------------------------------------------------------------
// Parent

enum Msg {
    Progress(u64, u64),
    Result(Value),
    Error(String),
    Eof,
}

struct WorkerProc {
    proc: std::process::Child,
    stdin: std::process::ChildStdin,
    rx: Receiver<Msg>,
}

fn spawn_worker() -> WorkerProc {
    let exe = std::env::current_exe().unwrap_or_else(|e| vhcore::machinery_failure(&format!("current_exe: {e}")));
    let mut proc = std::process::Command::new(exe)
        .arg("worker")
        .stdin(std::process::Stdio::piped())
        .stdout(std::process::Stdio::piped())
        .stderr(std::process::Stdio::null())
        .spawn()
        .unwrap_or_else(|e| vhcore::machinery_failure(&format!("cannot spawn worker: {e}")));
    let stdin = proc.stdin.take().unwrap();
    let stdout = proc.stdout.take().unwrap();
    let (tx, rx) = channel();
    std::thread::spawn(move || {
        for line in BufReader::new(stdout).lines() {
            let Ok(line) = line else { break };
            let msg = if let Some(r) = line.strip_prefix("R ") {
                match serde_json::from_str(r) {
                    Ok(v) => Msg::Result(v),
                    Err(e) => Msg::Error(format!("bad result line: {e}")),
                }
            } else if let Some(r) = line.strip_prefix("P ").or_else(|| line.strip_prefix("T ")) {
                let mut it = r.split(' ').map(|x| x.parse::<u64>().unwrap_or(u64::MAX));
                Msg::Progress(it.next().unwrap_or(u64::MAX), it.next().unwrap_or(u64::MAX))
            } else if let Some(r) = line.strip_prefix("E ") {
                Msg::Error(r.to_string())
            } else {
                continue;
            };
            if tx.send(msg).is_err() {
                return;
            }
        }
        let _ = tx.send(Msg::Eof);
    });
    WorkerProc { proc, stdin, rx }
}

#[derive(Clone, Debug)]
struct Job {
    shard: usize,
    start: u64,
    end: u64,
    trace: bool,
    confirm: bool,
}

#[derive(Default)]
struct Totals {
    per_space: BTreeMap<&'static str, Acc>,
    shards_done: BTreeMap<&'static str, u64>,
    job_seconds: BTreeMap<&'static str, f64>,
    /// inputs attributed to a hang or a crash (not part of any worker result)
    fatal_inputs: u64,
    transient_stalls: u64,
    events: Vec<Value>,
}

fn input_of(shard: &Shard, seq: u64) -> (String, Value) {
    let mut out = (String::new(), Value::Null);
    match shard {
        Shard::Seqs { alpha, len, prefix } => {
            let syms = alpha.symbols();
            for_each_seq(*alpha, *len, prefix, seq, seq + 1, &mut |_, idx, v, s| {
                out = (
                    s.to_string(),
                    json!({"symbols": idx.iter().map(|&i| syms[i]).collect::<Vec<_>>(), "variant": v}),
                );
                false
            });
        }
        Shard::File { path } => {
            if let Ok(text) = std::fs::read_to_string(path) {
                for_each_file_input(&text, seq, seq + 1, &mut |_, d, s| {
                    let mut v = d();
                    v["file"] = json!(path.to_string_lossy());
                    out = (s.to_string(), v);
                    false
                });
            }
        }
    }
    out
}

enum JobEnd {
    Done(Value),
    Stalled(u64),
    Died(u64, bool, String),
}

fn run_job(w: &mut Option<WorkerProc>, shards: &[(Shard, u64)], job: &Job, ids: &AtomicU64) -> JobEnd {
    if w.is_none() {
        *w = Some(spawn_worker());
    }
    let wp = w.as_mut().unwrap();
    let id = ids.fetch_add(1, Ordering::SeqCst) + 1;
    let req = json!({"id": id, "shard": shards[job.shard].0.to_json(), "start": job.start, "end": job.end, "trace": job.trace});
    let sent = writeln!(wp.stdin, "{req}").and_then(|_| wp.stdin.flush());
    let mut last_seq = job.start;
    let mut heard = false;
    let mut last_change = Instant::now();
    let end = loop {
        if sent.is_err() {
            break None;
        }
        match wp.rx.recv_timeout(Duration::from_millis(200)) {
            Ok(Msg::Progress(i, s)) if i == id => {
                heard = true;
                if s != last_seq {
                    last_seq = s;
                    last_change = Instant::now();
                }
            }
            Ok(Msg::Progress(..)) => {}
            Ok(Msg::Result(v)) => {
                if v["id"].as_u64() == Some(id) {
                    break Some(JobEnd::Done(v));
                }
            }
            Ok(Msg::Error(e)) => vhcore::machinery_failure(&format!("worker error: {e}")),
            Ok(Msg::Eof) | Err(RecvTimeoutError::Disconnected) => break None,
            Err(RecvTimeoutError::Timeout) => {}
        }
        if last_change.elapsed() > STALL_LIMIT {
            break Some(JobEnd::Stalled(last_seq));
        }
    };
    match end {
        Some(JobEnd::Done(v)) => JobEnd::Done(v),
        Some(other) => {
            let mut wp = w.take().unwrap();
            let _ = wp.proc.kill();
            let _ = wp.proc.wait();
            other
        }
        None => {
            let mut wp = w.take().unwrap();
            let status = wp.proc.wait().map(|s| s.to_string()).unwrap_or_else(|e| e.to_string());
            JobEnd::Died(last_seq, heard, status)
        }
    }
}

fn build_shards(tier: Tier, rep: &mut vhcore::Reporter) -> Vec<(Shard, u64)> {
    let mut shards: Vec<(Shard, u64)> = vec![];
    // (3) corpus files first (largest first): they are the longest shards
    let tok_bound = tier.pick(80usize, 400usize);
    let mut files = vec![];
    let (mut n_files, mut n_nonutf8, mut n_too_big) = (0u64, 0u64, 0u64);
    for p in vhcore::corpus_sw_files() {
        n_files += 1;
        let Ok(text) = std::fs::read_to_string(&p) else {
            n_nonutf8 += 1;
            continue;
        };
        let t = tokenize(&text).len();
        if t > tok_bound {
            n_too_big += 1;
            continue;
        }
        let c = file_count(t as u64, text.chars().count() as u64);
        files.push((Shard::File { path: p }, c));
    }
    files.sort_by(|a, b| b.1.cmp(&a.1).then_with(|| a.0.to_json().to_string().cmp(&b.0.to_json().to_string())));
    rep.set(
        "corpus",
        json!({"sw_files": n_files, "selected": files.len(), "token_bound": tok_bound,
               "skipped_over_token_bound": n_too_big, "skipped_not_utf8": n_nonutf8}),
    );
    shards.extend(files);
    let spaces: [(Alpha, usize); 4] = [
        (Alpha::Chars26, tier.pick(5, 6)),
        (Alpha::Tok30, tier.pick(4, 5)),
        (Alpha::TokWide, tier.pick(3, 4)),
        (Alpha::Esc21, tier.pick(4, 5)),
    ];
    let mut bounds = serde_json::Map::new();
    for (alpha, maxlen) in spaces {
        bounds.insert(
            alpha.name().to_string(),
            json!({"symbols": alpha.symbols().len(), "max_len": maxlen, "variants_per_sequence": alpha.variants()}),
        );
        for len in (0..=maxlen).rev() {
            // smallest prefix depth that keeps a shard under 500k inputs
            let depth = (0..=len.min(3)).find(|d| seqs_count(alpha, len, *d) <= 500_000).unwrap_or(len.min(3));
            for prefix in vhcore::enumerate::shards(alpha.symbols().len(), len, depth) {
                let c = seqs_count(alpha, len, prefix.len());
                shards.push((Shard::Seqs { alpha, len, prefix }, c));
            }
        }
    }
    rep.set("bounds", Value::Object(bounds));
    // debugging aid: restrict to some spaces (the run is then declared non-exhaustive)
    if let Ok(only) = std::env::var("VH_C16_ONLY") {
        let keep: Vec<&str> = only.split(',').collect();
        shards.retain(|s| keep.contains(&s.0.space()));
        rep.cap(&format!("VH_C16_ONLY={only}: only these spaces were explored"));
    }
    shards
}

fn run(a: &vhcore::Args) -> i32 {
    let mut rep = vhcore::Reporter::from_args(a, "exploration");
    // scratch files of this run live in work/C16/run (work/C16 itself also holds the proposed
    // fix patches, so it is not wiped)
    let work = vhcore::verif_root().join("work").join("C16").join("run");
    let _ = std::fs::remove_dir_all(&work);
    if let Err(e) = std::fs::create_dir_all(&work) {
        vhcore::machinery_failure(&format!("work dir {}: {e}", work.display()));
    }
    let shards = build_shards(a.tier, &mut rep);
    let expected_total: u64 = shards.iter().map(|s| s.1).sum();
    let mut expected_per_space: BTreeMap<&'static str, u64> = BTreeMap::new();
    for (s, c) in &shards {
        *expected_per_space.entry(s.space()).or_default() += c;
    }
    let queue: Mutex<VecDeque<Job>> = Mutex::new(
        shards
            .iter()
            .enumerate()
            .map(|(i, (_, c))| Job { shard: i, start: 0, end: *c, trace: false, confirm: false })
            .collect(),
    );
    let totals: Mutex<Totals> = Mutex::new(Totals::default());
    let fatal: Mutex<Vec<(String, String, Value)>> = Mutex::new(vec![]);
    let ids = AtomicU64::new(0);
    let n_events = AtomicUsize::new(0);
    let in_flight = AtomicUsize::new(0);
    let log = Mutex::new(std::fs::File::create(work.join("events.log")).ok());
    let logln = |s: String| {
        if let Some(f) = log.lock().unwrap().as_mut() {
            let _ = writeln!(f, "{s}");
        }
    };
    std::thread::scope(|sc| {
        for _ in 0..a.jobs.max(1) {
            sc.spawn(|| {
                let mut w: Option<WorkerProc> = None;
                loop {
                    if n_events.load(Ordering::SeqCst) > MAX_EVENTS {
                        break;
                    }
                    let job = {
                        let mut q = queue.lock().unwrap();
                        let j = q.pop_front();
                        if j.is_some() {
                            in_flight.fetch_add(1, Ordering::SeqCst);
                        }
                        j
                    };
                    let Some(job) = job else {
                        // another thread may still re-queue parts of a shard
                        if in_flight.load(Ordering::SeqCst) == 0 {
                            break;
                        }
                        std::thread::sleep(Duration::from_millis(20));
                        continue;
                    };
                    if job.start >= job.end {
                        in_flight.fetch_sub(1, Ordering::SeqCst);
                        continue;
                    }
                    let shard = &shards[job.shard].0;
                    let requeue = |jobs: Vec<Job>| {
                        let mut q = queue.lock().unwrap();
                        for j in jobs.into_iter().rev() {
                            if j.start < j.end {
                                q.push_front(j);
                            }
                        }
                    };
                    let t0 = Instant::now();
                    let ended = run_job(&mut w, &shards, &job, &ids);
                    *totals.lock().unwrap().job_seconds.entry(shard.space()).or_default() += t0.elapsed().as_secs_f64();
                    match ended {
                        JobEnd::Done(v) => {
                            let mut t = totals.lock().unwrap();
                            t.per_space.entry(shard.space()).or_default().merge_json(&v);
                            if job.start == 0 && job.end == shards[job.shard].1 {
                                *t.shards_done.entry(shard.space()).or_default() += 1;
                            }
                            if job.confirm {
                                t.transient_stalls += 1;
                                t.events.push(json!({"event": "stall-not-reproduced", "shard": shard.to_json(), "seq": job.start}));
                            }
                        }
                        JobEnd::Stalled(seq) => {
                            n_events.fetch_add(1, Ordering::SeqCst);
                            logln(format!("stall shard={} seq={seq} confirm={}", shard.to_json(), job.confirm));
                            if job.confirm {
                                let (input, case) = input_of(shard, seq);
                                let mut t = totals.lock().unwrap();
                                t.fatal_inputs += 1;
                                t.events.push(json!({"event": "hang", "shard": shard.to_json(), "seq": seq}));
                                fatal.lock().unwrap().push((
                                    format!("hang|space={}", shard.space()),
                                    format!("input did not finish within {} s (twice: inside its shard and alone in a fresh worker)", STALL_LIMIT.as_secs()),
                                    json!({"space": shard.space(), "shard": shard.to_json(), "seq": seq, "case": case, "input": input}),
                                ));
                            } else {
                                requeue(vec![
                                    Job { shard: job.shard, start: seq, end: seq + 1, trace: false, confirm: true },
                                    Job { shard: job.shard, start: job.start, end: seq, trace: false, confirm: false },
                                    Job { shard: job.shard, start: seq + 1, end: job.end, trace: false, confirm: false },
                                ]);
                            }
                        }
                        JobEnd::Died(seq, heard, status) => {
                            n_events.fetch_add(1, Ordering::SeqCst);
                            logln(format!("worker died ({status}) shard={} seq>={seq} trace={} heard={heard}", shard.to_json(), job.trace));
                            if !heard {
                                vhcore::machinery_failure(&format!("worker died before reporting progress ({status})"));
                            }
                            if job.trace || job.end - job.start == 1 {
                                let (input, case) = input_of(shard, seq);
                                let mut t = totals.lock().unwrap();
                                t.fatal_inputs += 1;
                                t.events.push(json!({"event": "crash", "status": status, "shard": shard.to_json(), "seq": seq}));
                                fatal.lock().unwrap().push((
                                    format!("crash:{status}|space={}", shard.space()),
                                    format!("worker process died ({status}) while processing this input (not a catchable panic)"),
                                    json!({"space": shard.space(), "shard": shard.to_json(), "seq": seq, "case": case, "input": input}),
                                ));
                                requeue(vec![
                                    Job { shard: job.shard, start: job.start, end: seq, trace: false, confirm: false },
                                    Job { shard: job.shard, start: seq + 1, end: job.end, trace: false, confirm: false },
                                ]);
                            } else {
                                requeue(vec![
                                    Job { shard: job.shard, start: seq, end: job.end, trace: true, confirm: false },
                                    Job { shard: job.shard, start: job.start, end: seq, trace: false, confirm: false },
                                ]);
                            }
                        }
                    }
                    in_flight.fetch_sub(1, Ordering::SeqCst);
                }
                if let Some(mut wp) = w.take() {
                    drop(wp.stdin);
                    let _ = wp.proc.wait();
                }
            });
        }
    });
    let totals = totals.into_inner().unwrap();
    let aborted = n_events.load(Ordering::SeqCst) > MAX_EVENTS;

    // aggregate
    let mut all = Acc::default();
    let mut per_space_json = serde_json::Map::new();
    for (space, acc) in &totals.per_space {
        let mut v = acc.to_json();
        let o = v.as_object_mut().unwrap();
        o.remove("sigs");
        o.remove("viols");
        o.remove("samples");
        o.insert("distinct_outcome_signatures".into(), json!(acc.sigs.len()));
        o.insert("expected_inputs".into(), json!(expected_per_space.get(space).copied().unwrap_or(0)));
        o.insert("complete_shards".into(), json!(totals.shards_done.get(space).copied().unwrap_or(0)));
        o.insert("worker_seconds".into(), json!((totals.job_seconds.get(space).copied().unwrap_or(0.0) * 10.0).round() / 10.0));
        per_space_json.insert(space.to_string(), v);
        all.merge_json(&acc.to_json());
    }
    let evaluated = all.n + totals.fatal_inputs;
    for (key, (count, what, replay)) in &all.viols {
        for _ in 0..*count {
            rep.violation(key, what, replay.clone());
        }
    }
    let fatal = fatal.into_inner().unwrap();
    if aborted && fatal.is_empty() {
        vhcore::machinery_failure("more than 40 stalls / worker deaths, none of them reproducible: the machine is too loaded to decide termination");
    }
    for (key, what, replay) in fatal {
        rep.violation(&key, &what, replay);
    }
    rep.set("evaluations", evaluated);
    rep.set("entry_point_calls", all.n * 4);
    rep.set("distinct_nontrivial", all.sigs.len() as u64);
    rep.set(
        "rule",
        "distinct outcome signatures: (ok/err/panic of lex_commented, lex, parse_file, parse_module_kind) x ordered list of the diagnostic kinds each of them emitted",
    );
    rep.set("per_space", Value::Object(per_space_json));
    rep.set(
        "results_by_entry_point",
        json!((0..4).map(|e| json!({"entry": ENTRIES[e], "ok": all.res[e][0], "err": all.res[e][1], "panic": all.res[e][2]})).collect::<Vec<_>>()),
    );
    rep.set("inputs_with_diagnostics", all.with_diags);
    rep.set("inputs_accepted_without_diagnostics", all.clean);
    rep.set("diagnostics_checked", all.diags);
    rep.set("spans_checked", all.spans);
    rep.set("spans_with_foreign_source_eg_dummy", all.foreign);
    rep.set("violating_inputs_by_key", json!(all.viols.iter().map(|(k, v)| json!({"key": k, "inputs": v.0})).collect::<Vec<_>>()));
    rep.set("hangs_or_crashes", json!(totals.events));
    rep.set("stalls_not_reproduced", totals.transient_stalls);
    rep.set("worker_processes", a.jobs as u64);
    rep.set("stall_limit_s", STALL_LIMIT.as_secs());
    rep.set("exhaustive", !aborted && evaluated == expected_total && std::env::var("VH_C16_ONLY").is_err());
    if aborted {
        rep.cap(&format!("more than {MAX_EVENTS} hang/crash events: exploration aborted after {evaluated} of {expected_total} inputs"));
    }
    // samples: per space the smallest input with diagnostics and the smallest clean one
    let mut samples = all.samples.clone();
    samples.retain(|s| !s["input"].as_str().unwrap_or("").is_empty());
    let skey = |s: &Value| {
        let i = s["input"].as_str().unwrap_or("").to_string();
        (
            s["space"].as_str().unwrap_or("").to_string(),
            s["diagnostics"].as_array().map(|d| d.is_empty()).unwrap_or(true),
            i.len(),
            i,
            s["case"].to_string(),
        )
    };
    samples.sort_by_key(skey);
    let mut seen: HashSet<(String, bool)> = HashSet::new();
    for s in &samples {
        let k = skey(s);
        if seen.insert((k.0, k.1)) {
            rep.sample(s.clone());
        }
    }
    rep.assume("lex/lex_commented are called on the whole text (start = 0, end = len), as every caller in /repo does, with source_id = None (swayfmt's way; sway-core passes Some(id), which is only copied into the spans) and default experimental features (sway-parse never reads them)");
    rep.assume("termination is decided with a 5 s wall-clock limit per input (inputs take microseconds)");
    rep.assume("the token bound on corpus files is counted with the harness's own tokenizer (comments, strings, identifiers, glued two-char operators are one token each)");

    // vacuity guards
    if !aborted && evaluated != expected_total {
        vhcore::machinery_failure(&format!("enumerated {evaluated} inputs but the closed-form count is {expected_total}"));
    }
    if !aborted {
        for (space, exp) in &expected_per_space {
            let got = totals.per_space.get(space).map(|a| a.n).unwrap_or(0);
            if got + totals.fatal_inputs < *exp {
                vhcore::machinery_failure(&format!("space {space}: {got} inputs evaluated, {exp} expected"));
            }
        }
    }
    let filtered = std::env::var("VH_C16_ONLY").is_ok();
    // the vacuity guards protect a PASS verdict; a run that already found violations reports them
    if rep.violation_count() == 0 && !aborted && !filtered && (all.sigs.len() < 2 || all.spans == 0 || all.res[2][0] == 0 || all.res[2][1] == 0 || all.res[0][1] == 0) {
        vhcore::machinery_failure(&format!(
            "vacuous run: {} outcome signatures, {} spans checked, parse_file ok={} err={}, lex_commented err={}",
            all.sigs.len(), all.spans, all.res[2][0], all.res[2][1], all.res[0][1]
        ));
    }
    rep.finish()
}

// ---------------------------------------------------------------------------------------------
// Replay

fn replay(a: &vhcore::Args) -> i32 {
    let Some(p) = &a.replay else { vhcore::machinery_failure("replay needs a path") };
    let txt = std::fs::read_to_string(p).unwrap_or_else(|e| vhcore::machinery_failure(&format!("{}: {e}", p.display())));
    let v: Value = serde_json::from_str(&txt).unwrap_or_else(|e| vhcore::machinery_failure(&format!("replay file: {e}")));
    let Some(input) = v["replay"]["input"].as_str().map(|s| s.to_string()) else {
        vhcore::machinery_failure("replay file has no replay.input")
    };
    println!("replaying key={} input ({} bytes): {:?}", v["key"], input.len(), vhcore::truncate(&input, 300));
    println!("case: {}", v["replay"]["case"]);
    let (tx, rx) = channel();
    let inp = input.clone();
    std::thread::spawn(move || {
        vhcore::silence_panics();
        let o = check_input(&inp, true, false);
        let _ = tx.send(o);
    });
    match rx.recv_timeout(STALL_LIMIT) {
        Ok(o) => {
            for e in 0..4 {
                println!("  {} -> {}", ENTRIES[e], ["ok", "err", "PANIC"][o.res[e] as usize]);
            }
            for d in &o.descr {
                println!("  diagnostic {d}");
            }
            if o.viols.is_empty() {
                println!("no violation on this tree ({} diagnostics, {} spans in bounds)", o.n_diags, o.n_spans);
                0
            } else {
                for x in &o.viols {
                    println!("STILL VIOLATES key={} : {}", x.key, x.what);
                }
                1
            }
        }
        Err(_) => {
            println!("STILL VIOLATES key=hang : input did not finish within {} s", STALL_LIMIT.as_secs());
            1
        }
    }
}

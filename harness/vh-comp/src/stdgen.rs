//! Shared helpers of the std-library / forc-test checks (C27, C28, C29): raw (text) test cases with
//! expected log lists, batching + bisection over the worker pool, Mode F = Mode A self-check for raw
//! packages, confirmation of a single case in Mode A, a generic replay command, and a small generic
//! subprocess pool for checks that need their own worker-side command (C29).

use crate::engine::{LogRec, Outcome};
use crate::pool::Pool;
use crate::worker::{BuildOut, BuildSpec, Request};
use serde::de::DeserializeOwned;
use serde::Serialize;
use serde_json::json;
use std::io::{BufRead, BufReader, Write};
use std::path::PathBuf;
use std::process::{Command, Stdio};
use std::sync::atomic::{AtomicUsize, Ordering};
use std::sync::mpsc;
use std::sync::Mutex;
use std::time::Duration;

// ---------------------------------------------------------------------------------------------
// Expectations

/// Expected observable outcome of one generated `#[test]` entry.
#[derive(Clone, Debug, PartialEq, Eq)]
pub enum Exp {
    /// returns; exactly these log payloads in this order
    Ok(Vec<Vec<u8>>),
    /// reverts (with `code` when the documentation fixes one) after exactly these log payloads
    Revert { code: Option<u64>, logs: Vec<Vec<u8>> },
}

impl Exp {
    pub fn logs(&self) -> &Vec<Vec<u8>> {
        match self {
            Exp::Ok(l) => l,
            Exp::Revert { logs, .. } => logs,
        }
    }
    pub fn to_json(&self) -> serde_json::Value {
        match self {
            Exp::Ok(l) => json!({"kind": "ok", "logs": l.iter().map(hex::encode).collect::<Vec<_>>()}),
            Exp::Revert { code, logs } => {
                json!({"kind": "revert", "code": code, "logs": logs.iter().map(hex::encode).collect::<Vec<_>>()})
            }
        }
    }
    pub fn from_json(v: &serde_json::Value) -> Option<Exp> {
        let logs: Vec<Vec<u8>> = v["logs"].as_array()?.iter().filter_map(|s| hex::decode(s.as_str()?).ok()).collect();
        match v["kind"].as_str()? {
            "ok" => Some(Exp::Ok(logs)),
            "revert" => Some(Exp::Revert { code: v["code"].as_u64(), logs }),
            _ => None,
        }
    }
}

pub fn w64(x: u64) -> Vec<u8> {
    x.to_be_bytes().to_vec()
}

pub fn datas(logs: &[LogRec]) -> Vec<Vec<u8>> {
    logs.iter().map(|l| l.data.clone()).collect()
}

pub fn show_logs(l: &[Vec<u8>]) -> String {
    let parts: Vec<String> = l
        .iter()
        .map(|b| {
            if b.len() == 8 {
                format!("{}", u64::from_be_bytes(b[..].try_into().unwrap()))
            } else {
                format!("0x{}", hex::encode(b))
            }
        })
        .collect();
    format!("[{}]", parts.join(","))
}

/// Where two log lists first differ (index, got, expected).
fn first_diff(got: &[Vec<u8>], exp: &[Vec<u8>]) -> String {
    let n = got.len().min(exp.len());
    for i in 0..n {
        if got[i] != exp[i] {
            return format!(
                "log #{i}: got {} expected {} (got {} logs, expected {})",
                show_logs(&got[i..=i]),
                show_logs(&exp[i..=i]),
                got.len(),
                exp.len()
            );
        }
    }
    format!("log count differs: got {} expected {}; common prefix equal; got tail {} expected tail {}", got.len(), exp.len(), show_logs(&got[n..]), show_logs(&exp[n..]))
}

/// `None` when the outcome is the expected one, otherwise (failure shape, human text). Shapes:
/// `logs-differ` (also for logs emitted before an expected revert), `unexpected-revert`,
/// `missing-revert`, `wrong-revert-code`.
pub fn mismatch(out: &Outcome, exp: &Exp) -> Option<(&'static str, String)> {
    match (out, exp) {
        (Outcome::Ok { logs }, Exp::Ok(el)) => {
            let d = datas(logs);
            if &d == el {
                None
            } else {
                Some(("logs-differ", first_diff(&d, el)))
            }
        }
        (Outcome::Revert { code, logs }, Exp::Revert { code: ec, logs: el }) => {
            let d = datas(logs);
            if let Some(ec) = ec {
                if code != ec {
                    return Some(("wrong-revert-code", format!("revert code {code:#x}, documented {ec:#x}")));
                }
            }
            if &d != el {
                Some(("logs-differ", first_diff(&d, el)))
            } else {
                None
            }
        }
        (Outcome::Ok { logs }, Exp::Revert { logs: el, .. }) => {
            let d = datas(logs);
            Some((
                "missing-revert",
                format!(
                    "expected a revert after {} logs but the test returned with {} logs; extra logs {}",
                    el.len(),
                    d.len(),
                    show_logs(&d[el.len().min(d.len())..])
                ),
            ))
        }
        (Outcome::Revert { code, logs }, Exp::Ok(el)) => {
            let d = datas(logs);
            Some((
                "unexpected-revert",
                format!("unexpected revert({code:#x}) after {} of {} expected logs ({})", d.len(), el.len(), if el.starts_with(&d) { "all as expected so far".to_string() } else { first_diff(&d, el) }),
            ))
        }
    }
}

pub fn show_outcome(o: &Outcome) -> String {
    match o {
        Outcome::Ok { logs } => format!("ok{}", show_logs(&datas(logs))),
        Outcome::Revert { code, logs } => format!("revert({code:#x}){}", show_logs(&datas(logs))),
    }
}

// ---------------------------------------------------------------------------------------------
// Raw cases

/// One generated `#[test]` entry given as Sway text (the body of the test fn).
#[derive(Clone, Debug)]
pub struct RawCase {
    /// stable human descriptor (operation history / operands)
    pub desc: String,
    /// input-side part of the class key: operation + state predicate of the LAST step / the operands' class
    pub class: String,
    /// per-step input classes (step i's observations end at `step_log_ends[i]`), used to attribute a
    /// log difference to the step that produced it
    pub step_classes: Vec<String>,
    pub step_log_ends: Vec<usize>,
    pub body: String,
    pub expect: Exp,
    /// number of operations executed by the case
    pub steps: u32,
}

impl RawCase {
    /// Class of the step in which log index `i` was produced.
    pub fn class_at_log(&self, i: usize) -> &str {
        for (k, end) in self.step_log_ends.iter().enumerate() {
            if i < *end {
                return &self.step_classes[k];
            }
        }
        &self.class
    }
    /// Input class for a mismatch: the step that produced the first differing log (or the last step).
    pub fn class_for(&self, out: &Outcome) -> String {
        if self.step_classes.is_empty() {
            return self.class.clone();
        }
        let got = match out {
            Outcome::Ok { logs } | Outcome::Revert { logs, .. } => datas(logs),
        };
        let exp = self.expect.logs();
        let n = got.len().min(exp.len());
        let mut idx = n;
        for i in 0..n {
            if got[i] != exp[i] {
                idx = i;
                break;
            }
        }
        self.class_at_log(idx).to_string()
    }
}

pub fn render(prelude: &str, cases: &[&RawCase]) -> String {
    let mut o = String::with_capacity(prelude.len() + cases.len() * 256);
    o.push_str(prelude);
    for (i, c) in cases.iter().enumerate() {
        o.push_str(&format!("// {}\n#[test]\nfn t{i}() {{\n{}}}\n\n", c.desc.replace('\n', " "), c.body));
    }
    o
}

#[derive(Clone, Debug)]
pub enum RawResult {
    Ran(Outcome),
    BuildFailed { error: String, panic: Option<String>, panic_loc: String },
    Missing,
}

pub struct RawRun {
    pub results: Vec<RawResult>,
    pub packages_built: usize,
    pub worker_failures: Vec<String>,
    /// sum over packages of the worker-side wall milliseconds
    pub build_millis: u64,
}

fn build_failed(b: &BuildOut) -> bool {
    !b.ok || b.panic.is_some() || !b.run_error.is_empty()
}

fn fail_text(b: &BuildOut) -> String {
    let mut s = if b.error.is_empty() { b.run_error.clone() } else { b.error.clone() };
    for d in b.diagnostics.iter().take(3) {
        s.push_str(&format!(" | {} @{}..{}", d.message.replace('\n', " "), d.start, d.end));
    }
    s
}

pub fn test_spec(release: bool, mode_a: bool) -> BuildSpec {
    BuildSpec { label: if mode_a { "A".into() } else { "F".into() }, release, run_tests: true, mode_a, want_diagnostics: true, ..Default::default() }
}

/// Run all cases in consecutive batches of `batch` tests per package (Mode F, debug profile unless
/// `release`). A failing package is bisected until every case either ran or fails to build alone.
pub fn run_raw(pool: &Pool, prefix: &str, prelude: &str, cases: &[RawCase], batch: usize, release: bool) -> RawRun {
    let mut results: Vec<Option<RawResult>> = (0..cases.len()).map(|_| None).collect();
    let mut work: Vec<(usize, usize)> = vec![];
    let mut i = 0;
    while i < cases.len() {
        let len = batch.min(cases.len() - i);
        work.push((i, len));
        i += len;
    }
    let mut packages_built = 0;
    let mut worker_failures = vec![];
    let mut build_millis = 0u64;
    let mut round = 0;
    let t0 = std::time::Instant::now();
    while !work.is_empty() {
        let reqs: Vec<Request> = work
            .iter()
            .enumerate()
            .map(|(k, (first, len))| {
                let refs: Vec<&RawCase> = cases[*first..first + len].iter().collect();
                Request {
                    id: k as u64,
                    name: format!("{prefix}_r{round}_{k}"),
                    src: render(prelude, &refs),
                    extra_files: vec![],
                    with_std: true,
                    builds: vec![test_spec(release, false)],
                    existing_dir: None,
                }
            })
            .collect();
        eprintln!("[{prefix}] round {round}: {} packages ({} cases) t={:.0}s", reqs.len(), work.iter().map(|w| w.1).sum::<usize>(), t0.elapsed().as_secs_f64());
        let done = AtomicUsize::new(0);
        let total = reqs.len();
        let resps = pool.run_with(&reqs, &|_, _| {
            let d = done.fetch_add(1, Ordering::Relaxed) + 1;
            if d % 20 == 0 || d == total {
                eprintln!("[{prefix}]   {d}/{total} packages t={:.0}s", t0.elapsed().as_secs_f64());
            }
        });
        packages_built += reqs.len();
        let mut next = vec![];
        for ((first, len), resp) in work.iter().zip(resps) {
            let split = |next: &mut Vec<(usize, usize)>| {
                let h = len / 2;
                next.push((*first, h));
                next.push((first + h, len - h));
            };
            match resp {
                Err(reason) => {
                    eprintln!("[{prefix}]   package of {len} cases at {first}: worker failure: {}", vhcore::truncate(&reason, 200));
                    if *len == 1 {
                        worker_failures.push(format!("case `{}`: {reason}", cases[*first].desc));
                        results[*first] = Some(RawResult::BuildFailed { error: format!("worker failure: {reason}"), panic: Some(reason), panic_loc: "worker-died".into() });
                    } else {
                        split(&mut next);
                    }
                }
                Ok(r) => {
                    let b = &r.builds[0];
                    build_millis += b.millis;
                    if build_failed(b) {
                        eprintln!("[{prefix}]   package of {len} cases at {first} failed: {} {:?}", vhcore::truncate(&fail_text(b), 200), b.panic.as_ref().map(|p| vhcore::truncate(p, 160)));
                        if *len == 1 {
                            results[*first] = Some(RawResult::BuildFailed { error: fail_text(b), panic: b.panic.clone(), panic_loc: b.panic_loc.clone() });
                        } else {
                            split(&mut next);
                        }
                    } else {
                        let m = crate::worker::tests_map(b);
                        for k in 0..*len {
                            results[first + k] = Some(match m.get(&format!("t{k}")) {
                                Some(o) => RawResult::Ran(o.clone()),
                                None => RawResult::Missing,
                            });
                        }
                    }
                }
            }
        }
        work = next;
        round += 1;
        if round > 40 {
            vhcore::machinery_failure("bisection did not converge");
        }
    }
    RawRun { results: results.into_iter().map(|r| r.unwrap_or(RawResult::Missing)).collect(), packages_built, worker_failures, build_millis }
}

/// Build the same package in Mode F and Mode A (debug and release) and require identical bytecode,
/// ABI and storage slots, and identical test outcomes.
pub fn self_check_raw(pool: &Pool, name: &str, src: &str) -> Result<(), String> {
    let mk = |label: &str, release: bool, mode_a: bool| BuildSpec { label: label.into(), release, run_tests: true, mode_a, ..Default::default() };
    let req = Request {
        id: 0,
        name: name.to_string(),
        src: src.to_string(),
        extra_files: vec![],
        with_std: true,
        builds: vec![mk("F-debug", false, false), mk("A-debug", false, true), mk("F-release", true, false), mk("A-release", true, true)],
        existing_dir: None,
    };
    let resp = pool.run(&[req]).pop().unwrap().map_err(|e| format!("self-check worker failure: {e}"))?;
    for pair in resp.builds.chunks(2) {
        let (f, a) = (&pair[0], &pair[1]);
        if !f.ok || !a.ok {
            return Err(format!("self-check build failed: {} ok={} ({} {:?}), {} ok={} ({} {:?})", f.label, f.ok, f.error, f.panic, a.label, a.ok, a.error, a.panic));
        }
        if f.bytecode_hash != a.bytecode_hash || f.abi_hash != a.abi_hash || f.storage_hash != a.storage_hash {
            return Err(format!("Mode F and Mode A artefacts differ for {}: bytecode {} vs {}, abi {} vs {}, storage {} vs {}", f.label, f.bytecode_hash, a.bytecode_hash, f.abi_hash, a.abi_hash, f.storage_hash, a.storage_hash));
        }
        if crate::worker::tests_map(f) != crate::worker::tests_map(a) {
            return Err(format!("Mode F and Mode A test outcomes differ for {}", f.label));
        }
    }
    Ok(())
}

/// Rebuild one case alone through the plain forc path (Mode A, fresh engines).
pub fn confirm_alone(pool: &Pool, name: &str, prelude: &str, case: &RawCase, release: bool) -> RawResult {
    let req = Request {
        id: 0,
        name: name.to_string(),
        src: render(prelude, &[case]),
        extra_files: vec![],
        with_std: true,
        builds: vec![test_spec(release, true)],
        existing_dir: None,
    };
    match pool.run(&[req]).pop().unwrap() {
        Err(reason) => RawResult::BuildFailed { error: reason.clone(), panic: Some(reason), panic_loc: "worker-died".into() },
        Ok(r) => {
            let b = &r.builds[0];
            if build_failed(b) {
                RawResult::BuildFailed { error: fail_text(b), panic: b.panic.clone(), panic_loc: b.panic_loc.clone() }
            } else {
                match crate::worker::tests_map(b).get("t0") {
                    Some(o) => RawResult::Ran(o.clone()),
                    None => RawResult::Missing,
                }
            }
        }
    }
}

pub fn raw_replay_json(prelude: &str, case: &RawCase, observed: &str) -> serde_json::Value {
    json!({
        "desc": case.desc,
        "package_main_sw": render(prelude, &[case]),
        "test": "t0",
        "expect": case.expect.to_json(),
        "observed": observed,
        "how": "write package_main_sw as src/main.sw of a package depending on /repo/sway-lib-std, run `forc test`; compare test t0's ordered log payloads / revert status with `expect`",
    })
}

/// Shared body of "compare, confirm alone in Mode A, report": returns true when a violation was
/// reported. `key_of(shape, input class)` builds the class key.
#[allow(clippy::too_many_arguments)]
pub fn judge(
    rep: &mut vhcore::Reporter,
    pool: &Pool,
    id: &str,
    prelude: &str,
    case: &RawCase,
    res: &RawResult,
    confirm_counter: &mut usize,
    confirm_cap: usize,
    seen_keys: &mut std::collections::BTreeMap<String, usize>,
) -> bool {
    let (shape, msg, class): (String, String, String) = match res {
        RawResult::Ran(o) => match mismatch(o, &case.expect) {
            None => return false,
            Some((s, m)) => (s.to_string(), m, case.class_for(o)),
        },
        RawResult::BuildFailed { error, panic, panic_loc } => (
            if panic.is_some() { format!("compiler-panic@{panic_loc}") } else { "does-not-compile".into() },
            format!("{} {:?}", vhcore::truncate(error, 400), panic),
            case.class.clone(),
        ),
        RawResult::Missing => ("test-entry-missing".into(), "test entry missing from the results".into(), case.class.clone()),
    };
    let mut key = format!("{id}|{class}|{shape}");
    // Confirm alone in Mode A — at most `confirm_cap` confirmations per distinct key (each costs a
    // full std type-check); further cases of an already confirmed key are only counted.
    let n = seen_keys.entry(key.clone()).or_insert(0);
    *n += 1;
    // (once the reporter's cap of printed violations is reached nothing more would be printed anyway)
    if *n <= confirm_cap && rep.violation_count() < 25 {
        *confirm_counter += 1;
        let alone = confirm_alone(pool, &format!("{}_confirm{}", id.to_lowercase(), *confirm_counter), prelude, case, false);
        let still = match &alone {
            RawResult::Ran(o) => mismatch(o, &case.expect).is_some(),
            _ => true,
        };
        if !still {
            key.push_str("|only-in-batch");
        }
    }
    rep.violation(&key, &format!("{}: {msg}", case.desc), raw_replay_json(prelude, case, &msg));
    true
}

/// `replay <ID> <file>` for raw cases.
pub fn replay_raw(a: &vhcore::Args) -> i32 {
    let path = a.replay.clone().unwrap_or_else(|| vhcore::machinery_failure("replay needs a file"));
    let v: serde_json::Value = serde_json::from_str(&std::fs::read_to_string(&path).unwrap_or_else(|e| vhcore::machinery_failure(&format!("{e}"))))
        .unwrap_or_else(|e| vhcore::machinery_failure(&format!("{e}")));
    let r = &v["replay"];
    let src = r["package_main_sw"].as_str().unwrap_or_else(|| vhcore::machinery_failure("replay file has no package"));
    let expect = Exp::from_json(&r["expect"]);
    let pool = Pool::new(1, vhcore::work_dir(&format!("{}-replay", a.id)));
    let req = Request {
        id: 0,
        name: "replay_pkg".into(),
        src: src.to_string(),
        extra_files: vec![],
        with_std: true,
        existing_dir: None,
        builds: vec![test_spec(false, true)],
    };
    match pool.run(&[req]).pop().unwrap() {
        Err(e) => {
            println!("worker failure: {e}");
            1
        }
        Ok(resp) => {
            let b = &resp.builds[0];
            println!("build ok={} error={} panic={:?}@{}", b.ok, fail_text(b), b.panic, b.panic_loc);
            for t in &b.tests {
                println!("  {} -> {}", t.name, t.outcome.as_ref().map(show_outcome).unwrap_or_default());
            }
            match (expect, crate::worker::tests_map(b).get("t0")) {
                (Some(e), Some(o)) => match mismatch(o, &e) {
                    Some((shape, m)) => {
                        println!("STILL VIOLATES [{shape}]: {m}");
                        1
                    }
                    None => {
                        println!("matches the expectation now");
                        0
                    }
                },
                _ => {
                    println!("no comparable outcome");
                    1
                }
            }
        }
    }
}

/// CPU seconds (user+sys) consumed so far by waited-for children of this process.
pub fn children_cpu_seconds() -> f64 {
    unsafe {
        let mut ru: libc::rusage = std::mem::zeroed();
        libc::getrusage(libc::RUSAGE_CHILDREN, &mut ru);
        ru.ru_utime.tv_sec as f64 + ru.ru_stime.tv_sec as f64 + (ru.ru_utime.tv_usec as f64 + ru.ru_stime.tv_usec as f64) / 1e6
    }
}

// ---------------------------------------------------------------------------------------------
// Generic subprocess pool (`<same binary> <cmd> <scratch>`), one JSON document per line both ways.

pub struct SubPool {
    pub jobs: usize,
    pub scratch: PathBuf,
    pub cmd: String,
    pub timeout: Duration,
    pub recycle_after: usize,
}

struct SubProc {
    child: std::process::Child,
    stdin: std::process::ChildStdin,
    rx: mpsc::Receiver<Option<String>>,
    served: usize,
}

fn sub_spawn(cmd: &str, scratch: &PathBuf, idx: usize) -> SubProc {
    let exe = std::env::current_exe().expect("current_exe");
    let root = scratch.join(format!("w{idx}"));
    let mut child = Command::new(exe)
        .arg(cmd)
        .arg(&root)
        .stdin(Stdio::piped())
        .stdout(Stdio::piped())
        .stderr(Stdio::null())
        .spawn()
        .unwrap_or_else(|e| vhcore::machinery_failure(&format!("cannot spawn worker: {e}")));
    let stdin = child.stdin.take().unwrap();
    let stdout = child.stdout.take().unwrap();
    let (tx, rx) = mpsc::channel();
    std::thread::spawn(move || {
        let rd = BufReader::new(stdout);
        for line in rd.lines() {
            match line {
                Ok(l) => {
                    if let Some(rest) = l.strip_prefix("@@RESP ") {
                        if tx.send(Some(rest.to_string())).is_err() {
                            return;
                        }
                    }
                }
                Err(_) => break,
            }
        }
        let _ = tx.send(None);
    });
    SubProc { child, stdin, rx, served: 0 }
}

impl SubPool {
    pub fn new(jobs: usize, scratch: PathBuf, cmd: &str) -> SubPool {
        SubPool { jobs, scratch, cmd: cmd.to_string(), timeout: Duration::from_secs(900), recycle_after: 150 }
    }

    pub fn run<Q: Serialize + Sync, R: DeserializeOwned + Send>(&self, reqs: &[Q], progress: &(dyn Fn(usize) + Sync)) -> Vec<Result<R, String>> {
        let next = AtomicUsize::new(0);
        let done = AtomicUsize::new(0);
        let results: Mutex<Vec<Option<Result<R, String>>>> = Mutex::new((0..reqs.len()).map(|_| None).collect());
        let n = self.jobs.max(1).min(reqs.len().max(1));
        std::thread::scope(|s| {
            for w in 0..n {
                let next = &next;
                let done = &done;
                let results = &results;
                s.spawn(move || {
                    let mut proc: Option<SubProc> = None;
                    loop {
                        let i = next.fetch_add(1, Ordering::Relaxed);
                        if i >= reqs.len() {
                            break;
                        }
                        if proc.as_ref().map(|p| p.served >= self.recycle_after).unwrap_or(false) {
                            if let Some(mut p) = proc.take() {
                                drop(p.stdin);
                                let _ = p.child.wait();
                            }
                        }
                        if proc.is_none() {
                            proc = Some(sub_spawn(&self.cmd, &self.scratch, w));
                        }
                        let p = proc.as_mut().unwrap();
                        let line = serde_json::to_string(&reqs[i]).unwrap();
                        let res: Result<R, String> = (|| {
                            p.stdin
                                .write_all(line.as_bytes())
                                .and_then(|_| p.stdin.write_all(b"\n"))
                                .and_then(|_| p.stdin.flush())
                                .map_err(|e| format!("worker died before request: {e}"))?;
                            match p.rx.recv_timeout(self.timeout) {
                                Ok(Some(l)) => serde_json::from_str::<R>(&l).map_err(|e| format!("bad response: {e}")),
                                Ok(None) => {
                                    let st = p.child.wait().ok();
                                    Err(format!("worker exited during request: {st:?}"))
                                }
                                Err(_) => {
                                    let _ = p.child.kill();
                                    let _ = p.child.wait();
                                    Err(format!("timeout after {:?}", self.timeout))
                                }
                            }
                        })();
                        if res.is_err() {
                            if let Some(mut p) = proc.take() {
                                let _ = p.child.kill();
                                let _ = p.child.wait();
                            }
                        } else {
                            p.served += 1;
                        }
                        results.lock().unwrap()[i] = Some(res);
                        progress(done.fetch_add(1, Ordering::Relaxed) + 1);
                    }
                    if let Some(mut p) = proc.take() {
                        drop(p.stdin);
                        let _ = p.child.wait();
                    }
                });
            }
        });
        results.into_inner().unwrap().into_iter().map(|r| r.unwrap_or_else(|| Err("not run".into()))).collect()
    }
}

/// Worker side of `SubPool`: read one JSON request per line, answer with `@@RESP <json>`.
pub fn serve_lines<Q: DeserializeOwned, R: Serialize>(mut f: impl FnMut(Q) -> R) -> i32 {
    crate::install_panic_hook();
    let stdin = std::io::stdin();
    let stdout = std::io::stdout();
    for line in stdin.lock().lines() {
        let Ok(line) = line else { break };
        if line.trim().is_empty() {
            continue;
        }
        let req: Q = match serde_json::from_str(&line) {
            Ok(r) => r,
            Err(e) => vhcore::machinery_failure(&format!("worker: bad request: {e}")),
        };
        let resp = f(req);
        let mut o = stdout.lock();
        let _ = writeln!(o, "@@RESP {}", serde_json::to_string(&resp).unwrap());
        let _ = o.flush();
    }
    0
}

/// Development aid (never used by `/verif/check`): with `VH_DEV_STRIDE=n` only every n-th generated
/// case is executed, the run is marked non-exhaustive and says so in `caps_hit`. Lets the oracle of
/// a deep tier be smoke-tested on an overloaded machine; it is not a check result.
pub fn dev_stride_filter(all: &mut Vec<RawCase>, rep: &mut vhcore::Reporter) -> bool {
    match std::env::var("VH_DEV_STRIDE").ok().and_then(|s| s.parse::<usize>().ok()) {
        Some(n) if n > 1 => {
            let total = all.len();
            let mut k = 0usize;
            all.retain(|_| {
                k += 1;
                (k - 1) % n == 0
            });
            rep.cap(&format!("DEVELOPMENT RUN: VH_DEV_STRIDE={n}: only {} of {total} generated cases executed — not a check result", all.len()));
            true
        }
        _ => false,
    }
}

//! SwayGen (DESIGN.md §3.1): a typed AST for a Sway fragment with three interpretations —
//! `print` (Sway source), `eval` (reference semantics, deliberately boring), and ABI `encode` of
//! values for comparing `log` payloads.

use num_bigint::BigUint;
use num_traits::{One, Zero};
use std::collections::HashMap;
use std::fmt::Write;

// ---------------------------------------------------------------------------------------------
// Types and values

#[derive(Clone, Debug, PartialEq, Eq, Hash)]
pub enum Ty {
    U8,
    U16,
    U32,
    U64,
    U256,
    Bool,
    B256,
    Unit,
    Tuple(Vec<Ty>),
    Struct(usize),
    Enum(usize),
    Array(Box<Ty>, usize),
}

#[derive(Clone, Debug)]
pub struct StructDecl {
    pub name: String,
    pub fields: Vec<(String, Ty)>,
}

#[derive(Clone, Debug)]
pub struct EnumDecl {
    pub name: String,
    pub variants: Vec<(String, Ty)>,
}

#[derive(Clone, Debug, Default)]
pub struct Decls {
    pub structs: Vec<StructDecl>,
    pub enums: Vec<EnumDecl>,
}

#[derive(Clone, Debug, PartialEq, Eq)]
pub enum Value {
    Int { bits: u16, v: BigUint },
    B256(BigUint),
    Bool(bool),
    Unit,
    Tuple(Vec<Value>),
    Struct(usize, Vec<Value>),
    Enum(usize, usize, Box<Value>),
    Array(Vec<Value>),
}

pub fn int(bits: u16, v: u64) -> Value {
    Value::Int {
        bits,
        v: BigUint::from(v),
    }
}

pub fn big(bits: u16, v: BigUint) -> Value {
    Value::Int { bits, v }
}

pub fn max_of(bits: u16) -> BigUint {
    (BigUint::one() << bits as usize) - BigUint::one()
}

impl Ty {
    pub fn bits(&self) -> Option<u16> {
        match self {
            Ty::U8 => Some(8),
            Ty::U16 => Some(16),
            Ty::U32 => Some(32),
            Ty::U64 => Some(64),
            Ty::U256 => Some(256),
            _ => None,
        }
    }
    pub fn of_bits(bits: u16) -> Ty {
        match bits {
            8 => Ty::U8,
            16 => Ty::U16,
            32 => Ty::U32,
            64 => Ty::U64,
            256 => Ty::U256,
            _ => panic!("bits"),
        }
    }
    pub fn print(&self, d: &Decls) -> String {
        match self {
            Ty::U8 => "u8".into(),
            Ty::U16 => "u16".into(),
            Ty::U32 => "u32".into(),
            Ty::U64 => "u64".into(),
            Ty::U256 => "u256".into(),
            Ty::Bool => "bool".into(),
            Ty::B256 => "b256".into(),
            Ty::Unit => "()".into(),
            Ty::Tuple(ts) => {
                let inner: Vec<String> = ts.iter().map(|t| t.print(d)).collect();
                if inner.len() == 1 {
                    format!("({},)", inner[0])
                } else {
                    format!("({})", inner.join(", "))
                }
            }
            Ty::Struct(i) => d.structs[*i].name.clone(),
            Ty::Enum(i) => d.enums[*i].name.clone(),
            Ty::Array(t, n) => format!("[{}; {}]", t.print(d), n),
        }
    }
}

impl Value {
    /// Canonical Fuel ABI encoding (v1) — what `log(v)` emits as LogData payload.
    pub fn encode(&self, out: &mut Vec<u8>) {
        match self {
            Value::Int { bits, v } => {
                let n = (*bits as usize) / 8;
                let b = v.to_bytes_be();
                assert!(b.len() <= n, "value wider than its type");
                out.extend(std::iter::repeat(0u8).take(n - b.len()));
                out.extend(b);
            }
            Value::B256(v) => {
                let b = v.to_bytes_be();
                out.extend(std::iter::repeat(0u8).take(32 - b.len()));
                out.extend(b);
            }
            Value::Bool(b) => out.push(*b as u8),
            Value::Unit => {}
            Value::Tuple(vs) | Value::Struct(_, vs) | Value::Array(vs) => {
                for v in vs {
                    v.encode(out);
                }
            }
            Value::Enum(_, var, payload) => {
                out.extend((*var as u64).to_be_bytes());
                payload.encode(out);
            }
        }
    }
    pub fn encoded(&self) -> Vec<u8> {
        let mut o = vec![];
        self.encode(&mut o);
        o
    }

    pub fn print(&self, d: &Decls) -> String {
        match self {
            Value::Int { bits, v } => match bits {
                256 => format!("0x{:064x}u256", v),
                64 => format!("{v}u64"),
                b => format!("{v}u{b}"),
            },
            Value::B256(v) => format!("0x{:064x}", v),
            Value::Bool(b) => format!("{b}"),
            Value::Unit => "()".into(),
            Value::Tuple(vs) => {
                let inner: Vec<String> = vs.iter().map(|v| v.print(d)).collect();
                if inner.len() == 1 {
                    format!("({},)", inner[0])
                } else {
                    format!("({})", inner.join(", "))
                }
            }
            Value::Struct(i, vs) => {
                let sd = &d.structs[*i];
                let fs: Vec<String> = sd
                    .fields
                    .iter()
                    .zip(vs)
                    .map(|((n, _), v)| format!("{n}: {}", v.print(d)))
                    .collect();
                format!("{} {{ {} }}", sd.name, fs.join(", "))
            }
            Value::Enum(i, var, p) => {
                let ed = &d.enums[*i];
                match **p {
                    Value::Unit => format!("{}::{}", ed.name, ed.variants[*var].0),
                    _ => format!("{}::{}({})", ed.name, ed.variants[*var].0, p.print(d)),
                }
            }
            Value::Array(vs) => {
                let inner: Vec<String> = vs.iter().map(|v| v.print(d)).collect();
                format!("[{}]", inner.join(", "))
            }
        }
    }
}

// ---------------------------------------------------------------------------------------------
// Expressions and statements

#[derive(Clone, Copy, Debug, PartialEq, Eq, Hash)]
pub enum BinOp {
    Add,
    Sub,
    Mul,
    Div,
    Mod,
    And,
    Or,
    Xor,
    Shl,
    Shr,
    Eq,
    Ne,
    Lt,
    Gt,
    Le,
    Ge,
    LAnd,
    LOr,
}

impl BinOp {
    pub fn sym(&self) -> &'static str {
        match self {
            BinOp::Add => "+",
            BinOp::Sub => "-",
            BinOp::Mul => "*",
            BinOp::Div => "/",
            BinOp::Mod => "%",
            BinOp::And => "&",
            BinOp::Or => "|",
            BinOp::Xor => "^",
            BinOp::Shl => "<<",
            BinOp::Shr => ">>",
            BinOp::Eq => "==",
            BinOp::Ne => "!=",
            BinOp::Lt => "<",
            BinOp::Gt => ">",
            BinOp::Le => "<=",
            BinOp::Ge => ">=",
            BinOp::LAnd => "&&",
            BinOp::LOr => "||",
        }
    }
    pub const ARITH: [BinOp; 5] = [BinOp::Add, BinOp::Sub, BinOp::Mul, BinOp::Div, BinOp::Mod];
    pub const BITS: [BinOp; 3] = [BinOp::And, BinOp::Or, BinOp::Xor];
    pub const SHIFTS: [BinOp; 2] = [BinOp::Shl, BinOp::Shr];
    pub const CMP: [BinOp; 6] = [BinOp::Eq, BinOp::Ne, BinOp::Lt, BinOp::Gt, BinOp::Le, BinOp::Ge];
}

#[derive(Clone, Debug)]
pub enum Pat {
    Wild,
    Bind(String),
    Lit(Value),
    Tuple(Vec<Pat>),
    Variant(usize, usize, Box<Pat>),
    Struct(usize, Vec<Pat>),
    Or(Vec<Pat>),
}

#[derive(Clone, Debug)]
pub enum Expr {
    Lit(Value),
    Var(String),
    /// value passed through `opq` (identity at run time, opaque to every compile-time evaluation)
    Opq(Box<Expr>),
    Bin(BinOp, Box<Expr>, Box<Expr>),
    Not(Box<Expr>),
    If(Box<Expr>, Box<Block>, Box<Block>),
    Call(String, Vec<Expr>),
    Tuple(Vec<Expr>),
    TupleIdx(Box<Expr>, usize),
    Struct(usize, Vec<Expr>),
    Field(Box<Expr>, usize),
    Array(Vec<Expr>),
    Index(Box<Expr>, Box<Expr>),
    EnumNew(usize, usize, Box<Expr>),
    Match(Box<Expr>, Vec<(Pat, Expr)>),
    /// widening cast `.as_uN()`
    Widen(u16, Box<Expr>),
    /// narrowing cast `.try_as_uN().unwrap()` (reverts with 0 when out of range)
    Narrow(u16, Box<Expr>),
    Block(Box<Block>),
    /// printed as the raw text (`{P}` = case prefix), evaluated as the inner expression: used to
    /// reference compile-time evaluated items (consts, configurables) whose reference value is
    /// the run-time semantics of their initializer
    Raw(String, Box<Expr>),
}

#[derive(Clone, Debug)]
pub enum LValue {
    Var(String),
    Field(Box<LValue>, usize),
    TupleIdx(Box<LValue>, usize),
    Index(Box<LValue>, Expr),
}

#[derive(Clone, Debug)]
pub enum Stmt {
    Let(String, bool, Option<Ty>, Expr),
    Assign(LValue, Expr),
    While(Expr, Vec<Stmt>),
    If(Expr, Vec<Stmt>, Vec<Stmt>),
    Break,
    Continue,
    Return(Expr),
    Log(Expr),
    Require(Expr, Expr),
    Assert(Expr),
    Expr(Expr),
}

#[derive(Clone, Debug, Default)]
pub struct Block {
    pub stmts: Vec<Stmt>,
    pub result: Option<Expr>,
}

#[derive(Clone, Copy, Debug, PartialEq, Eq)]
pub enum ParamMode {
    Value,
    MutValue,
    RefMut,
}

#[derive(Clone, Copy, Debug, PartialEq, Eq)]
pub enum Inline {
    Default,
    Never,
    Always,
}

#[derive(Clone, Debug)]
pub struct Func {
    pub name: String,
    /// generic type parameter names (printed as `<T, U>`); types in params may use `Ty` only, so a
    /// generic function is represented by its instantiation types and printed with explicit `T`s
    pub generics: Vec<String>,
    pub params: Vec<(String, ParamMode, Ty, Option<String>)>, // name, mode, type, generic name override
    pub ret: Ty,
    pub ret_generic: Option<String>,
    pub body: Block,
    pub inline: Inline,
}

#[derive(Clone, Debug, Default)]
pub struct Program {
    pub decls: Decls,
    pub funcs: Vec<Func>,
    /// raw top-level items (e.g. `const {P}X: u8 = …;`); `{P}` is replaced by the case prefix
    pub raw_items: Vec<String>,
    /// raw entries of the package's single `configurable { … }` block (`{P}K: u8 = …`)
    pub configurables: Vec<String>,
}

pub fn lit(v: Value) -> Expr {
    Expr::Lit(v)
}
pub fn var(n: &str) -> Expr {
    Expr::Var(n.to_string())
}
pub fn opq(e: Expr) -> Expr {
    Expr::Opq(Box::new(e))
}
pub fn bin(op: BinOp, a: Expr, b: Expr) -> Expr {
    Expr::Bin(op, Box::new(a), Box::new(b))
}
pub fn call(f: &str, args: Vec<Expr>) -> Expr {
    Expr::Call(f.to_string(), args)
}

// ---------------------------------------------------------------------------------------------
// Printer

pub struct Printer<'a> {
    pub d: &'a Decls,
}

impl<'a> Printer<'a> {
    pub fn pat(&self, p: &Pat) -> String {
        match p {
            Pat::Wild => "_".into(),
            Pat::Bind(n) => n.clone(),
            Pat::Lit(v) => v.print(self.d),
            Pat::Tuple(ps) => {
                let inner: Vec<String> = ps.iter().map(|p| self.pat(p)).collect();
                format!("({})", inner.join(", "))
            }
            Pat::Variant(e, v, p) => {
                let ed = &self.d.enums[*e];
                if matches!(ed.variants[*v].1, Ty::Unit) {
                    format!("{}::{}", ed.name, ed.variants[*v].0)
                } else {
                    format!("{}::{}({})", ed.name, ed.variants[*v].0, self.pat(p))
                }
            }
            Pat::Struct(s, ps) => {
                let sd = &self.d.structs[*s];
                let fs: Vec<String> = sd
                    .fields
                    .iter()
                    .zip(ps)
                    .map(|((n, _), p)| format!("{n}: {}", self.pat(p)))
                    .collect();
                format!("{} {{ {} }}", sd.name, fs.join(", "))
            }
            Pat::Or(ps) => ps.iter().map(|p| self.pat(p)).collect::<Vec<_>>().join(" | "),
        }
    }

    pub fn expr(&self, e: &Expr) -> String {
        match e {
            Expr::Lit(v) => v.print(self.d),
            Expr::Var(n) => n.clone(),
            Expr::Opq(e) => format!("opq({})", self.expr(e)),
            Expr::Bin(op, a, b) => format!("({} {} {})", self.expr(a), op.sym(), self.expr(b)),
            Expr::Not(a) => format!("(!{})", self.expr(a)),
            Expr::If(c, t, f) => format!(
                "(if {} {} else {})",
                self.expr(c),
                self.block(t, 0),
                self.block(f, 0)
            ),
            Expr::Call(f, args) => {
                let a: Vec<String> = args.iter().map(|a| self.expr(a)).collect();
                format!("{f}({})", a.join(", "))
            }
            Expr::Tuple(es) => {
                let a: Vec<String> = es.iter().map(|a| self.expr(a)).collect();
                if a.len() == 1 {
                    format!("({},)", a[0])
                } else {
                    format!("({})", a.join(", "))
                }
            }
            Expr::TupleIdx(e, i) => format!("{}.{i}", self.expr(e)),
            Expr::Struct(s, es) => {
                let sd = &self.d.structs[*s];
                let fs: Vec<String> = sd
                    .fields
                    .iter()
                    .zip(es)
                    .map(|((n, _), e)| format!("{n}: {}", self.expr(e)))
                    .collect();
                format!("{} {{ {} }}", sd.name, fs.join(", "))
            }
            Expr::Field(e, i) => {
                // field names are f0, f1, … by construction
                format!("{}.f{i}", self.expr(e))
            }
            Expr::Array(es) => {
                let a: Vec<String> = es.iter().map(|a| self.expr(a)).collect();
                format!("[{}]", a.join(", "))
            }
            Expr::Index(e, i) => format!("{}[{}]", self.expr(e), self.expr(i)),
            Expr::EnumNew(en, v, p) => {
                let ed = &self.d.enums[*en];
                if matches!(ed.variants[*v].1, Ty::Unit) {
                    format!("{}::{}", ed.name, ed.variants[*v].0)
                } else {
                    format!("{}::{}({})", ed.name, ed.variants[*v].0, self.expr(p))
                }
            }
            Expr::Match(s, arms) => {
                let mut o = format!("(match {} {{ ", self.expr(s));
                for (p, e) in arms {
                    let _ = write!(o, "{} => {}, ", self.pat(p), self.expr(e));
                }
                o.push_str("})");
                o
            }
            Expr::Widen(b, e) => format!("{}.as_u{b}()", self.expr(e)),
            Expr::Narrow(b, e) => format!("{}.try_as_u{b}().unwrap()", self.expr(e)),
            Expr::Block(b) => self.block(b, 0),
            Expr::Raw(s, _) => s.clone(),
        }
    }

    pub fn lvalue(&self, l: &LValue) -> String {
        match l {
            LValue::Var(n) => n.clone(),
            LValue::Field(l, i) => format!("{}.f{i}", self.lvalue(l)),
            LValue::TupleIdx(l, i) => format!("{}.{i}", self.lvalue(l)),
            LValue::Index(l, e) => format!("{}[{}]", self.lvalue(l), self.expr(e)),
        }
    }

    pub fn stmts(&self, ss: &[Stmt], ind: usize) -> String {
        let pad = "    ".repeat(ind);
        let mut o = String::new();
        for s in ss {
            match s {
                Stmt::Let(n, m, t, e) => {
                    let _ = writeln!(
                        o,
                        "{pad}let {}{n}{} = {};",
                        if *m { "mut " } else { "" },
                        t.as_ref()
                            .map(|t| format!(": {}", t.print(self.d)))
                            .unwrap_or_default(),
                        self.expr(e)
                    );
                }
                Stmt::Assign(l, e) => {
                    let _ = writeln!(o, "{pad}{} = {};", self.lvalue(l), self.expr(e));
                }
                Stmt::While(c, b) => {
                    let _ = writeln!(o, "{pad}while {} {{", self.expr(c));
                    o.push_str(&self.stmts(b, ind + 1));
                    let _ = writeln!(o, "{pad}}}");
                }
                Stmt::If(c, t, f) => {
                    let _ = writeln!(o, "{pad}if {} {{", self.expr(c));
                    o.push_str(&self.stmts(t, ind + 1));
                    if f.is_empty() {
                        let _ = writeln!(o, "{pad}}}");
                    } else {
                        let _ = writeln!(o, "{pad}}} else {{");
                        o.push_str(&self.stmts(f, ind + 1));
                        let _ = writeln!(o, "{pad}}}");
                    }
                }
                Stmt::Break => {
                    let _ = writeln!(o, "{pad}break;");
                }
                Stmt::Continue => {
                    let _ = writeln!(o, "{pad}continue;");
                }
                Stmt::Return(e) => {
                    let _ = writeln!(o, "{pad}return {};", self.expr(e));
                }
                Stmt::Log(e) => {
                    let _ = writeln!(o, "{pad}log({});", self.expr(e));
                }
                Stmt::Require(c, v) => {
                    let _ = writeln!(o, "{pad}require({}, {});", self.expr(c), self.expr(v));
                }
                Stmt::Assert(c) => {
                    let _ = writeln!(o, "{pad}assert({});", self.expr(c));
                }
                Stmt::Expr(e) => {
                    let _ = writeln!(o, "{pad}{};", self.expr(e));
                }
            }
        }
        o
    }

    pub fn block(&self, b: &Block, ind: usize) -> String {
        let pad = "    ".repeat(ind);
        let mut o = String::from("{\n");
        o.push_str(&self.stmts(&b.stmts, ind + 1));
        if let Some(r) = &b.result {
            let _ = writeln!(o, "{pad}    {}", self.expr(r));
        }
        let _ = write!(o, "{pad}}}");
        o
    }

    pub fn func(&self, f: &Func) -> String {
        let mut o = String::new();
        match f.inline {
            Inline::Never => o.push_str("#[inline(never)]\n"),
            Inline::Always => o.push_str("#[inline(always)]\n"),
            Inline::Default => {}
        }
        let ps: Vec<String> = f
            .params
            .iter()
            .map(|(n, m, t, g)| {
                let ty = g.clone().unwrap_or_else(|| t.print(self.d));
                match m {
                    ParamMode::Value => format!("{n}: {ty}"),
                    ParamMode::MutValue => format!("mut {n}: {ty}"),
                    ParamMode::RefMut => format!("ref mut {n}: {ty}"),
                }
            })
            .collect();
        let generics = if f.generics.is_empty() {
            String::new()
        } else {
            format!("<{}>", f.generics.join(", "))
        };
        let ret = f
            .ret_generic
            .clone()
            .unwrap_or_else(|| f.ret.print(self.d));
        let _ = write!(
            o,
            "fn {}{}({}){} {}\n",
            f.name,
            generics,
            ps.join(", "),
            if matches!(f.ret, Ty::Unit) && f.ret_generic.is_none() {
                String::new()
            } else {
                format!(" -> {ret}")
            },
            self.block(&f.body, 0)
        );
        o
    }

    pub fn decls(&self) -> String {
        let mut o = String::new();
        for s in &self.d.structs {
            let fs: Vec<String> = s
                .fields
                .iter()
                .map(|(n, t)| format!("{n}: {}", t.print(self.d)))
                .collect();
            let _ = writeln!(o, "struct {} {{ {} }}", s.name, fs.join(", "));
        }
        for e in &self.d.enums {
            let vs: Vec<String> = e
                .variants
                .iter()
                .map(|(n, t)| format!("{n}: {}", t.print(self.d)))
                .collect();
            let _ = writeln!(o, "enum {} {{ {} }}", e.name, vs.join(", "));
        }
        o
    }
}

// ---------------------------------------------------------------------------------------------
// Reference interpreter

pub const REVERT_REQUIRE: u64 = 0xffff_ffff_ffff_0000;
pub const REVERT_ASSERT: u64 = 0xffff_ffff_ffff_0004;

#[derive(Debug)]
pub enum Exc {
    Revert(u64),
    Break,
    Continue,
    Return(Value),
    /// the generator produced something outside the fragment (machinery error, never a verdict)
    Stuck(String),
}

#[derive(Clone, Debug, PartialEq, Eq)]
pub enum Expect {
    Ok(Vec<Vec<u8>>),
    Revert(u64, Vec<Vec<u8>>),
}

pub struct Interp<'a> {
    pub prog: &'a Program,
    pub logs: Vec<Vec<u8>>,
    pub steps: u64,
    scopes: Vec<HashMap<String, Value>>,
}

type R<T> = Result<T, Exc>;

fn stuck<T>(s: impl Into<String>) -> R<T> {
    Err(Exc::Stuck(s.into()))
}

impl<'a> Interp<'a> {
    pub fn new(prog: &'a Program) -> Self {
        Interp {
            prog,
            logs: vec![],
            steps: 0,
            scopes: vec![HashMap::new()],
        }
    }

    fn lookup(&self, n: &str) -> R<Value> {
        for s in self.scopes.iter().rev() {
            if let Some(v) = s.get(n) {
                return Ok(v.clone());
            }
        }
        stuck(format!("unbound {n}"))
    }

    fn set(&mut self, n: &str, v: Value) -> R<()> {
        for s in self.scopes.iter_mut().rev() {
            if let Some(slot) = s.get_mut(n) {
                *slot = v;
                return Ok(());
            }
        }
        stuck(format!("assign to unbound {n}"))
    }

    fn tick(&mut self) -> R<()> {
        self.steps += 1;
        if self.steps > 200_000 {
            return stuck("step budget");
        }
        Ok(())
    }

    pub fn binop(op: BinOp, a: &Value, b: &Value) -> R<Value> {
        use BinOp::*;
        match (a, b) {
            (Value::Bool(x), Value::Bool(y)) => Ok(Value::Bool(match op {
                Eq => x == y,
                Ne => x != y,
                LAnd => *x && *y,
                LOr => *x || *y,
                _ => return stuck("bool op"),
            })),
            (Value::B256(x), Value::B256(y)) => Ok(match op {
                Eq => Value::Bool(x == y),
                Ne => Value::Bool(x != y),
                Lt => Value::Bool(x < y),
                Gt => Value::Bool(x > y),
                And => Value::B256(x & y),
                Or => Value::B256(x | y),
                Xor => Value::B256(x ^ y),
                _ => return stuck("b256 op"),
            }),
            (Value::Int { bits, v: x }, Value::Int { bits: bb, v: y }) => {
                let bits = *bits;
                let max = max_of(bits);
                let modulus = &max + BigUint::one();
                let fit = |r: BigUint| -> R<Value> {
                    if r > max {
                        Err(Exc::Revert(0))
                    } else {
                        Ok(big(bits, r))
                    }
                };
                if matches!(op, Shl | Shr) {
                    if *bb != 64 {
                        return stuck("shift amount must be u64");
                    }
                    let width = bits.max(64) as u64; // narrow ints live in 64-bit registers
                    let amt = y.iter_u64_digits().next().unwrap_or(0);
                    let big_amt = y.bits() > 64 || amt >= width;
                    return Ok(match op {
                        Shl => {
                            if big_amt {
                                big(bits, BigUint::zero())
                            } else {
                                // shift in the register width, drop bits above it, then (narrow
                                // types) mask to the type's width (std `ops.sw`)
                                let reg_mod = BigUint::one() << width as usize;
                                big(bits, ((x << amt as usize) % reg_mod) & &max)
                            }
                        }
                        _ => {
                            if big_amt {
                                big(bits, BigUint::zero())
                            } else {
                                big(bits, x >> amt as usize)
                            }
                        }
                    });
                }
                if bits != *bb {
                    return stuck(format!("int width mismatch {bits} vs {bb}"));
                }
                match op {
                    Add => fit(x + y),
                    Sub => {
                        if y > x {
                            Err(Exc::Revert(0))
                        } else {
                            Ok(big(bits, x - y))
                        }
                    }
                    Mul => fit(x * y),
                    Div => {
                        if y.is_zero() {
                            Err(Exc::Revert(0))
                        } else {
                            Ok(big(bits, x / y))
                        }
                    }
                    Mod => {
                        if y.is_zero() {
                            Err(Exc::Revert(0))
                        } else {
                            Ok(big(bits, x % y))
                        }
                    }
                    And => Ok(big(bits, x & y)),
                    Or => Ok(big(bits, x | y)),
                    Xor => Ok(big(bits, x ^ y)),
                    Eq => Ok(Value::Bool(x == y)),
                    Ne => Ok(Value::Bool(x != y)),
                    Lt => Ok(Value::Bool(x < y)),
                    Gt => Ok(Value::Bool(x > y)),
                    Le => Ok(Value::Bool(x <= y)),
                    Ge => Ok(Value::Bool(x >= y)),
                    _ => {
                        let _ = modulus;
                        stuck("int op")
                    }
                }
            }
            // structural equality of aggregates (std PartialEq for tuples/arrays, derived not assumed)
            _ => stuck(format!("binop {op:?} on {a:?} {b:?}")),
        }
    }

    fn matches(&mut self, p: &Pat, v: &Value, binds: &mut Vec<(String, Value)>) -> R<bool> {
        Ok(match (p, v) {
            (Pat::Wild, _) => true,
            (Pat::Bind(n), v) => {
                binds.push((n.clone(), v.clone()));
                true
            }
            (Pat::Lit(l), v) => l == v,
            (Pat::Tuple(ps), Value::Tuple(vs)) => {
                for (p, v) in ps.iter().zip(vs) {
                    if !self.matches(p, v, binds)? {
                        return Ok(false);
                    }
                }
                true
            }
            (Pat::Variant(e, var, p), Value::Enum(e2, var2, pv)) => {
                e == e2 && var == var2 && self.matches(p, pv, binds)?
            }
            (Pat::Struct(s, ps), Value::Struct(s2, vs)) => {
                if s != s2 {
                    return stuck("struct pattern type");
                }
                for (p, v) in ps.iter().zip(vs) {
                    if !self.matches(p, v, binds)? {
                        return Ok(false);
                    }
                }
                true
            }
            (Pat::Or(ps), v) => {
                for p in ps {
                    let mut b = vec![];
                    if self.matches(p, v, &mut b)? {
                        binds.extend(b);
                        return Ok(true);
                    }
                }
                false
            }
            _ => return stuck("pattern/value shape"),
        })
    }

    pub fn eval(&mut self, e: &Expr) -> R<Value> {
        self.tick()?;
        match e {
            Expr::Lit(v) => Ok(v.clone()),
            Expr::Var(n) => self.lookup(n),
            Expr::Opq(e) => self.eval(e),
            Expr::Bin(BinOp::LAnd, a, b) => match self.eval(a)? {
                Value::Bool(false) => Ok(Value::Bool(false)),
                Value::Bool(true) => self.eval(b),
                _ => stuck("&& on non-bool"),
            },
            Expr::Bin(BinOp::LOr, a, b) => match self.eval(a)? {
                Value::Bool(true) => Ok(Value::Bool(true)),
                Value::Bool(false) => self.eval(b),
                _ => stuck("|| on non-bool"),
            },
            Expr::Bin(op, a, b) => {
                let x = self.eval(a)?;
                let y = self.eval(b)?;
                Self::binop(*op, &x, &y)
            }
            Expr::Not(a) => match self.eval(a)? {
                Value::Bool(b) => Ok(Value::Bool(!b)),
                Value::Int { bits, v } => Ok(big(bits, max_of(bits) ^ v)),
                Value::B256(v) => Ok(Value::B256(max_of(256) ^ v)),
                _ => stuck("not"),
            },
            Expr::If(c, t, f) => match self.eval(c)? {
                Value::Bool(true) => self.block(t),
                Value::Bool(false) => self.block(f),
                _ => stuck("if cond"),
            },
            Expr::Call(f, args) => self.call(f, args),
            Expr::Tuple(es) => Ok(Value::Tuple(
                es.iter().map(|e| self.eval(e)).collect::<R<Vec<_>>>()?,
            )),
            Expr::TupleIdx(e, i) => match self.eval(e)? {
                Value::Tuple(vs) => vs.get(*i).cloned().ok_or(Exc::Stuck("tuple idx".into())),
                _ => stuck("tuple idx on non-tuple"),
            },
            Expr::Struct(s, es) => Ok(Value::Struct(
                *s,
                es.iter().map(|e| self.eval(e)).collect::<R<Vec<_>>>()?,
            )),
            Expr::Field(e, i) => match self.eval(e)? {
                Value::Struct(_, vs) => vs.get(*i).cloned().ok_or(Exc::Stuck("field".into())),
                _ => stuck("field on non-struct"),
            },
            Expr::Array(es) => Ok(Value::Array(
                es.iter().map(|e| self.eval(e)).collect::<R<Vec<_>>>()?,
            )),
            Expr::Index(e, i) => {
                let a = self.eval(e)?;
                let i = self.eval(i)?;
                match (a, i) {
                    (Value::Array(vs), Value::Int { v, .. }) => {
                        let idx = v.iter_u64_digits().next().unwrap_or(0) as usize;
                        if v.bits() > 64 || idx >= vs.len() {
                            Err(Exc::Revert(0))
                        } else {
                            Ok(vs[idx].clone())
                        }
                    }
                    _ => stuck("index"),
                }
            }
            Expr::EnumNew(en, v, p) => Ok(Value::Enum(*en, *v, Box::new(self.eval(p)?))),
            Expr::Match(s, arms) => {
                let v = self.eval(s)?;
                for (p, e) in arms {
                    let mut binds = vec![];
                    if self.matches(p, &v, &mut binds)? {
                        self.scopes.push(binds.into_iter().collect());
                        let r = self.eval(e);
                        self.scopes.pop();
                        return r;
                    }
                }
                stuck("non-exhaustive match in generated program")
            }
            Expr::Widen(b, e) => match self.eval(e)? {
                Value::Int { bits, v } if bits <= *b => Ok(big(*b, v)),
                _ => stuck("widen"),
            },
            Expr::Narrow(b, e) => match self.eval(e)? {
                Value::Int { v, .. } => {
                    if v > max_of(*b) {
                        Err(Exc::Revert(0))
                    } else {
                        Ok(big(*b, v))
                    }
                }
                _ => stuck("narrow"),
            },
            Expr::Block(b) => self.block(b),
            Expr::Raw(_, e) => self.eval(e),
        }
    }

    fn block(&mut self, b: &Block) -> R<Value> {
        self.scopes.push(HashMap::new());
        let r = (|| {
            self.stmts(&b.stmts)?;
            match &b.result {
                Some(e) => self.eval(e),
                None => Ok(Value::Unit),
            }
        })();
        self.scopes.pop();
        r
    }

    fn lv_get(&mut self, l: &LValue) -> R<Value> {
        match l {
            LValue::Var(n) => self.lookup(n),
            LValue::Field(l, i) => match self.lv_get(l)? {
                Value::Struct(_, vs) => Ok(vs[*i].clone()),
                _ => stuck("lv field"),
            },
            LValue::TupleIdx(l, i) => match self.lv_get(l)? {
                Value::Tuple(vs) => Ok(vs[*i].clone()),
                _ => stuck("lv tuple"),
            },
            LValue::Index(l, e) => {
                let a = self.lv_get(l)?;
                let i = self.eval(e)?;
                match (a, i) {
                    (Value::Array(vs), Value::Int { v, .. }) => {
                        let idx = v.iter_u64_digits().next().unwrap_or(0) as usize;
                        if idx >= vs.len() {
                            Err(Exc::Revert(0))
                        } else {
                            Ok(vs[idx].clone())
                        }
                    }
                    _ => stuck("lv index"),
                }
            }
        }
    }

    fn lv_set(&mut self, l: &LValue, nv: Value) -> R<()> {
        match l {
            LValue::Var(n) => self.set(n, nv),
            LValue::Field(inner, i) => {
                let mut cur = self.lv_get(inner)?;
                match &mut cur {
                    Value::Struct(_, vs) => vs[*i] = nv,
                    _ => return stuck("lv_set field"),
                }
                self.lv_set(inner, cur)
            }
            LValue::TupleIdx(inner, i) => {
                let mut cur = self.lv_get(inner)?;
                match &mut cur {
                    Value::Tuple(vs) => vs[*i] = nv,
                    _ => return stuck("lv_set tuple"),
                }
                self.lv_set(inner, cur)
            }
            LValue::Index(inner, e) => {
                let mut cur = self.lv_get(inner)?;
                let i = self.eval(e)?;
                match (&mut cur, i) {
                    (Value::Array(vs), Value::Int { v, .. }) => {
                        let idx = v.iter_u64_digits().next().unwrap_or(0) as usize;
                        if idx >= vs.len() {
                            return Err(Exc::Revert(0));
                        }
                        vs[idx] = nv;
                    }
                    _ => return stuck("lv_set index"),
                }
                self.lv_set(inner, cur)
            }
        }
    }

    pub fn stmts(&mut self, ss: &[Stmt]) -> R<()> {
        for s in ss {
            self.tick()?;
            match s {
                Stmt::Let(n, _, _, e) => {
                    let v = self.eval(e)?;
                    self.scopes.last_mut().unwrap().insert(n.clone(), v);
                }
                Stmt::Assign(l, e) => {
                    let v = self.eval(e)?;
                    self.lv_set(l, v)?;
                }
                Stmt::While(c, b) => loop {
                    self.tick()?;
                    match self.eval(c)? {
                        Value::Bool(true) => {}
                        Value::Bool(false) => break,
                        _ => return stuck("while cond"),
                    }
                    self.scopes.push(HashMap::new());
                    let r = self.stmts(b);
                    self.scopes.pop();
                    match r {
                        Ok(()) | Err(Exc::Continue) => {}
                        Err(Exc::Break) => break,
                        Err(e) => return Err(e),
                    }
                },
                Stmt::If(c, t, f) => {
                    let branch = match self.eval(c)? {
                        Value::Bool(true) => t,
                        Value::Bool(false) => f,
                        _ => return stuck("if cond"),
                    };
                    self.scopes.push(HashMap::new());
                    let r = self.stmts(branch);
                    self.scopes.pop();
                    r?;
                }
                Stmt::Break => return Err(Exc::Break),
                Stmt::Continue => return Err(Exc::Continue),
                Stmt::Return(e) => {
                    let v = self.eval(e)?;
                    return Err(Exc::Return(v));
                }
                Stmt::Log(e) => {
                    let v = self.eval(e)?;
                    self.logs.push(v.encoded());
                }
                Stmt::Require(c, v) => {
                    let c = self.eval(c)?;
                    // `require(cond, value)`: both arguments are evaluated (call by value)
                    let v = self.eval(v)?;
                    match c {
                        Value::Bool(true) => {}
                        Value::Bool(false) => {
                            self.logs.push(v.encoded());
                            return Err(Exc::Revert(REVERT_REQUIRE));
                        }
                        _ => return stuck("require cond"),
                    }
                }
                Stmt::Assert(c) => match self.eval(c)? {
                    Value::Bool(true) => {}
                    Value::Bool(false) => return Err(Exc::Revert(REVERT_ASSERT)),
                    _ => return stuck("assert cond"),
                },
                Stmt::Expr(e) => {
                    self.eval(e)?;
                }
            }
        }
        Ok(())
    }

    pub fn call(&mut self, fname: &str, args: &[Expr]) -> R<Value> {
        let f = match self.prog.funcs.iter().find(|f| f.name == fname) {
            Some(f) => f,
            None => return stuck(format!("unknown fn {fname}")),
        };
        if f.params.len() != args.len() {
            return stuck("arity");
        }
        let mut frame = HashMap::new();
        let mut writebacks: Vec<(String, LValue)> = vec![];
        for ((pn, mode, _, _), a) in f.params.iter().zip(args) {
            let v = self.eval(a)?;
            frame.insert(pn.clone(), v);
            if *mode == ParamMode::RefMut {
                let lv = expr_to_lvalue(a).ok_or(Exc::Stuck("ref mut arg must be an lvalue".into()))?;
                writebacks.push((pn.clone(), lv));
            }
        }
        // new call frame: callee does not see caller's locals
        let saved = std::mem::replace(&mut self.scopes, vec![frame]);
        let r = (|| {
            match self.stmts(&f.body.stmts) {
                Ok(()) => {}
                Err(Exc::Return(v)) => return Ok(v),
                Err(e) => return Err(e),
            }
            match &f.body.result {
                Some(e) => match self.eval(e) {
                    Err(Exc::Return(v)) => Ok(v),
                    other => other,
                },
                None => Ok(Value::Unit),
            }
        })();
        let callee_scopes = std::mem::replace(&mut self.scopes, saved);
        let r = r?;
        for (pn, lv) in writebacks {
            let v = callee_scopes[0].get(&pn).cloned().ok_or(Exc::Stuck("wb".into()))?;
            self.lv_set(&lv, v)?;
        }
        Ok(r)
    }

    /// Run a test body (statement list) and return the expected observable outcome.
    pub fn run_test(prog: &Program, body: &[Stmt]) -> Result<Expect, String> {
        let mut it = Interp::new(prog);
        match it.stmts(body) {
            Ok(()) | Err(Exc::Return(_)) => Ok(Expect::Ok(it.logs)),
            Err(Exc::Revert(c)) => Ok(Expect::Revert(c, it.logs)),
            Err(Exc::Break) | Err(Exc::Continue) => Err("break/continue outside loop".into()),
            Err(Exc::Stuck(s)) => Err(s),
        }
    }
}

pub fn expr_to_lvalue(e: &Expr) -> Option<LValue> {
    Some(match e {
        Expr::Var(n) => LValue::Var(n.clone()),
        Expr::Field(e, i) => LValue::Field(Box::new(expr_to_lvalue(e)?), *i),
        Expr::TupleIdx(e, i) => LValue::TupleIdx(Box::new(expr_to_lvalue(e)?), *i),
        Expr::Index(e, i) => LValue::Index(Box::new(expr_to_lvalue(e)?), (**i).clone()),
        _ => return None,
    })
}

pub fn lvalue_to_expr(l: &LValue) -> Expr {
    match l {
        LValue::Var(n) => Expr::Var(n.clone()),
        LValue::Field(l, i) => Expr::Field(Box::new(lvalue_to_expr(l)), *i),
        LValue::TupleIdx(l, i) => Expr::TupleIdx(Box::new(lvalue_to_expr(l)), *i),
        LValue::Index(l, e) => Expr::Index(Box::new(lvalue_to_expr(l)), Box::new(e.clone())),
    }
}

// ---------------------------------------------------------------------------------------------
// Cases and packages

/// One generated case = one `#[test]` entry plus the helper functions it calls.
#[derive(Clone, Debug)]
pub struct Case {
    /// stable descriptor (used as replay key and in evidence samples)
    pub desc: String,
    pub space: &'static str,
    pub prog: Program,
    pub body: Vec<Stmt>,
    pub expect: Expect,
    /// class of a known divergence this case exercises on purpose (e.g. variable OOB index)
    pub known_class: Option<&'static str>,
}

pub const PRELUDE: &str = "script;\n\n#[inline(never)]\nfn opq<T>(x: T) -> T { asm(r: x) { r: T } }\n\nfn main() {}\n\n";

/// Render a batch of cases as one package. Helper functions and type declarations of every case
/// are prefixed with the case index so that cases never share code by accident (sharing happens
/// only through the compiler — e.g. fn-dedup — which is the point).
pub fn render_package(cases: &[Case]) -> String {
    render_package_with_ranges(cases).0
}

/// Like `render_package`, also returning for every case the byte ranges of the source that belong
/// to it (its items + test entry, and its entries inside the shared `configurable` block), so that
/// compile errors can be attributed to cases by span.
pub fn render_package_with_ranges(cases: &[Case]) -> (String, Vec<Vec<(usize, usize)>>) {
    let mut o = String::from(PRELUDE);
    let mut ranges: Vec<Vec<(usize, usize)>> = vec![vec![]; cases.len()];
    if cases.iter().any(|c| !c.prog.configurables.is_empty()) {
        o.push_str("configurable {\n");
        for (i, c) in cases.iter().enumerate() {
            let start = o.len();
            for k in &c.prog.configurables {
                let _ = writeln!(o, "    {},", k.replace("{P}", &format!("C{i}_")));
            }
            if o.len() > start {
                ranges[i].push((start, o.len()));
            }
        }
        o.push_str("}\n\n");
    }
    for (i, c) in cases.iter().enumerate() {
        let case_start = o.len();
        let prog = rename_program(&c.prog, &format!("c{i}_"));
        let body = rename_stmts(&c.body, &format!("c{i}_"), &c.prog);
        let p = Printer { d: &prog.decls };
        let _ = writeln!(o, "// case {i}: {}", c.desc.replace('\n', " "));
        o.push_str(&p.decls());
        for it in &c.prog.raw_items {
            let _ = writeln!(o, "{}", it.replace("{P}", &format!("C{i}_")));
        }
        for f in &prog.funcs {
            o.push_str(&p.func(f));
        }
        let _ = writeln!(o, "#[test]\nfn t{i}() {{");
        o.push_str(&p.stmts(&body, 1));
        o.push_str("}\n\n");
        ranges[i].push((case_start, o.len()));
    }
    (o, ranges)
}

fn rename_program(p: &Program, prefix: &str) -> Program {
    let mut q = p.clone();
    for s in &mut q.decls.structs {
        s.name = format!("{}{}", capitalize(prefix), s.name);
    }
    for e in &mut q.decls.enums {
        e.name = format!("{}{}", capitalize(prefix), e.name);
    }
    for f in &mut q.funcs {
        f.name = format!("{prefix}{}", f.name);
        f.body = rename_block(&f.body, prefix, p);
    }
    q
}

fn capitalize(s: &str) -> String {
    let mut c = s.chars();
    match c.next() {
        Some(f) => f.to_uppercase().collect::<String>() + c.as_str(),
        None => String::new(),
    }
}

fn rename_block(b: &Block, prefix: &str, p: &Program) -> Block {
    Block {
        stmts: rename_stmts(&b.stmts, prefix, p),
        result: b.result.as_ref().map(|e| rename_expr(e, prefix, p)),
    }
}

fn rename_lv(l: &LValue, prefix: &str, p: &Program) -> LValue {
    match l {
        LValue::Var(n) => LValue::Var(n.clone()),
        LValue::Field(l, i) => LValue::Field(Box::new(rename_lv(l, prefix, p)), *i),
        LValue::TupleIdx(l, i) => LValue::TupleIdx(Box::new(rename_lv(l, prefix, p)), *i),
        LValue::Index(l, e) => LValue::Index(Box::new(rename_lv(l, prefix, p)), rename_expr(e, prefix, p)),
    }
}

pub fn rename_stmts(ss: &[Stmt], prefix: &str, p: &Program) -> Vec<Stmt> {
    ss.iter()
        .map(|s| match s {
            Stmt::Let(n, m, t, e) => Stmt::Let(n.clone(), *m, t.clone(), rename_expr(e, prefix, p)),
            Stmt::Assign(l, e) => Stmt::Assign(rename_lv(l, prefix, p), rename_expr(e, prefix, p)),
            Stmt::While(c, b) => Stmt::While(rename_expr(c, prefix, p), rename_stmts(b, prefix, p)),
            Stmt::If(c, t, f) => Stmt::If(
                rename_expr(c, prefix, p),
                rename_stmts(t, prefix, p),
                rename_stmts(f, prefix, p),
            ),
            Stmt::Break => Stmt::Break,
            Stmt::Continue => Stmt::Continue,
            Stmt::Return(e) => Stmt::Return(rename_expr(e, prefix, p)),
            Stmt::Log(e) => Stmt::Log(rename_expr(e, prefix, p)),
            Stmt::Require(c, v) => Stmt::Require(rename_expr(c, prefix, p), rename_expr(v, prefix, p)),
            Stmt::Assert(c) => Stmt::Assert(rename_expr(c, prefix, p)),
            Stmt::Expr(e) => Stmt::Expr(rename_expr(e, prefix, p)),
        })
        .collect()
}

fn rename_expr(e: &Expr, prefix: &str, p: &Program) -> Expr {
    let r = |e: &Expr| Box::new(rename_expr(e, prefix, p));
    match e {
        Expr::Lit(_) | Expr::Var(_) => e.clone(),
        Expr::Opq(a) => Expr::Opq(r(a)),
        Expr::Bin(op, a, b) => Expr::Bin(*op, r(a), r(b)),
        Expr::Not(a) => Expr::Not(r(a)),
        Expr::If(c, t, f) => Expr::If(
            r(c),
            Box::new(rename_block(t, prefix, p)),
            Box::new(rename_block(f, prefix, p)),
        ),
        Expr::Call(f, args) => {
            let known = p.funcs.iter().any(|g| &g.name == f);
            Expr::Call(
                if known { format!("{prefix}{f}") } else { f.clone() },
                args.iter().map(|a| rename_expr(a, prefix, p)).collect(),
            )
        }
        Expr::Tuple(es) => Expr::Tuple(es.iter().map(|a| rename_expr(a, prefix, p)).collect()),
        Expr::TupleIdx(a, i) => Expr::TupleIdx(r(a), *i),
        Expr::Struct(s, es) => Expr::Struct(*s, es.iter().map(|a| rename_expr(a, prefix, p)).collect()),
        Expr::Field(a, i) => Expr::Field(r(a), *i),
        Expr::Array(es) => Expr::Array(es.iter().map(|a| rename_expr(a, prefix, p)).collect()),
        Expr::Index(a, i) => Expr::Index(r(a), r(i)),
        Expr::EnumNew(en, v, a) => Expr::EnumNew(*en, *v, r(a)),
        Expr::Match(s, arms) => Expr::Match(
            r(s),
            arms.iter()
                .map(|(pt, e)| (pt.clone(), rename_expr(e, prefix, p)))
                .collect(),
        ),
        Expr::Widen(b, a) => Expr::Widen(*b, r(a)),
        Expr::Narrow(b, a) => Expr::Narrow(*b, r(a)),
        Expr::Block(b) => Expr::Block(Box::new(rename_block(b, prefix, p))),
        Expr::Raw(s, a) => Expr::Raw(s.replace("{P}", &prefix.to_uppercase()), r(a)),
    }
}

//! Diagnostics with spans for a package that fails to build (used to attribute compile errors to
//! generated cases). Goes through the same sway_core entry points as `forc_pkg::compile`.

use crate::engine::Ctx;
use crate::worker::Diag;
use std::path::Path;

pub fn diagnose(ctx: &mut Ctx, dir: &Path, tests: bool) -> (Vec<Diag>, Vec<Diag>) {
    let r = std::panic::catch_unwind(std::panic::AssertUnwindSafe(|| ctx.diagnose_dir(dir, tests)));
    match r {
        Ok(Ok(x)) => x,
        Ok(Err(e)) => (
            vec![Diag {
                message: format!("diagnose failed: {e:#}"),
                start: 0,
                end: 0,
                is_error: true,
            }],
            vec![],
        ),
        Err(_) => (
            vec![Diag {
                message: format!(
                    "PANIC {} at {}",
                    crate::take_panic_msg(),
                    vhcore::take_panic_loc()
                ),
                start: 0,
                end: 0,
                is_error: true,
            }],
            vec![],
        ),
    }
}

//! Code shared by the per-property binaries of this crate (src/bin/cNN.rs).
pub mod abigen;
pub mod contractgen;
pub mod diag;
pub mod engine;
pub mod gen;
pub mod spaces;
pub mod campaign;
pub mod c06gen;
pub mod replay;
pub mod s5;
pub mod irtext;
pub mod matchgen;
pub mod mutgen;
pub mod pool;
pub mod stdgen;
pub mod worker;

use std::cell::RefCell;

thread_local! {
    static LAST_PANIC_MSG: RefCell<String> = const { RefCell::new(String::new()) };
}

/// Panic hook that records message + location in thread-locals instead of printing.
pub fn install_panic_hook() {
    std::panic::set_hook(Box::new(|info| {
        let loc = info
            .location()
            .map(|l| format!("{}:{}", l.file(), l.line()))
            .unwrap_or_default();
        let msg = if let Some(s) = info.payload().downcast_ref::<String>() {
            s.clone()
        } else if let Some(s) = info.payload().downcast_ref::<&str>() {
            s.to_string()
        } else {
            "<non-string panic>".to_string()
        };
        vhcore::LAST_PANIC_LOC.with(|c| *c.borrow_mut() = Some(loc));
        LAST_PANIC_MSG.with(|c| *c.borrow_mut() = msg);
    }));
}

pub fn take_panic_msg() -> String {
    LAST_PANIC_MSG.with(|c| std::mem::take(&mut *c.borrow_mut()))
}

/// Entry point shared by all vh-comp binaries for the internal `worker <scratch-root>` command.
pub fn maybe_serve_worker(a: &vhcore::Args) {
    if a.cmd == "worker" {
        let root = a.rest.first().cloned().unwrap_or_else(|| "/verif/work/worker".into());
        std::process::exit(worker::serve(std::path::PathBuf::from(root)));
    }
}

//! C14 helpers: scrutinee types, pattern alphabets, brute-force matching oracle, Sway source
//! generation with span bookkeeping, and a structural parser for the witness patterns printed in
//! `MatchExpressionNonExhaustive` messages.

use serde::{Deserialize, Serialize};

// ---------------------------------------------------------------------------------------------
// Types and values

#[derive(Clone, Copy, Debug, PartialEq, Eq, Hash, PartialOrd, Ord, Serialize, Deserialize)]
pub enum Ty {
    Bool,
    U8,
    /// (bool, bool)
    BB,
    /// (u8, bool)
    UB,
    /// enum E { A: (), B: bool, C: u8 }
    E,
    /// struct S { x: bool, y: u8 }
    S,
}

pub const ALL_TYS: [Ty; 6] = [Ty::Bool, Ty::U8, Ty::BB, Ty::UB, Ty::E, Ty::S];

#[derive(Clone, Debug, PartialEq, Eq)]
pub enum Shape {
    Bool,
    U8,
    Unit,
    Tuple(Vec<Shape>),
    Enum(&'static str, Vec<(&'static str, Shape)>),
    Struct(&'static str, Vec<(&'static str, Shape)>),
}

impl Shape {
    pub fn kind(&self) -> &'static str {
        match self {
            Shape::Bool => "bool",
            Shape::U8 => "u8",
            Shape::Unit => "unit",
            Shape::Tuple(_) => "tuple",
            Shape::Enum(..) => "enum",
            Shape::Struct(..) => "struct",
        }
    }
}

impl Ty {
    pub fn shape(self) -> Shape {
        match self {
            Ty::Bool => Shape::Bool,
            Ty::U8 => Shape::U8,
            Ty::BB => Shape::Tuple(vec![Shape::Bool, Shape::Bool]),
            Ty::UB => Shape::Tuple(vec![Shape::U8, Shape::Bool]),
            Ty::E => Shape::Enum(
                "E",
                vec![("A", Shape::Unit), ("B", Shape::Bool), ("C", Shape::U8)],
            ),
            Ty::S => Shape::Struct("S", vec![("x", Shape::Bool), ("y", Shape::U8)]),
        }
    }
    pub fn sway(self) -> &'static str {
        match self {
            Ty::Bool => "bool",
            Ty::U8 => "u8",
            Ty::BB => "(bool, bool)",
            Ty::UB => "(u8, bool)",
            Ty::E => "E",
            Ty::S => "S",
        }
    }
    pub fn mk_fn(self) -> &'static str {
        match self {
            Ty::Bool => "mk_bool",
            Ty::U8 => "mk_u8",
            Ty::BB => "mk_bb",
            Ty::UB => "mk_ub",
            Ty::E => "mk_e",
            Ty::S => "mk_s",
        }
    }
    /// closed-form size of the value space
    pub fn n_values(self) -> usize {
        match self {
            Ty::Bool => 2,
            Ty::U8 => 256,
            Ty::BB => 4,
            Ty::UB => 512,
            Ty::E => 259,
            Ty::S => 512,
        }
    }
    /// Every value of the type; index i is exactly what the Sway helper `mk_<ty>(i)` constructs.
    pub fn values(self) -> Vec<Val> {
        let mut out = vec![];
        match self {
            Ty::Bool => {
                out.push(Val::B(false));
                out.push(Val::B(true));
            }
            Ty::U8 => {
                for u in 0..=255u8 {
                    out.push(Val::U(u));
                }
            }
            Ty::BB => {
                for i in 0..4u64 {
                    out.push(Val::T(vec![Val::B((i >> 1) == 1), Val::B((i & 1) == 1)]));
                }
            }
            Ty::UB => {
                for i in 0..512u64 {
                    out.push(Val::T(vec![Val::U((i >> 1) as u8), Val::B((i & 1) == 1)]));
                }
            }
            Ty::E => {
                out.push(Val::E(0, Box::new(Val::Unit)));
                out.push(Val::E(1, Box::new(Val::B(false))));
                out.push(Val::E(1, Box::new(Val::B(true))));
                for u in 0..=255u8 {
                    out.push(Val::E(2, Box::new(Val::U(u))));
                }
            }
            Ty::S => {
                for i in 0..512u64 {
                    out.push(Val::S(vec![Val::B((i >> 8) == 1), Val::U((i & 255) as u8)]));
                }
            }
        }
        out
    }
}

#[derive(Clone, Debug, PartialEq, Eq, Hash)]
pub enum Val {
    B(bool),
    U(u8),
    Unit,
    T(Vec<Val>),
    /// variant index, payload
    E(usize, Box<Val>),
    /// field values in declaration order
    S(Vec<Val>),
}

pub fn show_val(v: &Val, sh: &Shape) -> String {
    match (v, sh) {
        (Val::B(b), _) => b.to_string(),
        (Val::U(u), _) => u.to_string(),
        (Val::Unit, _) => "()".into(),
        (Val::T(vs), Shape::Tuple(ss)) => format!(
            "({})",
            vs.iter().zip(ss).map(|(v, s)| show_val(v, s)).collect::<Vec<_>>().join(", ")
        ),
        (Val::E(i, p), Shape::Enum(n, vars)) => {
            if vars[*i].1 == Shape::Unit {
                format!("{n}::{}", vars[*i].0)
            } else {
                format!("{n}::{}({})", vars[*i].0, show_val(p, &vars[*i].1))
            }
        }
        (Val::S(vs), Shape::Struct(n, fs)) => format!(
            "{n} {{ {} }}",
            vs.iter()
                .zip(fs)
                .map(|(v, (f, s))| format!("{f}: {}", show_val(v, s)))
                .collect::<Vec<_>>()
                .join(", ")
        ),
        _ => "<ill-shaped>".into(),
    }
}

pub const PRELUDE: &str = "script;\nenum E { A: (), B: bool, C: u8 }\nstruct S { x: bool, y: u8 }\nfn main() {}\n";

pub const MK_FNS: &str = "#[inline(never)] fn mk_bool(i: u64) -> bool { i == 1 }\n\
#[inline(never)] fn mk_u8(i: u64) -> u8 { asm(r: i) { r: u8 } }\n\
#[inline(never)] fn mk_bb(i: u64) -> (bool, bool) { ((i >> 1) == 1, (i & 1) == 1) }\n\
#[inline(never)] fn mk_ub(i: u64) -> (u8, bool) { (mk_u8(i >> 1), (i & 1) == 1) }\n\
#[inline(never)] fn mk_e(i: u64) -> E { if i == 0 { E::A } else if i == 1 { E::B(false) } else if i == 2 { E::B(true) } else { E::C(mk_u8(i - 3)) } }\n\
#[inline(never)] fn mk_s(i: u64) -> S { S { x: (i >> 8) == 1, y: mk_u8(i & 255) } }\n";

// ---------------------------------------------------------------------------------------------
// Source patterns

#[derive(Clone, Debug, PartialEq, Eq, Hash, Serialize, Deserialize)]
pub enum Pat {
    Wild,
    Var(String),
    Bool(bool),
    Int(u64),
    Tuple(Vec<Pat>),
    /// `E::<variant>` or `E::<variant>(arg)`
    Enum(String, Option<Box<Pat>>),
    /// `S { f: p, … }` or `S { f: p, .. }`
    Struct(Vec<(String, Pat)>, bool),
    Or(Vec<Pat>),
    /// a u8 literal written with its suffix (`255u8`): typed `Pattern::U8` in the compiler, while the
    /// unsuffixed `Int` becomes `Pattern::Numeric`
    IntS(u64),
}

impl Pat {
    pub fn print(&self) -> String {
        match self {
            Pat::Wild => "_".into(),
            Pat::Var(n) => n.clone(),
            Pat::Bool(b) => b.to_string(),
            Pat::Int(n) => n.to_string(),
            Pat::IntS(n) => format!("{n}u8"),
            Pat::Tuple(ps) => format!("({})", ps.iter().map(|p| p.print()).collect::<Vec<_>>().join(", ")),
            Pat::Enum(v, None) => format!("E::{v}"),
            Pat::Enum(v, Some(p)) => format!("E::{v}({})", p.print()),
            Pat::Struct(fs, rest) => {
                let mut parts: Vec<String> = fs.iter().map(|(f, p)| format!("{f}: {}", p.print())).collect();
                if *rest {
                    parts.push("..".into());
                }
                format!("S {{ {} }}", parts.join(", "))
            }
            Pat::Or(ps) => ps.iter().map(|p| p.print()).collect::<Vec<_>>().join(" | "),
        }
    }

    /// Brute-force semantics: does the pattern match the value?
    pub fn matches(&self, v: &Val, sh: &Shape) -> bool {
        match (self, v, sh) {
            (Pat::Wild, _, _) | (Pat::Var(_), _, _) => true,
            (Pat::Or(ps), _, _) => ps.iter().any(|p| p.matches(v, sh)),
            (Pat::Bool(b), Val::B(x), _) => b == x,
            (Pat::Int(n), Val::U(x), _) | (Pat::IntS(n), Val::U(x), _) => *n == *x as u64,
            (Pat::Tuple(ps), Val::T(vs), Shape::Tuple(ss)) => {
                ps.len() == vs.len() && ps.iter().zip(vs).zip(ss).all(|((p, v), s)| p.matches(v, s))
            }
            (Pat::Enum(var, arg), Val::E(i, payload), Shape::Enum(_, vars)) => {
                vars[*i].0 == var.as_str()
                    && match arg {
                        None => true,
                        Some(p) => p.matches(payload, &vars[*i].1),
                    }
            }
            (Pat::Struct(fs, _), Val::S(vs), Shape::Struct(_, decl)) => fs.iter().all(|(f, p)| {
                match decl.iter().position(|(n, _)| n == f) {
                    Some(k) => p.matches(&vs[k], &decl[k].1),
                    None => false,
                }
            }),
            _ => panic!("oracle: pattern {self:?} applied to ill-shaped value {v:?}"),
        }
    }

    /// Mirror of `TyScrutinee::is_catch_all` (typed_scrutinee.rs) — only used to *classify*
    /// reachability disagreements, never to decide them.
    pub fn is_catch_all_like_compiler(&self) -> bool {
        match self {
            Pat::Wild | Pat::Var(_) => true,
            Pat::Bool(_) | Pat::Int(_) | Pat::IntS(_) | Pat::Enum(..) => false,
            Pat::Tuple(ps) => ps.iter().all(|p| p.is_catch_all_like_compiler()),
            Pat::Struct(fs, _) => fs.iter().all(|(_, p)| p.is_catch_all_like_compiler()),
            Pat::Or(ps) => ps.iter().any(|p| p.is_catch_all_like_compiler()),
        }
    }

    pub fn has_var(&self) -> bool {
        match self {
            Pat::Var(_) => true,
            Pat::Wild | Pat::Bool(_) | Pat::Int(_) | Pat::IntS(_) => false,
            Pat::Tuple(ps) | Pat::Or(ps) => ps.iter().any(|p| p.has_var()),
            Pat::Enum(_, a) => a.as_ref().map(|p| p.has_var()).unwrap_or(false),
            Pat::Struct(fs, _) => fs.iter().any(|(_, p)| p.has_var()),
        }
    }

    /// Visit every sub-pattern (pre-order).
    pub fn walk(&self, f: &mut dyn FnMut(&Pat)) {
        f(self);
        match self {
            Pat::Tuple(ps) | Pat::Or(ps) => ps.iter().for_each(|p| p.walk(f)),
            Pat::Enum(_, Some(a)) => a.walk(f),
            Pat::Struct(fs, _) => fs.iter().for_each(|(_, p)| p.walk(f)),
            _ => {}
        }
    }

    /// The desugared condition of this pattern is "always true" (typed/matcher.rs yields no
    /// requirement): no literal and no enum variant anywhere.
    pub fn irrefutable(&self) -> bool {
        match self {
            Pat::Wild | Pat::Var(_) => true,
            Pat::Bool(_) | Pat::Int(_) | Pat::IntS(_) | Pat::Enum(..) => false,
            Pat::Tuple(ps) => ps.iter().all(|p| p.irrefutable()),
            Pat::Struct(fs, _) => fs.iter().all(|(_, p)| p.irrefutable()),
            Pat::Or(ps) => ps.iter().any(|p| p.irrefutable()),
        }
    }

    /// Hypothesis model used ONLY to give a root-cause key to a run-time disagreement:
    /// "in an or-pattern whose alternatives bind no variables, an alternative whose condition is
    /// always true is dropped from the disjunction (unless all alternatives are such)".
    pub fn matches_dropping_irrefutable_or_alternatives(&self, v: &Val, sh: &Shape) -> bool {
        match (self, v, sh) {
            (Pat::Wild, _, _) | (Pat::Var(_), _, _) => true,
            (Pat::Or(ps), _, _) => {
                if ps.iter().any(|p| p.has_var()) {
                    return ps.iter().any(|p| p.matches_dropping_irrefutable_or_alternatives(v, sh));
                }
                let refutable: Vec<&Pat> = ps.iter().filter(|p| !p.irrefutable()).collect();
                refutable.is_empty()
                    || refutable.iter().any(|p| p.matches_dropping_irrefutable_or_alternatives(v, sh))
            }
            (Pat::Bool(b), Val::B(x), _) => b == x,
            (Pat::Int(n), Val::U(x), _) | (Pat::IntS(n), Val::U(x), _) => *n == *x as u64,
            (Pat::Tuple(ps), Val::T(vs), Shape::Tuple(ss)) => ps
                .iter()
                .zip(vs)
                .zip(ss)
                .all(|((p, v), s)| p.matches_dropping_irrefutable_or_alternatives(v, s)),
            (Pat::Enum(var, arg), Val::E(i, payload), Shape::Enum(_, vars)) => {
                vars[*i].0 == var.as_str()
                    && match arg {
                        None => true,
                        Some(p) => p.matches_dropping_irrefutable_or_alternatives(payload, &vars[*i].1),
                    }
            }
            (Pat::Struct(fs, _), Val::S(vs), Shape::Struct(_, decl)) => fs.iter().all(|(f, p)| {
                match decl.iter().position(|(n, _)| n == f) {
                    Some(k) => p.matches_dropping_irrefutable_or_alternatives(&vs[k], &decl[k].1),
                    None => false,
                }
            }),
            _ => false,
        }
    }
}

/// Syntactic features of a matrix that go into class keys (the "input predicate" half).
#[derive(Clone, Copy, Debug, Default, PartialEq, Eq)]
pub struct Features {
    /// some arm contains an or-pattern (top level or in a sub-position)
    pub or: bool,
    /// some or-pattern has an alternative whose condition is always true (`_`, `(_, _)`, `S { .. }`)
    pub or_irrefutable_alt: bool,
    /// some struct pattern omits fields (`..`)
    pub rest: bool,
    /// some struct pattern lists its fields in an order other than the declaration order
    pub reordered: bool,
    /// integer literals carry their type suffix
    pub suffixed: bool,
}

pub fn features(arms: &[Pat]) -> Features {
    let mut f = Features::default();
    for a in arms {
        a.walk(&mut |p| match p {
            Pat::Or(alts) => {
                f.or = true;
                if alts.iter().any(|q| q.irrefutable()) {
                    f.or_irrefutable_alt = true;
                }
            }
            Pat::Struct(fs, rest) => {
                if *rest {
                    f.rest = true;
                }
                let names: Vec<&str> = fs.iter().map(|(n, _)| n.as_str()).collect();
                let mut sorted = names.clone();
                sorted.sort(); // declaration order of S is x, y
                if names != sorted {
                    f.reordered = true;
                }
            }
            Pat::IntS(_) => f.suffixed = true,
            _ => {}
        });
    }
    f
}

/// The same pattern with every integer literal written with its `u8` suffix.
pub fn suffix_ints(p: &Pat) -> Pat {
    match p {
        Pat::Int(n) => Pat::IntS(*n),
        Pat::Tuple(ps) => Pat::Tuple(ps.iter().map(suffix_ints).collect()),
        Pat::Or(ps) => Pat::Or(ps.iter().map(suffix_ints).collect()),
        Pat::Enum(v, a) => Pat::Enum(v.clone(), a.as_ref().map(|q| Box::new(suffix_ints(q)))),
        Pat::Struct(fs, r) => Pat::Struct(fs.iter().map(|(f, q)| (f.clone(), suffix_ints(q))).collect(), *r),
        other => other.clone(),
    }
}

impl Features {
    pub fn key(&self) -> String {
        let mut v = vec![];
        if self.or {
            v.push(if self.or_irrefutable_alt { "or-with-irrefutable-alternative" } else { "or" });
        }
        // one input predicate: "some struct pattern does not list every declared field in
        // declaration order" (fields omitted with `..`, or listed in another order)
        if self.rest || self.reordered {
            v.push("struct-pattern-omits-or-reorders-fields");
        }
        if self.suffixed {
            v.push("suffixed-literals");
        }
        if v.is_empty() {
            "plain".to_string()
        } else {
            v.join("+")
        }
    }
}

// ---------------------------------------------------------------------------------------------
// Alphabets

fn b(x: bool) -> Pat {
    Pat::Bool(x)
}
fn n(x: u64) -> Pat {
    Pat::Int(x)
}
fn var(s: &str) -> Pat {
    Pat::Var(s.into())
}
fn or2(a: Pat, c: Pat) -> Pat {
    Pat::Or(vec![a, c])
}
fn tup(a: Pat, c: Pat) -> Pat {
    Pat::Tuple(vec![a, c])
}
fn en(v: &str, a: Option<Pat>) -> Pat {
    Pat::Enum(v.into(), a.map(Box::new))
}
fn st(x: Option<Pat>, y: Option<Pat>) -> Pat {
    let mut fs = vec![];
    if let Some(p) = x {
        fs.push(("x".to_string(), p));
    }
    if let Some(p) = y {
        fs.push(("y".to_string(), p));
    }
    let rest = fs.len() < 2;
    Pat::Struct(fs, rest)
}

/// `S { y: q, x: p }` — fields listed in the opposite of the declaration order
fn st_rev(y: Pat, x: Pat) -> Pat {
    Pat::Struct(vec![("y".to_string(), y), ("x".to_string(), x)], false)
}

/// ordered pairs (i != j) of or-alternatives
fn ordered_ors(alts: &[Pat]) -> Vec<Pat> {
    let mut out = vec![];
    for (i, a) in alts.iter().enumerate() {
        for (j, c) in alts.iter().enumerate() {
            if i != j {
                out.push(or2(a.clone(), c.clone()));
            }
        }
    }
    out
}

fn bool_sub(v: &str) -> Vec<Pat> {
    vec![b(true), b(false), Pat::Wild, var(v)]
}
fn u8_sub(v: &str) -> Vec<Pat> {
    vec![n(0), n(1), n(254), n(255), Pat::Wild, var(v)]
}

#[derive(Clone, Copy, Debug, PartialEq, Eq)]
pub enum Level {
    /// the full per-type alphabet (10–47 patterns)
    Full,
    /// ≈ 20 patterns per type
    Mid,
    /// 7 patterns per type
    Mini,
}

impl Level {
    pub fn name(self) -> &'static str {
        match self {
            Level::Full => "Full",
            Level::Mid => "Mid",
            Level::Mini => "Mini",
        }
    }
}

fn unordered_ors(alts: &[Pat]) -> Vec<Pat> {
    let mut out = vec![];
    for (i, a) in alts.iter().enumerate() {
        for c in alts.iter().skip(i + 1) {
            out.push(or2(a.clone(), c.clone()));
        }
    }
    out
}

/// Reduced alphabets. `Mid` ≈ 20 patterns per type, `Mini` = 7 patterns per type; both keep
/// literals at both ends of the u8 range, wildcards, a binding where affordable, at least one
/// top-level or-pattern, one or-pattern with an irrefutable alternative or in a sub-position.
fn reduced_alphabet(ty: Ty, level: Level) -> Vec<Pat> {
    let mid = level == Level::Mid;
    let w = || Pat::Wild;
    match ty {
        Ty::Bool => {
            if mid {
                let mut out = bool_sub("v");
                out.extend(ordered_ors(&[b(true), b(false), Pat::Wild]));
                out
            } else {
                vec![b(true), b(false), w(), var("v"), or2(b(true), b(false)), or2(b(false), w()), or2(w(), b(true))]
            }
        }
        Ty::U8 => {
            if mid {
                let mut out = u8_sub("v");
                out.extend(unordered_ors(&[n(0), n(1), n(254), n(255), Pat::Wild]));
                out
            } else {
                vec![n(0), n(1), n(255), w(), or2(n(0), n(1)), or2(n(254), n(255)), or2(n(0), w())]
            }
        }
        Ty::BB => {
            if mid {
                let mut out = vec![];
                for p in [b(true), b(false), w()] {
                    for q in [b(true), b(false), w()] {
                        out.push(tup(p.clone(), q));
                    }
                }
                out.extend([
                    tup(var("a"), b(true)),
                    tup(b(false), var("b")),
                    tup(var("a"), var("b")),
                    w(),
                    var("v"),
                    or2(tup(b(true), b(true)), tup(b(true), b(false))),
                    or2(tup(b(true), b(false)), tup(b(false), w())),
                    or2(tup(b(false), w()), tup(w(), b(true))),
                    or2(w(), tup(b(true), b(true))),
                    tup(or2(b(true), b(false)), b(true)),
                    tup(b(true), or2(b(true), b(false))),
                ]);
                out
            } else {
                vec![
                    tup(b(true), b(true)),
                    tup(b(false), b(true)),
                    tup(w(), b(false)),
                    tup(b(true), w()),
                    w(),
                    or2(tup(b(true), b(false)), tup(b(false), w())),
                    tup(b(true), or2(b(true), b(false))),
                ]
            }
        }
        Ty::UB => {
            if mid {
                let mut out = vec![];
                for p in [n(0), n(255), w()] {
                    for q in [b(true), b(false), w()] {
                        out.push(tup(p.clone(), q));
                    }
                }
                out.extend([
                    tup(n(1), w()),
                    tup(n(254), b(true)),
                    tup(var("a"), b(false)),
                    tup(n(255), var("b")),
                    tup(var("a"), var("b")),
                    w(),
                    var("v"),
                    or2(tup(n(0), b(true)), tup(n(255), b(false))),
                    or2(tup(n(0), w()), tup(w(), b(true))),
                    or2(tup(n(255), b(false)), tup(n(0), b(true))),
                    tup(or2(n(0), n(1)), b(true)),
                    tup(or2(n(254), n(255)), w()),
                ]);
                out
            } else {
                vec![
                    tup(n(0), b(true)),
                    tup(n(255), b(false)),
                    tup(w(), b(true)),
                    tup(n(0), w()),
                    w(),
                    or2(tup(n(0), b(true)), tup(n(255), w())),
                    tup(or2(n(0), n(255)), b(false)),
                ]
            }
        }
        Ty::E => {
            if mid {
                vec![
                    en("A", None),
                    en("B", Some(b(true))),
                    en("B", Some(b(false))),
                    en("B", Some(w())),
                    en("B", Some(var("p"))),
                    en("C", Some(n(0))),
                    en("C", Some(n(1))),
                    en("C", Some(n(254))),
                    en("C", Some(n(255))),
                    en("C", Some(w())),
                    en("C", Some(var("p"))),
                    w(),
                    var("v"),
                    or2(en("A", None), en("B", Some(w()))),
                    or2(en("B", Some(b(true))), en("C", Some(n(0)))),
                    or2(en("C", Some(n(0))), en("C", Some(n(255)))),
                    or2(en("C", Some(w())), en("A", None)),
                    or2(en("B", Some(b(false))), en("B", Some(b(true)))),
                    en("B", Some(or2(b(true), b(false)))),
                    en("C", Some(or2(n(0), n(255)))),
                ]
            } else {
                vec![
                    en("A", None),
                    en("B", Some(b(true))),
                    en("C", Some(n(0))),
                    en("C", Some(w())),
                    w(),
                    or2(en("A", None), en("B", Some(w()))),
                    en("C", Some(or2(n(0), n(255)))),
                ]
            }
        }
        Ty::S => {
            if mid {
                let mut out = vec![];
                for p in [b(true), b(false), w()] {
                    for q in [n(0), n(255), w()] {
                        out.push(st(Some(p.clone()), Some(q)));
                    }
                }
                out.extend([
                    st(Some(var("a")), Some(n(0))),
                    st(Some(b(true)), Some(var("b"))),
                    st(Some(var("a")), Some(var("b"))),
                    st(Some(b(true)), None),
                    st(None, Some(n(0))),
                    st(None, None),
                    st_rev(n(0), b(true)),
                    w(),
                    var("v"),
                    or2(st(Some(b(true)), Some(n(0))), st(Some(b(false)), Some(n(255)))),
                    or2(st(Some(b(true)), Some(w())), st(Some(w()), Some(n(0)))),
                    st(Some(or2(b(true), b(false))), Some(n(0))),
                    st(Some(b(true)), Some(or2(n(0), n(1)))),
                ]);
                out
            } else {
                vec![
                    st(Some(b(true)), Some(n(0))),
                    st(Some(b(false)), Some(w())),
                    st(Some(w()), Some(n(0))),
                    st(Some(b(true)), None),
                    w(),
                    or2(st(Some(b(true)), Some(n(0))), st(Some(b(false)), Some(w()))),
                    st(Some(b(true)), Some(or2(n(0), n(255)))),
                ]
            }
        }
    }
}

/// The per-type pattern alphabet. `Full`: every constructor pattern over the sub-alphabets
/// (bool: true,false,_,v; u8: 0,1,254,255,_,v), `_`, a top-level binding, ordered or-patterns of two
/// distinct variable-free alternatives, and a few patterns with an or-pattern in a sub-position.
pub fn alphabet(ty: Ty, level: Level) -> Vec<Pat> {
    if level != Level::Full {
        return reduced_alphabet(ty, level);
    }
    let mut out: Vec<Pat> = vec![];
    match ty {
        Ty::Bool => {
            out.extend(bool_sub("v"));
            out.extend(ordered_ors(&[b(true), b(false), Pat::Wild]));
        }
        Ty::U8 => {
            out.extend(u8_sub("v"));
            out.extend(ordered_ors(&[n(0), n(1), n(254), n(255), Pat::Wild]));
        }
        Ty::BB => {
            for p in bool_sub("a") {
                for q in bool_sub("b") {
                    out.push(tup(p.clone(), q));
                }
            }
            out.push(Pat::Wild);
            out.push(var("v"));
            out.extend(ordered_ors(&[
                tup(b(true), b(true)),
                tup(b(true), b(false)),
                tup(b(false), Pat::Wild),
                tup(Pat::Wild, b(true)),
                Pat::Wild,
            ]));
            out.extend([
                tup(or2(b(true), b(false)), b(true)),
                tup(b(true), or2(b(true), b(false))),
                tup(or2(b(true), b(false)), or2(b(false), b(true))),
                tup(var("a"), or2(b(true), b(false))),
            ]);
        }
        Ty::UB => {
            for p in u8_sub("a") {
                for q in bool_sub("b") {
                    out.push(tup(p.clone(), q));
                }
            }
            out.push(Pat::Wild);
            out.push(var("v"));
            out.extend(ordered_ors(&[
                tup(n(0), b(true)),
                tup(n(255), b(false)),
                tup(n(0), Pat::Wild),
                tup(Pat::Wild, b(true)),
            ]));
            out.extend([
                tup(or2(n(0), n(1)), b(true)),
                tup(or2(n(254), n(255)), Pat::Wild),
                tup(n(0), or2(b(true), b(false))),
                tup(var("a"), or2(b(false), b(true))),
            ]);
        }
        Ty::E => {
            out.push(en("A", None));
            for p in bool_sub("p") {
                out.push(en("B", Some(p)));
            }
            for p in u8_sub("p") {
                out.push(en("C", Some(p)));
            }
            out.push(Pat::Wild);
            out.push(var("v"));
            out.extend(ordered_ors(&[
                en("A", None),
                en("B", Some(b(true))),
                en("B", Some(Pat::Wild)),
                en("C", Some(n(0))),
                en("C", Some(n(255))),
                en("C", Some(Pat::Wild)),
            ]));
            out.extend([
                en("B", Some(or2(b(true), b(false)))),
                en("C", Some(or2(n(0), n(1)))),
                en("C", Some(or2(n(255), n(254)))),
                en("C", Some(or2(n(0), Pat::Wild))),
            ]);
        }
        Ty::S => {
            for p in bool_sub("a") {
                for q in u8_sub("b") {
                    out.push(st(Some(p.clone()), Some(q)));
                }
            }
            out.extend([
                st(Some(b(true)), None),
                st(Some(b(false)), None),
                st(None, Some(n(0))),
                st(None, Some(n(255))),
                st(None, None),
                st_rev(n(0), b(true)),
                st_rev(Pat::Wild, b(false)),
                Pat::Wild,
                var("v"),
            ]);
            out.extend(ordered_ors(&[
                st(Some(b(true)), Some(n(0))),
                st(Some(b(false)), Some(n(255))),
                st(Some(b(true)), Some(Pat::Wild)),
                st(Some(Pat::Wild), Some(n(0))),
            ]));
            out.extend([
                st(Some(or2(b(true), b(false))), Some(n(0))),
                st(Some(b(true)), Some(or2(n(0), n(1)))),
                st(Some(Pat::Wild), Some(or2(n(254), n(255)))),
                st(Some(var("a")), Some(or2(n(0), n(255)))),
            ]);
        }
    }
    out
}

// ---------------------------------------------------------------------------------------------
// Cases, oracle

#[derive(Clone, Debug, PartialEq, Eq, Hash, Serialize, Deserialize)]
pub struct Case {
    pub ty: Ty,
    pub arms: Vec<Pat>,
}

impl Case {
    pub fn show(&self) -> String {
        format!(
            "match x: {} {{ {} }}",
            self.ty.sway(),
            self.arms
                .iter()
                .enumerate()
                .map(|(j, p)| format!("{} => {}", p.print(), j + 1))
                .collect::<Vec<_>>()
                .join(", ")
        )
    }
}

#[derive(Clone, Debug, PartialEq, Eq, Hash)]
pub struct Oracle {
    /// per value index: 1-based index of the first matching arm, 0 = no arm matches
    pub first: Vec<u8>,
    pub exhaustive: bool,
    /// per arm: matches at least one value not matched by an earlier arm
    pub reachable: Vec<bool>,
}

pub fn oracle(case: &Case, values: &[Val]) -> Oracle {
    let sh = case.ty.shape();
    let mut first = Vec::with_capacity(values.len());
    let mut reachable = vec![false; case.arms.len()];
    for v in values {
        let mut f = 0u8;
        for (j, p) in case.arms.iter().enumerate() {
            if p.matches(v, &sh) {
                f = (j + 1) as u8;
                reachable[j] = true;
                break;
            }
        }
        first.push(f);
    }
    let exhaustive = first.iter().all(|f| *f != 0);
    Oracle {
        first,
        exhaustive,
        reachable,
    }
}

/// The u64 words the generated `#[test]` logs: results packed 16 per word, 4 bits each
/// (`acc = acc * 16 + m(v)`), a word emitted after every 16th value and once more for a partial tail.
pub fn expected_words(first: &[u8]) -> Vec<u64> {
    let mut out = vec![];
    let mut acc = 0u64;
    let mut i = 0usize;
    for f in first {
        acc = acc * 16 + *f as u64;
        i += 1;
        if i % 16 == 0 {
            out.push(acc);
            acc = 0;
        }
    }
    if i % 16 != 0 {
        out.push(acc);
    }
    out
}

/// Inverse of `expected_words` (for error messages): per-value arm indices from logged words.
pub fn unpack_words(words: &[u64], n_values: usize) -> Vec<u8> {
    let mut out = vec![];
    let mut left = n_values;
    for w in words {
        let k = left.min(16);
        for j in 0..k {
            out.push(((w >> (4 * (k - 1 - j))) & 15) as u8);
        }
        left -= k;
    }
    out
}

// ---------------------------------------------------------------------------------------------
// Source generation

#[derive(Clone, Debug)]
pub struct FnSpan {
    /// byte range of the whole `fn mK … }` item
    pub start: usize,
    pub end: usize,
    /// byte range of each arm's pattern
    pub arms: Vec<(usize, usize)>,
}

pub struct Source {
    pub text: String,
    /// per included function (same order as `ids`)
    pub spans: Vec<FnSpan>,
    pub ids: Vec<usize>,
}

/// One package: prelude, (helpers + one `#[test]` per function when `with_tests`), and one
/// `fn m<id>(x: T) -> u64 { match x { p1 => 1, … } }` per case.
pub fn gen_source(cases: &[(usize, &Case)], with_tests: bool) -> Source {
    let mut text = String::with_capacity(cases.len() * 160 + 1024);
    text.push_str(PRELUDE);
    if with_tests {
        text.push_str(MK_FNS);
    }
    let mut spans = vec![];
    let mut ids = vec![];
    for (id, c) in cases {
        let start = text.len();
        text.push_str(&format!("fn m{id}(x: {}) -> u64 {{ match x {{ ", c.ty.sway()));
        let mut arms = vec![];
        for (j, p) in c.arms.iter().enumerate() {
            let s = text.len();
            text.push_str(&p.print());
            arms.push((s, text.len()));
            text.push_str(&format!(" => {}, ", j + 1));
        }
        text.push_str("} }");
        let end = text.len();
        text.push('\n');
        spans.push(FnSpan { start, end, arms });
        ids.push(*id);
    }
    if with_tests {
        for (id, c) in cases {
            let nv = c.ty.n_values();
            text.push_str(&format!(
                "#[test] fn t{id}() {{ let mut i = 0; let mut acc = 0; while i < {nv} {{ acc = acc * 16 + m{id}({}(i)); i += 1; if i % 16 == 0 {{ log(acc); acc = 0; }} }} if i % 16 != 0 {{ log(acc); }} }}\n",
                c.ty.mk_fn()
            ));
        }
    }
    Source { text, spans, ids }
}

// ---------------------------------------------------------------------------------------------
// Witness patterns (as printed by the compiler)

#[derive(Clone, Debug, PartialEq, Eq)]
pub enum WPat {
    Wild,
    Bool(bool),
    /// inclusive integer interval; `MIN` = 0, `MAX` = u64::MAX (the printer does not say of which width)
    Range(u64, u64),
    Tuple(Vec<WPat>),
    /// enum name, variant name, payload
    Enum(String, String, Box<WPat>),
    /// struct name, listed fields, trailing `...`
    Struct(String, Vec<(String, WPat)>, bool),
    Or(Vec<WPat>),
}

pub const NON_EXHAUSTIVE_PREFIX: &str = "Non-exhaustive match expression. Missing patterns ";

/// Split the message of `MatchExpressionNonExhaustive` into its back-quoted witness texts.
pub fn witness_texts(msg: &str) -> Result<Vec<String>, String> {
    let rest = msg
        .strip_prefix(NON_EXHAUSTIVE_PREFIX)
        .ok_or_else(|| format!("unexpected message prefix: {msg}"))?;
    let mut out = vec![];
    let mut s = rest.trim();
    loop {
        if !s.starts_with('`') {
            return Err(format!("expected '`' at `{s}` in {msg}"));
        }
        let close = s[1..].find('`').ok_or_else(|| format!("unterminated witness in {msg}"))?;
        out.push(s[1..1 + close].to_string());
        s = s[close + 2..].trim_start();
        if s.is_empty() {
            break;
        }
        s = s
            .strip_prefix(',')
            .ok_or_else(|| format!("expected ',' between witnesses in {msg}"))?
            .trim_start();
    }
    Ok(out)
}

struct P<'a> {
    s: &'a [u8],
    i: usize,
}

impl<'a> P<'a> {
    fn ws(&mut self) {
        while self.i < self.s.len() && self.s[self.i] == b' ' {
            self.i += 1;
        }
    }
    fn eat(&mut self, t: &str) -> bool {
        self.ws();
        if self.s[self.i..].starts_with(t.as_bytes()) {
            self.i += t.len();
            true
        } else {
            false
        }
    }
    fn peek(&mut self) -> Option<u8> {
        self.ws();
        self.s.get(self.i).copied()
    }
    fn ident(&mut self) -> Option<String> {
        self.ws();
        let st = self.i;
        while self.i < self.s.len() && (self.s[self.i].is_ascii_alphanumeric() || self.s[self.i] == b'_') {
            self.i += 1;
        }
        if self.i == st {
            None
        } else {
            Some(String::from_utf8_lossy(&self.s[st..self.i]).to_string())
        }
    }
    fn err<T>(&self, what: &str) -> Result<T, String> {
        Err(format!(
            "{what} at byte {} of `{}`",
            self.i,
            String::from_utf8_lossy(self.s)
        ))
    }
    fn bound(&mut self) -> Result<u64, String> {
        match self.ident() {
            Some(w) if w == "MIN" => Ok(0),
            Some(w) if w == "MAX" => Ok(u64::MAX),
            Some(w) => w.parse::<u64>().or_else(|_| self.err("bad integer bound")),
            None => self.err("expected bound"),
        }
    }
    fn pat(&mut self) -> Result<WPat, String> {
        let first = self.alt()?;
        let mut alts = vec![first];
        while self.eat("|") {
            alts.push(self.alt()?);
        }
        Ok(if alts.len() == 1 { alts.pop().unwrap() } else { WPat::Or(alts) })
    }
    fn alt(&mut self) -> Result<WPat, String> {
        match self.peek() {
            None => self.err("unexpected end"),
            Some(b'[') => {
                self.i += 1;
                let lo = self.bound()?;
                if !self.eat("...") {
                    return self.err("expected `...`");
                }
                let hi = self.bound()?;
                if !self.eat("]") {
                    return self.err("expected `]`");
                }
                Ok(WPat::Range(lo, hi))
            }
            Some(b'(') => {
                self.i += 1;
                let mut elems = vec![];
                if self.eat(")") {
                    return Ok(WPat::Tuple(elems));
                }
                loop {
                    elems.push(self.pat()?);
                    if self.eat(",") {
                        continue;
                    }
                    if self.eat(")") {
                        break;
                    }
                    return self.err("expected `,` or `)`");
                }
                Ok(WPat::Tuple(elems))
            }
            Some(_) => {
                let Some(id) = self.ident() else {
                    return self.err("unexpected character");
                };
                if id == "_" {
                    return Ok(WPat::Wild);
                }
                if id == "true" {
                    return Ok(WPat::Bool(true));
                }
                if id == "false" {
                    return Ok(WPat::Bool(false));
                }
                if id.as_bytes()[0].is_ascii_digit() {
                    let v = id.parse::<u64>().or_else(|_| self.err("bad integer"))?;
                    return Ok(WPat::Range(v, v));
                }
                if self.eat("::") {
                    let Some(variant) = self.ident() else {
                        return self.err("expected variant name");
                    };
                    if !self.eat("(") {
                        return self.err("expected `(` after variant");
                    }
                    let arg = self.pat()?;
                    if !self.eat(")") {
                        return self.err("expected `)` after variant payload");
                    }
                    return Ok(WPat::Enum(id, variant, Box::new(arg)));
                }
                if self.eat("{") {
                    let mut fields = vec![];
                    let mut rest = false;
                    loop {
                        if self.eat("}") {
                            break;
                        }
                        if self.eat("...") {
                            rest = true;
                            if !self.eat("}") {
                                return self.err("expected `}` after `...`");
                            }
                            break;
                        }
                        let Some(f) = self.ident() else {
                            return self.err("expected field name");
                        };
                        if !self.eat(":") {
                            return self.err("expected `:`");
                        }
                        let p = self.pat()?;
                        fields.push((f, p));
                        let _ = self.eat(",");
                    }
                    return Ok(WPat::Struct(id, fields, rest));
                }
                self.err("unknown witness syntax")
            }
        }
    }
}

pub fn parse_witness(text: &str) -> Result<WPat, String> {
    let mut p = P {
        s: text.as_bytes(),
        i: 0,
    };
    let w = p.pat()?;
    p.ws();
    if p.i != p.s.len() {
        return p.err("trailing input");
    }
    Ok(w)
}

impl WPat {
    /// Is the witness a pattern *of this type* at all (right constructor kinds, arities, names)?
    /// Integer intervals are accepted at u8 positions whatever their bounds.
    pub fn well_typed(&self, sh: &Shape) -> bool {
        match (self, sh) {
            (WPat::Wild, _) => true,
            (WPat::Or(ws), _) => ws.iter().all(|w| w.well_typed(sh)),
            (WPat::Bool(_), Shape::Bool) => true,
            (WPat::Range(..), Shape::U8) => true,
            (WPat::Tuple(ws), Shape::Tuple(ss)) => {
                ws.len() == ss.len() && ws.iter().zip(ss).all(|(w, s)| w.well_typed(s))
            }
            (WPat::Enum(en, var, arg), Shape::Enum(name, vars)) => {
                en == name
                    && match vars.iter().find(|(n, _)| n == var) {
                        Some((_, s)) => arg.well_typed(s),
                        None => false,
                    }
            }
            (WPat::Struct(sn, fs, rest), Shape::Struct(name, decl)) => {
                sn == name
                    && (*rest || fs.len() == decl.len())
                    && fs.iter().all(|(f, w)| match decl.iter().find(|(n, _)| n == f) {
                        Some((_, s)) => w.well_typed(s),
                        None => false,
                    })
            }
            _ => false,
        }
    }

    /// Does the witness denote this value? (ill-typed parts denote nothing)
    pub fn denotes(&self, v: &Val, sh: &Shape) -> bool {
        match (self, v, sh) {
            (WPat::Wild, _, _) => true,
            (WPat::Or(ws), _, _) => ws.iter().any(|w| w.denotes(v, sh)),
            (WPat::Bool(b), Val::B(x), Shape::Bool) => b == x,
            (WPat::Range(lo, hi), Val::U(x), Shape::U8) => *lo <= *x as u64 && *x as u64 <= *hi,
            (WPat::Tuple(ws), Val::T(vs), Shape::Tuple(ss)) => {
                ws.len() == vs.len() && ws.iter().zip(vs).zip(ss).all(|((w, v), s)| w.denotes(v, s))
            }
            (WPat::Enum(en, var, arg), Val::E(i, payload), Shape::Enum(name, vars)) => {
                en == name && vars[*i].0 == var.as_str() && arg.denotes(payload, &vars[*i].1)
            }
            (WPat::Struct(sn, fs, rest), Val::S(vs), Shape::Struct(name, decl)) => {
                sn == name
                    && (*rest || fs.len() == decl.len())
                    && fs.iter().all(|(f, w)| match decl.iter().position(|(n, _)| n == f) {
                        Some(k) => w.denotes(&vs[k], &decl[k].1),
                        None => false,
                    })
            }
            _ => false,
        }
    }

    /// Contains, at a u8 position, an interval that lies entirely above 255.
    pub fn has_interval_above_u8(&self, sh: &Shape) -> bool {
        match (self, sh) {
            (WPat::Range(lo, _), Shape::U8) => *lo > 255,
            (WPat::Or(ws), _) => ws.iter().any(|w| w.has_interval_above_u8(sh)),
            (WPat::Tuple(ws), Shape::Tuple(ss)) if ws.len() == ss.len() => {
                ws.iter().zip(ss).any(|(w, s)| w.has_interval_above_u8(s))
            }
            (WPat::Enum(_, var, arg), Shape::Enum(_, vars)) => vars
                .iter()
                .find(|(n, _)| n == var)
                .map(|(_, s)| arg.has_interval_above_u8(s))
                .unwrap_or(false),
            (WPat::Struct(_, fs, _), Shape::Struct(_, decl)) => fs.iter().any(|(f, w)| {
                decl.iter()
                    .find(|(n, _)| n == f)
                    .map(|(_, s)| w.has_interval_above_u8(s))
                    .unwrap_or(false)
            }),
            _ => false,
        }
    }

    pub fn kind(&self) -> &'static str {
        match self {
            WPat::Wild => "wildcard",
            WPat::Bool(_) => "bool",
            WPat::Range(..) => "int",
            WPat::Tuple(_) => "tuple",
            WPat::Enum(..) => "enum",
            WPat::Struct(..) => "struct",
            WPat::Or(_) => "or",
        }
    }
}

/// Hypothesis test used only to give a *root-cause sub-key* to a wrong tuple witness: the compiler
/// prints tuple elements through `PatStack`'s `Display`, which sorts the elements and removes
/// duplicates. Returns every tuple of the right arity whose sorted+deduplicated element list is
/// the printed list (for arity 2: `(a)` → `(a, a)`; `(a, b)` → `(a, b)` and `(b, a)`).
pub fn unscramble_tuple(printed: &[WPat], arity: usize) -> Vec<WPat> {
    let mut out = vec![];
    if printed.is_empty() || printed.len() > arity {
        return out;
    }
    // all sequences of length `arity` over `printed` that use every printed element at least once
    let k = printed.len();
    let total = k.pow(arity as u32);
    for code in 0..total {
        let mut c = code;
        let mut idx = vec![];
        for _ in 0..arity {
            idx.push(c % k);
            c /= k;
        }
        if (0..k).all(|e| idx.contains(&e)) {
            out.push(WPat::Tuple(idx.iter().map(|i| printed[*i].clone()).collect()));
        }
    }
    out
}

#[cfg(test)]
mod tests {
    use super::*;
    #[test]
    fn parse_examples() {
        let m = "Non-exhaustive match expression. Missing patterns `E::B(false)`, `E::C([1...MAX])`";
        let ts = witness_texts(m).unwrap();
        assert_eq!(ts.len(), 2);
        assert_eq!(
            parse_witness(&ts[1]).unwrap(),
            WPat::Enum("E".into(), "C".into(), Box::new(WPat::Range(1, u64::MAX)))
        );
        assert_eq!(
            parse_witness("S { x: false, ... }").unwrap(),
            WPat::Struct("S".into(), vec![("x".into(), WPat::Bool(false))], true)
        );
        assert_eq!(
            parse_witness("[1...254] | _").unwrap(),
            WPat::Or(vec![WPat::Range(1, 254), WPat::Wild])
        );
        assert_eq!(
            parse_witness("(_, false)").unwrap(),
            WPat::Tuple(vec![WPat::Wild, WPat::Bool(false)])
        );
    }
    #[test]
    fn words_roundtrip() {
        let f: Vec<u8> = (0..259).map(|i| (i % 4 + 1) as u8).collect();
        let w = expected_words(&f);
        assert_eq!(w.len(), 17);
        assert_eq!(unpack_words(&w, 259), f);
    }
}

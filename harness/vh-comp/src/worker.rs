//! Worker subprocess: holds one compilation context per profile (std type-checked once), serves
//! build+run requests over stdin/stdout (one JSON document per line). A compiler panic is caught
//! per build; an abort/OOM kills only this process and the pool bisects the batch.

use crate::engine::{self, Ctx, Outcome, Variant};
use serde::{Deserialize, Serialize};
use std::collections::BTreeMap;
use std::io::{BufRead, Write};
use std::path::PathBuf;

#[derive(Serialize, Deserialize, Clone, Debug, Default)]
pub struct BuildSpec {
    pub label: String,
    pub release: bool,
    #[serde(default)]
    pub skip_asm_opt: bool,
    #[serde(default)]
    pub check_regalloc: bool,
    /// Edit script applied to the flattened IR pass list.
    #[serde(default)]
    pub pass_ops: Vec<PassOp>,
    /// Run `Context::verify()` with SSA dominance after every pass and report the first failure.
    #[serde(default)]
    pub verify_each: bool,
    /// IR text round trip at these stage indices (0 = before the first pass, k = after the k-th
    /// executed pass); `usize::MAX` in the list = every stage.
    #[serde(default)]
    pub roundtrip_stages: Vec<usize>,
    /// Replace the context by the re-parsed one at the round-trip stages.
    #[serde(default)]
    pub roundtrip_substitute: bool,
    #[serde(default)]
    pub rounds: Option<usize>,
    #[serde(default)]
    pub run_tests: bool,
    /// Mode A (plain forc path, fresh engines) instead of Mode F.
    #[serde(default)]
    pub mode_a: bool,
    /// Return the bytecode itself (hex) and ABI/storage JSON, not only hashes.
    #[serde(default)]
    pub want_artifacts: bool,
    /// On build failure, re-run through sway_core directly to collect diagnostics with spans.
    #[serde(default)]
    pub want_diagnostics: bool,
    /// Run the package's `main` as a script with this script data (hex), like the e2e harness.
    #[serde(default)]
    pub run_script: Option<String>,
}

#[derive(Serialize, Deserialize, Clone, Debug)]
pub enum PassOp {
    /// insert pass `name` so that it becomes element `index` of the list
    Insert { index: usize, name: String },
    /// insert right before the first pass called `before` (e.g. the first Fuel lowering pass)
    InsertBefore { before: String, name: String },
    Remove { index: usize },
    /// replace the whole list
    Replace { names: Vec<String> },
    /// keep the leading lowering pass, then `names`, then everything from `from` on
    Splice { names: Vec<String>, from: String },
}

#[derive(Serialize, Deserialize, Clone, Debug)]
pub struct Request {
    pub id: u64,
    /// package directory name under the worker's scratch root
    pub name: String,
    pub src: String,
    #[serde(default)]
    pub extra_files: Vec<(String, String)>,
    pub with_std: bool,
    pub builds: Vec<BuildSpec>,
    /// use this existing package directory instead of writing `src`
    #[serde(default)]
    pub existing_dir: Option<String>,
}

#[derive(Serialize, Deserialize, Clone, Debug, Default)]
pub struct TestOut {
    pub name: String,
    pub outcome: Option<Outcome>,
    pub passed: bool,
    pub gas: u64,
}

#[derive(Serialize, Deserialize, Clone, Debug, Default)]
pub struct Diag {
    pub message: String,
    pub start: usize,
    pub end: usize,
    pub is_error: bool,
}

#[derive(Serialize, Deserialize, Clone, Debug, Default)]
pub struct BuildOut {
    pub label: String,
    pub ok: bool,
    pub error: String,
    pub panic: Option<String>,
    pub panic_loc: String,
    pub bytecode_hash: String,
    pub bytecode_len: usize,
    pub abi_hash: String,
    pub storage_hash: String,
    pub bytecode_hex: String,
    pub abi_json: String,
    pub storage_json: String,
    pub tests: Vec<TestOut>,
    #[serde(default)]
    pub script: Option<engine::ScriptRun>,
    pub run_error: String,
    pub regalloc_reports: Vec<String>,
    pub regalloc_stats: (u64, u64, u64),
    /// pass list that actually ran (after editing), first round
    pub passes_run: Vec<String>,
    pub verify_failures: Vec<String>,
    pub roundtrip_failures: Vec<String>,
    pub roundtrip_stages_checked: usize,
    #[serde(default)]
    pub roundtrip_notes: Vec<String>,
    pub diagnostics: Vec<Diag>,
    pub warnings: Vec<Diag>,
    pub millis: u64,
}

#[derive(Serialize, Deserialize, Clone, Debug, Default)]
pub struct Response {
    pub id: u64,
    pub builds: Vec<BuildOut>,
}

pub fn pass_name(s: &str) -> Option<&'static str> {
    use sway_ir::*;
    const ALL: &[&str] = &[
        INIT_AGGR_LOWERING_NAME,
        ARG_POINTEE_MUTABILITY_TAGGER_NAME,
        FN_DEDUP_RELEASE_PROFILE_NAME,
        FN_DEDUP_DEBUG_PROFILE_NAME,
        MEM2REG_NAME,
        SROA_NAME,
        FN_INLINE_NAME,
        CONST_FOLDING_NAME,
        CCP_NAME,
        SIMPLIFY_CFG_NAME,
        GLOBALS_DCE_NAME,
        DCE_NAME,
        CSE_NAME,
        ARG_DEMOTION_NAME,
        CONST_DEMOTION_NAME,
        RET_DEMOTION_NAME,
        MISC_DEMOTION_NAME,
        MEMCPYOPT_NAME,
        MEMCPYPROP_REVERSE_NAME,
    ];
    ALL.iter().copied().find(|n| *n == s)
}

/// The 19 registered transformation passes (sway-ir `register_known_passes`).
pub fn transform_passes() -> Vec<&'static str> {
    use sway_ir::*;
    vec![
        INIT_AGGR_LOWERING_NAME,
        ARG_POINTEE_MUTABILITY_TAGGER_NAME,
        FN_DEDUP_RELEASE_PROFILE_NAME,
        FN_DEDUP_DEBUG_PROFILE_NAME,
        MEM2REG_NAME,
        SROA_NAME,
        FN_INLINE_NAME,
        CONST_FOLDING_NAME,
        CCP_NAME,
        SIMPLIFY_CFG_NAME,
        GLOBALS_DCE_NAME,
        DCE_NAME,
        CSE_NAME,
        ARG_DEMOTION_NAME,
        CONST_DEMOTION_NAME,
        RET_DEMOTION_NAME,
        MISC_DEMOTION_NAME,
        MEMCPYOPT_NAME,
        MEMCPYPROP_REVERSE_NAME,
    ]
}

fn apply_pass_ops(mut list: Vec<&'static str>, ops: &[PassOp]) -> Vec<&'static str> {
    for op in ops {
        match op {
            PassOp::Insert { index, name } => {
                let n = pass_name(name).expect("unknown pass");
                let i = (*index).min(list.len());
                list.insert(i, n);
            }
            PassOp::InsertBefore { before, name } => {
                let n = pass_name(name).expect("unknown pass");
                let i = list.iter().position(|p| p == before).unwrap_or(list.len());
                list.insert(i, n);
            }
            PassOp::Remove { index } => {
                if *index < list.len() {
                    list.remove(*index);
                }
            }
            PassOp::Replace { names } => {
                list = names.iter().map(|n| pass_name(n).expect("unknown pass")).collect();
            }
            PassOp::Splice { names, from } => {
                let tail_at = list.iter().position(|p| p == from).unwrap_or(list.len());
                let tail: Vec<&'static str> = list[tail_at..].to_vec();
                let mut l: Vec<&'static str> = list.iter().take(1).copied().collect();
                l.extend(names.iter().map(|n| pass_name(n).expect("unknown pass")));
                l.extend(tail);
                list = l;
            }
        }
    }
    list
}

fn hash_hex(bytes: &[u8]) -> String {
    use sha2::{Digest, Sha256};
    hex::encode(&Sha256::digest(bytes)[..12])
}

pub struct Worker {
    root: PathBuf,
    debug: Option<Ctx>,
    release: Option<Ctx>,
    served: usize,
}

impl Worker {
    pub fn new(root: PathBuf) -> Worker {
        let _ = std::fs::create_dir_all(&root);
        Worker {
            root,
            debug: None,
            release: None,
            served: 0,
        }
    }

    fn ctx(&mut self, release: bool) -> &mut Ctx {
        let slot = if release {
            &mut self.release
        } else {
            &mut self.debug
        };
        if slot.is_none() {
            *slot = Some(Ctx::new(release));
        }
        slot.as_mut().unwrap()
    }

    pub fn handle(&mut self, req: &Request) -> Response {
        let dir = match &req.existing_dir {
            Some(d) => PathBuf::from(d),
            None => {
                let dir = self.root.join(&req.name);
                let _ = std::fs::remove_dir_all(&dir);
                if let Err(e) = engine::write_package(&dir, &req.name, &req.src, req.with_std) {
                    vhcore::machinery_failure(&format!("cannot write package: {e}"));
                }
                for (rel, content) in &req.extra_files {
                    let p = dir.join(rel);
                    if let Some(parent) = p.parent() {
                        let _ = std::fs::create_dir_all(parent);
                    }
                    let _ = std::fs::write(p, content);
                }
                dir
            }
        };
        let mut outs = vec![];
        for spec in &req.builds {
            outs.push(self.build_one(&dir, spec));
        }
        if req.existing_dir.is_none() {
            // NOTE: no `engines.clear_program` here. Clearing a member's program from engines that
            // keep std's typed namespace alive leaves stale monomorphised std functions behind
            // (observed: "Store value and pointer type mismatch" ICEs in later packages), which
            // Mode A never sees. Memory is bounded by recycling workers instead (Pool.recycle_after).
            let _ = std::fs::remove_dir_all(&dir);
        }
        self.served += 1;
        Response {
            id: req.id,
            builds: outs,
        }
    }

    fn build_one(&mut self, dir: &std::path::Path, spec: &BuildSpec) -> BuildOut {
        let t0 = std::time::Instant::now();
        let mut out = BuildOut {
            label: spec.label.clone(),
            ..Default::default()
        };
        use std::cell::RefCell;
        use std::rc::Rc;
        let passes_run: Rc<RefCell<Vec<String>>> = Rc::new(RefCell::new(vec![]));
        let verify_failures: Rc<RefCell<Vec<String>>> = Rc::new(RefCell::new(vec![]));
        let rt_failures: Rc<RefCell<Vec<String>>> = Rc::new(RefCell::new(vec![]));
        let rt_checked: Rc<RefCell<usize>> = Rc::new(RefCell::new(0));
        let rt_notes: Rc<RefCell<Vec<String>>> = Rc::new(RefCell::new(vec![]));

        let mut variant = Variant {
            skip_asm_opt: spec.skip_asm_opt,
            check_regalloc: spec.check_regalloc,
            rounds: spec.rounds,
            ..Default::default()
        };
        if !spec.pass_ops.is_empty() {
            let ops = spec.pass_ops.clone();
            variant.edit_passes = Some(Box::new(move |l| apply_pass_ops(l, &ops)));
        }
        if spec.verify_each || !spec.roundtrip_stages.is_empty() {
            let pr = passes_run.clone();
            let vf = verify_failures.clone();
            let rf = rt_failures.clone();
            let rc = rt_checked.clone();
            let rn = rt_notes.clone();
            let verify_each = spec.verify_each;
            let stages = spec.roundtrip_stages.clone();
            let substitute = spec.roundtrip_substitute;
            let mut stage = 0usize;
            let mut broken = false;
            variant.observer = Some(Box::new(move |pass: &str, ir: &mut sway_ir::Context| {
                let this_stage = stage;
                stage += 1;
                if !pass.is_empty() {
                    pr.borrow_mut().push(pass.to_string());
                }
                let mut replaced = false;
                if verify_each && !broken {
                    let saved = ir.verify_ssa_dominance;
                    ir.verify_ssa_dominance = true;
                    let res = std::panic::catch_unwind(std::panic::AssertUnwindSafe(|| ir.verify()));
                    ir.verify_ssa_dominance = saved;
                    match res {
                        Ok(Ok(())) => {}
                        Ok(Err(e)) => {
                            broken = true;
                            vf.borrow_mut().push(format!(
                                "stage {this_stage} after pass `{pass}`: {e}"
                            ));
                        }
                        Err(_) => {
                            broken = true;
                            vf.borrow_mut().push(format!(
                                "stage {this_stage} after pass `{pass}`: verifier panicked at {}",
                                vhcore::take_panic_loc()
                            ));
                        }
                    }
                }
                if stages.contains(&this_stage) || stages.contains(&usize::MAX) {
                    *rc.borrow_mut() += 1;
                    match crate::irtext::roundtrip(ir) {
                        Ok((new_ir, notes)) => {
                            for n in notes {
                                rn.borrow_mut().push(format!("stage {this_stage} after pass `{pass}`: {n}"));
                            }
                            if substitute {
                                *ir = new_ir;
                                replaced = true;
                            }
                        }
                        Err(msg) => rf
                            .borrow_mut()
                            .push(format!("stage {this_stage} after pass `{pass}`: {msg}")),
                    }
                }
                replaced
            }));
        }

        let tests = spec.run_tests;
        let dirb = dir.to_path_buf();
        let res = if spec.mode_a {
            let r = std::panic::catch_unwind(|| engine::mode_a_build(&dirb, spec.release, tests));
            match r {
                Ok(Ok((b, plan))) => Ok(Ok(engine::Compiled {
                    built: (*b).clone(),
                    plan,
                    regalloc_reports: vec![],
                    regalloc_stats: (0, 0, 0),
                })),
                Ok(Err(e)) => Ok(Err(e)),
                Err(_) => Err(()),
            }
        } else {
            let ctx = self.ctx(spec.release);
            let r = std::panic::catch_unwind(std::panic::AssertUnwindSafe(|| {
                ctx.compile_dir(&dirb, tests, variant)
            }));
            match r {
                Ok(x) => Ok(x),
                Err(_) => Err(()),
            }
        };
        match res {
            Err(()) => {
                // the panic message was recorded by the hook
                out.panic = Some(crate::take_panic_msg());
                out.panic_loc = {
                    // locations relative to the repository root, so that class keys are the same in
                    // /repo and in a lab worktree
                    let loc = vhcore::take_panic_loc();
                    let root = format!("{}/", vhcore::repo_root().to_string_lossy());
                    loc.strip_prefix(&root).map(|s| s.to_string()).unwrap_or(loc)
                };
                // engines may be poisoned by the unwinding: drop the context
                if spec.release {
                    self.release = None;
                } else {
                    self.debug = None;
                }
                sway_ir::pass_manager::verif::set_controller(None);
                sway_core::verif::set_skip_asm_opt(false);
                sway_core::verif::set_check_regalloc(false);
            }
            Ok(Err(e)) => {
                out.error = format!("{e:#}");
                if spec.want_diagnostics {
                    let ctx = self.ctx(spec.release);
                    let (errs, warns) = crate::diag::diagnose(ctx, dir, tests);
                    out.diagnostics = errs;
                    out.warnings = warns;
                }
            }
            Ok(Ok(c)) => {
                out.ok = true;
                out.bytecode_len = c.built.bytecode.bytes.len();
                out.bytecode_hash = hash_hex(&c.built.bytecode.bytes);
                let abi = match &c.built.program_abi {
                    sway_core::asm_generation::ProgramABI::Fuel(a) => {
                        serde_json::to_string(a).unwrap_or_default()
                    }
                    _ => String::new(),
                };
                out.abi_hash = hash_hex(abi.as_bytes());
                let storage = serde_json::to_string(&c.built.storage_slots).unwrap_or_default();
                out.storage_hash = hash_hex(storage.as_bytes());
                if spec.want_artifacts {
                    out.bytecode_hex = hex::encode(&c.built.bytecode.bytes);
                    out.abi_json = abi;
                    out.storage_json = storage;
                }
                out.regalloc_reports = c.regalloc_reports.clone();
                out.regalloc_stats = c.regalloc_stats;
                if spec.want_diagnostics {
                    out.warnings = c
                        .built
                        .warnings
                        .iter()
                        .map(|w| Diag {
                            message: format!("{}", w.warning_content),
                            start: w.span.start(),
                            end: w.span.end(),
                            is_error: false,
                        })
                        .collect();
                }
                if let Some(data_hex) = &spec.run_script {
                    let data = hex::decode(data_hex).unwrap_or_default();
                    let bc = c.built.bytecode.bytes.clone();
                    match std::panic::catch_unwind(move || engine::run_script(&bc, data)) {
                        Ok(Ok(r)) => out.script = Some(r),
                        Ok(Err(e)) => out.run_error = format!("{e:#}"),
                        Err(_) => out.run_error = format!("panic while running the script: {} at {}", crate::take_panic_msg(), vhcore::take_panic_loc()),
                    }
                }
                if spec.run_tests {
                    let r = std::panic::catch_unwind(std::panic::AssertUnwindSafe(|| {
                        engine::run_tests(c.built, &c.plan, 1, None)
                    }));
                    match r {
                        Ok(Ok(ts)) => {
                            out.tests = ts
                                .into_iter()
                                .map(|t| TestOut {
                                    name: t.name,
                                    outcome: Some(t.outcome),
                                    passed: t.passed,
                                    gas: t.gas,
                                })
                                .collect();
                        }
                        Ok(Err(e)) => out.run_error = format!("{e:#}"),
                        Err(_) => {
                            out.run_error = format!(
                                "panic while running tests: {} at {}",
                                crate::take_panic_msg(),
                                vhcore::take_panic_loc()
                            )
                        }
                    }
                }
            }
        }
        out.passes_run = passes_run.borrow().clone();
        out.verify_failures = verify_failures.borrow().clone();
        out.roundtrip_failures = rt_failures.borrow().clone();
        out.roundtrip_stages_checked = *rt_checked.borrow();
        out.roundtrip_notes = rt_notes.borrow().clone();
        out.millis = t0.elapsed().as_millis() as u64;
        out
    }
}

/// Serve requests from stdin until EOF. Scratch root comes from argv.
pub fn serve(root: PathBuf) -> i32 {
    crate::install_panic_hook();
    // forc prints progress through `tracing`; with no subscriber installed nothing is emitted.
    let mut w = Worker::new(root);
    let stdin = std::io::stdin();
    let stdout = std::io::stdout();
    for line in stdin.lock().lines() {
        let Ok(line) = line else { break };
        if line.trim().is_empty() {
            continue;
        }
        let req: Request = match serde_json::from_str(&line) {
            Ok(r) => r,
            Err(e) => vhcore::machinery_failure(&format!("worker: bad request: {e}")),
        };
        let resp = w.handle(&req);
        let mut o = stdout.lock();
        let _ = writeln!(o, "@@RESP {}", serde_json::to_string(&resp).unwrap());
        let _ = o.flush();
    }
    0
}

pub type TestMap = BTreeMap<String, Outcome>;

pub fn tests_map(b: &BuildOut) -> TestMap {
    b.tests
        .iter()
        .filter_map(|t| t.outcome.clone().map(|o| (t.name.clone(), o)))
        .collect()
}

//! Pool of worker subprocesses. Requests are distributed dynamically; responses are returned in
//! request order. A worker that dies (abort, OOM, stack overflow) or exceeds the per-request
//! timeout is reported per request as `Err(reason)`, and a fresh worker is started.

use crate::worker::{Request, Response};
use std::io::{BufRead, BufReader, Write};
use std::path::PathBuf;
use std::process::{Child, ChildStdin, Command, Stdio};
use std::sync::atomic::{AtomicUsize, Ordering};
use std::sync::mpsc;
use std::sync::Mutex;
use std::time::Duration;

pub struct Pool {
    pub jobs: usize,
    pub scratch: PathBuf,
    pub timeout: Duration,
    /// restart a worker after this many requests (bounds engine memory growth)
    pub recycle_after: usize,
}

struct Proc {
    child: Child,
    stdin: ChildStdin,
    rx: mpsc::Receiver<Option<String>>,
    served: usize,
}

fn spawn(scratch: &PathBuf, idx: usize) -> Proc {
    let exe = std::env::current_exe().expect("current_exe");
    let root = scratch.join(format!("w{idx}"));
    let mut child = Command::new(exe)
        .arg("worker")
        .arg(&root)
        .stdin(Stdio::piped())
        .stdout(Stdio::piped())
        .stderr(Stdio::null())
        .spawn()
        .unwrap_or_else(|e| vhcore::machinery_failure(&format!("cannot spawn worker: {e}")));
    let stdin = child.stdin.take().unwrap();
    let stdout = child.stdout.take().unwrap();
    let (tx, rx) = mpsc::channel();
    std::thread::spawn(move || {
        let rd = BufReader::new(stdout);
        for line in rd.lines() {
            match line {
                Ok(l) => {
                    if let Some(rest) = l.strip_prefix("@@RESP ") {
                        if tx.send(Some(rest.to_string())).is_err() {
                            return;
                        }
                    }
                }
                Err(_) => break,
            }
        }
        let _ = tx.send(None);
    });
    Proc {
        child,
        stdin,
        rx,
        served: 0,
    }
}

impl Pool {
    pub fn new(jobs: usize, scratch: PathBuf) -> Pool {
        Pool {
            jobs,
            scratch,
            timeout: Duration::from_secs(600),
            recycle_after: 40,
        }
    }

    pub fn run(&self, reqs: &[Request]) -> Vec<Result<Response, String>> {
        self.run_with(reqs, &|_, _| {})
    }

    /// `on_done(index, result)` is called (serialised) as results arrive — for progress/streaming.
    pub fn run_with(
        &self,
        reqs: &[Request],
        on_done: &(dyn Fn(usize, &Result<Response, String>) + Sync),
    ) -> Vec<Result<Response, String>> {
        let next = AtomicUsize::new(0);
        let results: Mutex<Vec<Option<Result<Response, String>>>> =
            Mutex::new((0..reqs.len()).map(|_| None).collect());
        let n = self.jobs.max(1).min(reqs.len().max(1));
        std::thread::scope(|s| {
            for w in 0..n {
                let next = &next;
                let results = &results;
                s.spawn(move || {
                    let mut proc: Option<Proc> = None;
                    loop {
                        let i = next.fetch_add(1, Ordering::Relaxed);
                        if i >= reqs.len() {
                            break;
                        }
                        if proc.as_ref().map(|p| p.served >= self.recycle_after).unwrap_or(false) {
                            if let Some(mut p) = proc.take() {
                                drop(p.stdin);
                                let _ = p.child.wait();
                            }
                        }
                        if proc.is_none() {
                            proc = Some(spawn(&self.scratch, w));
                        }
                        let p = proc.as_mut().unwrap();
                        let line = serde_json::to_string(&reqs[i]).unwrap();
                        let res: Result<Response, String> = (|| {
                            p.stdin
                                .write_all(line.as_bytes())
                                .and_then(|_| p.stdin.write_all(b"\n"))
                                .and_then(|_| p.stdin.flush())
                                .map_err(|e| format!("worker died before request: {e}"))?;
                            match p.rx.recv_timeout(self.timeout) {
                                Ok(Some(l)) => serde_json::from_str::<Response>(&l)
                                    .map_err(|e| format!("bad response: {e}")),
                                Ok(None) => {
                                    let st = p.child.wait().ok();
                                    Err(format!("worker exited during request: {st:?}"))
                                }
                                Err(_) => {
                                    let _ = p.child.kill();
                                    let _ = p.child.wait();
                                    Err(format!("timeout after {:?}", self.timeout))
                                }
                            }
                        })();
                        if res.is_err() {
                            if let Some(mut p) = proc.take() {
                                let _ = p.child.kill();
                                let _ = p.child.wait();
                            }
                        } else {
                            p.served += 1;
                        }
                        {
                            let mut g = results.lock().unwrap();
                            on_done(i, &res);
                            g[i] = Some(res);
                        }
                    }
                    if let Some(mut p) = proc.take() {
                        drop(p.stdin);
                        let _ = p.child.wait();
                    }
                });
            }
        });
        results
            .into_inner()
            .unwrap()
            .into_iter()
            .map(|r| r.unwrap_or_else(|| Err("not run".into())))
            .collect()
    }
}

//! Space S5: the e2e "run" corpus with the maintainers' expected results (`test.toml`), staged
//! into the work directory (nothing under /repo is written): reduced std libraries are assembled
//! from the CURRENT /repo/sway-lib-std sources exactly as the e2e harness does, and path
//! dependencies are rewritten to absolute paths.

use crate::engine::ScriptOutcome;
use std::path::{Path, PathBuf};

#[derive(Clone, Debug)]
pub struct S5Case {
    pub name: String,
    pub src_dir: PathBuf,
    pub script_data: Vec<u8>,
    pub expect: ScriptOutcome,
}

fn walk_tests(d: &Path, out: &mut Vec<PathBuf>) {
    let Ok(rd) = std::fs::read_dir(d) else { return };
    let mut es: Vec<_> = rd.filter_map(|e| e.ok()).collect();
    es.sort_by_key(|e| e.file_name());
    for e in es {
        let p = e.path();
        if p.is_dir() {
            if p.join("test.toml").exists() && p.join("Forc.toml").exists() {
                out.push(p.clone());
            }
            walk_tests(&p, out);
        }
    }
}

fn parse_expect(t: &toml::Value) -> Option<ScriptOutcome> {
    let action = t.get("action")?.as_str()?;
    let value = t.get("value")?;
    match (action, value) {
        ("return", toml::Value::Integer(v)) => Some(ScriptOutcome::Return(*v as u64)),
        ("return_data", toml::Value::String(s)) => hex::decode(s.replace(' ', "")).ok().map(ScriptOutcome::ReturnData),
        ("revert", toml::Value::Integer(v)) => Some(ScriptOutcome::Revert(*v as u64)),
        _ => None,
    }
}

/// Collect every `category = "run"` test with a usable expectation. Returns (cases, skipped).
pub fn collect() -> (Vec<S5Case>, Vec<(String, String)>) {
    let root = vhcore::repo_root().join("test/src/e2e_vm_tests/test_programs/should_pass");
    let mut dirs = vec![];
    walk_tests(&root, &mut dirs);
    let mut cases = vec![];
    let mut skipped = vec![];
    for d in dirs {
        let name = d.strip_prefix(&root).unwrap_or(&d).to_string_lossy().to_string();
        let Ok(txt) = std::fs::read_to_string(d.join("test.toml")) else { continue };
        let Ok(t) = txt.parse::<toml::Value>() else {
            skipped.push((name, "test.toml does not parse".into()));
            continue;
        };
        let cat = t.get("category_new_encoding").or_else(|| t.get("category")).and_then(|c| c.as_str()).unwrap_or("");
        if cat != "run" {
            continue;
        }
        let skip = |why: &str, skipped: &mut Vec<(String, String)>| skipped.push((name.clone(), why.to_string()));
        if t.get("contracts").is_some() {
            skip("needs deployed contracts", &mut skipped);
            continue;
        }
        if t.get("witness_data").is_some() || t.get("experimental").is_some() || t.get("experimental_new_encoding").is_some() {
            skip("needs witness data / non-default experimental features", &mut skipped);
            continue;
        }
        if t.get("unsupported_profiles").is_some() || t.get("supported_targets").map(|v| !v.to_string().contains("fuel")).unwrap_or(false) {
            skip("profile/target restricted", &mut skipped);
            continue;
        }
        let Some(exp) = t.get("expected_result_new_encoding").and_then(parse_expect) else {
            skip("no expected_result_new_encoding", &mut skipped);
            continue;
        };
        let data = t
            .get("script_data_new_encoding")
            .and_then(|v| v.as_str())
            .map(|s| hex::decode(s.replace(' ', "")).unwrap_or_default())
            .unwrap_or_default();
        cases.push(S5Case { name, src_dir: d, script_data: data, expect: exp });
    }
    (cases, skipped)
}

fn copy_tree(from: &Path, to: &Path) {
    let _ = std::fs::create_dir_all(to);
    let Ok(rd) = std::fs::read_dir(from) else { return };
    for e in rd.flatten() {
        let p = e.path();
        let name = e.file_name();
        if name == "out" || name == "target" {
            continue;
        }
        if p.is_dir() {
            copy_tree(&p, &to.join(&name));
        } else {
            let _ = std::fs::copy(&p, to.join(&name));
        }
    }
}

/// Assemble the reduced std libraries under `work/reduced_std_libs` from the current std sources.
pub fn stage_reduced_libs(work: &Path) -> PathBuf {
    let src_root = vhcore::repo_root().join("test/src/e2e_vm_tests/reduced_std_libs");
    let std_src = vhcore::repo_root().join("sway-lib-std/src");
    let dst_root = work.join("reduced_std_libs");
    if let Ok(rd) = std::fs::read_dir(&src_root) {
        for e in rd.flatten() {
            let p = e.path();
            if !p.is_dir() {
                continue;
            }
            let dst = dst_root.join(e.file_name());
            copy_tree(&p, &dst);
            let _ = std::fs::remove_file(dst.join("Forc.lock"));
            if let Ok(cfg) = std::fs::read_to_string(p.join("reduced_lib.config")) {
                for m in cfg.lines().map(|l| l.trim()).filter(|l| !l.is_empty()) {
                    let to = dst.join("src").join(m);
                    if let Some(parent) = to.parent() {
                        let _ = std::fs::create_dir_all(parent);
                    }
                    let _ = std::fs::copy(std_src.join(m), &to);
                }
            }
        }
    }
    dst_root
}

/// Copy the test package to `work/pkgs/<n>` with every path dependency made absolute (reduced
/// std libraries redirected to the staged copies). Returns the staged directory.
pub fn stage_case(c: &S5Case, work: &Path, idx: usize, reduced_root: &Path) -> Option<PathBuf> {
    let dst = work.join("pkgs").join(format!("p{idx}"));
    let _ = std::fs::remove_dir_all(&dst);
    copy_tree(&c.src_dir, &dst);
    let _ = std::fs::remove_file(dst.join("Forc.lock"));
    let manifest = std::fs::read_to_string(c.src_dir.join("Forc.toml")).ok()?;
    let mut t: toml::Value = manifest.parse().ok()?;
    for section in ["dependencies", "contract-dependencies"] {
        if let Some(deps) = t.get_mut(section).and_then(|d| d.as_table_mut()) {
            for (_, v) in deps.iter_mut() {
                if let Some(tab) = v.as_table_mut() {
                    if let Some(p) = tab.get("path").and_then(|p| p.as_str()).map(|s| s.to_string()) {
                        let abs = c.src_dir.join(&p);
                        let abs = abs.canonicalize().unwrap_or(abs);
                        let abs_s = abs.to_string_lossy().to_string();
                        let new = if let Some(i) = abs_s.find("/reduced_std_libs/") {
                            reduced_root.join(&abs_s[i + "/reduced_std_libs/".len()..])
                        } else if abs.starts_with(&c.src_dir) {
                            dst.join(abs.strip_prefix(&c.src_dir).ok()?)
                        } else {
                            abs
                        };
                        tab.insert("path".into(), toml::Value::String(new.to_string_lossy().to_string()));
                    }
                }
            }
        }
    }
    std::fs::write(dst.join("Forc.toml"), toml::to_string(&t).ok()?).ok()?;
    Some(dst)
}

/// Build (debug + release, Mode F) and run every `step`-th S5 case. Returns per case the two
/// build outputs.
pub fn run_s5(
    pool: &crate::pool::Pool,
    work: &Path,
    step: usize,
) -> (Vec<(S5Case, Result<crate::worker::Response, String>)>, Vec<(String, String)>) {
    let (cases, skipped) = collect();
    let reduced = stage_reduced_libs(work);
    let selected: Vec<S5Case> = cases.into_iter().step_by(step.max(1)).collect();
    let mut reqs = vec![];
    let mut kept = vec![];
    for (i, c) in selected.iter().enumerate() {
        let Some(dir) = stage_case(c, work, i, &reduced) else { continue };
        let data = hex::encode(&c.script_data);
        let mk = |label: &str, release: bool| crate::worker::BuildSpec {
            label: label.into(),
            release,
            run_script: Some(data.clone()),
            check_regalloc: true,
            ..Default::default()
        };
        reqs.push(crate::worker::Request {
            id: i as u64,
            name: format!("s5_{i}"),
            src: String::new(),
            extra_files: vec![],
            with_std: true,
            existing_dir: Some(dir.to_string_lossy().to_string()),
            builds: vec![mk("debug", false), mk("release", true)],
        });
        kept.push(c.clone());
    }
    eprintln!("[S5] {} packages", reqs.len());
    let resps = pool.run(&reqs);
    (kept.into_iter().zip(resps).collect(), skipped)
}

//! Shared machinery of C09 / C10: bounded-exhaustive enumeration of ABI-encodable Sway type
//! trees and of their boundary values, a Sway printer for both, a reference implementation of
//! Fuel ABI encoding v1 (encoder + decoder) that is driven by the *JSON ABI of the build*, and
//! the isomorphism check between a generated type tree and its JSON ABI description.
//!
//! Encoding v1 rules (fuel-specs "argument encoding" v1, cross-checked with the comments and
//! impls of sway-lib-std/src/codec.sw, vec.sw, bytes.sw, string.sw):
//!   u8→1 B, u16→2 B, u32→4 B, u64→8 B (big endian), u256/b256→32 B, bool→1 B (0/1),
//!   str[N]→N bytes (no padding), str / raw_slice / Bytes / String → u64 length + bytes,
//!   Vec<T> → u64 element count + concatenated elements, [T;N] / tuples / structs →
//!   concatenation of the members in declaration order, enums → u64 discriminant (declaration
//!   index) followed by the encoding of the payload (nothing for a unit variant).

use serde_json::Value;
use std::collections::BTreeMap;
use std::fmt::Write as _;

// ---------------------------------------------------------------------------------------------
// Type trees

#[derive(Clone, Debug, PartialEq, Eq, Hash, PartialOrd, Ord, serde::Serialize, serde::Deserialize)]
pub enum Ty {
    U8,
    U16,
    U32,
    U64,
    U256,
    Bool,
    B256,
    StrArr(u64),
    Str,
    Bytes,
    String,
    Arr(Box<Ty>, u64),
    Tup(Box<Ty>, Box<Ty>),
    /// struct with one or two fields
    Struct(Vec<Ty>),
    /// `enum { A: T, B: () }` (second = None) or `enum { A: T, B: U }`
    Enum(Box<Ty>, Option<Box<Ty>>),
    Opt(Box<Ty>),
    Res(Box<Ty>, Box<Ty>),
    Vec(Box<Ty>),
}

pub fn leaves() -> Vec<Ty> {
    vec![
        Ty::U8,
        Ty::U16,
        Ty::U32,
        Ty::U64,
        Ty::U256,
        Ty::Bool,
        Ty::B256,
        Ty::StrArr(1),
        Ty::StrArr(3),
        Ty::StrArr(8),
        Ty::Str,
        Ty::Bytes,
        Ty::String,
    ]
}

pub const UNARY_CTORS: usize = 6;
pub const BINARY_CTORS: usize = 4;

fn unary(k: usize, t: Ty) -> Ty {
    match k {
        0 => Ty::Arr(Box::new(t), 1),
        1 => Ty::Arr(Box::new(t), 2),
        2 => Ty::Struct(vec![t]),
        3 => Ty::Enum(Box::new(t), None),
        4 => Ty::Opt(Box::new(t)),
        _ => Ty::Vec(Box::new(t)),
    }
}

fn binary(k: usize, a: Ty, b: Ty) -> Ty {
    match k {
        0 => Ty::Tup(Box::new(a), Box::new(b)),
        1 => Ty::Struct(vec![a, b]),
        2 => Ty::Enum(Box::new(a), Some(Box::new(b))),
        _ => Ty::Res(Box::new(a), Box::new(b)),
    }
}

/// All type trees with exactly `n` edges (= nodes − 1), for n = 0..=max; simplest first.
pub fn types_by_size(max: usize) -> Vec<Vec<Ty>> {
    let mut by: Vec<Vec<Ty>> = vec![leaves()];
    for n in 1..=max {
        let mut cur = vec![];
        for k in 0..UNARY_CTORS {
            for t in &by[n - 1] {
                cur.push(unary(k, t.clone()));
            }
        }
        if n >= 2 {
            for k in 0..BINARY_CTORS {
                for i in 0..=(n - 2) {
                    let j = n - 2 - i;
                    for a in &by[i] {
                        for b in &by[j] {
                            cur.push(binary(k, a.clone(), b.clone()));
                        }
                    }
                }
            }
        }
        by.push(cur);
    }
    by
}

/// Closed-form count of the type trees with exactly n edges: c(0)=|leaves|,
/// c(n) = 6·c(n−1) + 4·Σ_{i+j=n−2} c(i)·c(j).
pub fn count_by_size(max: usize) -> Vec<u64> {
    let mut c = vec![leaves().len() as u64];
    for n in 1..=max {
        let mut v = UNARY_CTORS as u64 * c[n - 1];
        if n >= 2 {
            for i in 0..=(n - 2) {
                v += BINARY_CTORS as u64 * c[i] * c[n - 2 - i];
            }
        }
        c.push(v);
    }
    c
}

impl Ty {
    pub fn edges(&self) -> usize {
        match self {
            Ty::Arr(t, _) | Ty::Opt(t) | Ty::Vec(t) => 1 + t.edges(),
            Ty::Enum(a, None) => 1 + a.edges(),
            Ty::Struct(fs) => fs.iter().map(|f| 1 + f.edges()).sum(),
            Ty::Tup(a, b) | Ty::Res(a, b) => 2 + a.edges() + b.edges(),
            Ty::Enum(a, Some(b)) => 2 + a.edges() + b.edges(),
            _ => 0,
        }
    }

    /// Compact canonical description (used in keys, samples, replays).
    pub fn show(&self) -> String {
        match self {
            Ty::U8 => "u8".into(),
            Ty::U16 => "u16".into(),
            Ty::U32 => "u32".into(),
            Ty::U64 => "u64".into(),
            Ty::U256 => "u256".into(),
            Ty::Bool => "bool".into(),
            Ty::B256 => "b256".into(),
            Ty::StrArr(n) => format!("str[{n}]"),
            Ty::Str => "str".into(),
            Ty::Bytes => "Bytes".into(),
            Ty::String => "String".into(),
            Ty::Arr(t, n) => format!("[{};{n}]", t.show()),
            Ty::Tup(a, b) => format!("({},{})", a.show(), b.show()),
            Ty::Struct(fs) => format!(
                "struct{{{}}}",
                fs.iter().map(|f| f.show()).collect::<Vec<_>>().join(",")
            ),
            Ty::Enum(a, None) => format!("enum{{{},()}}", a.show()),
            Ty::Enum(a, Some(b)) => format!("enum{{{},{}}}", a.show(), b.show()),
            Ty::Opt(t) => format!("Option<{}>", t.show()),
            Ty::Res(a, b) => format!("Result<{},{}>", a.show(), b.show()),
            Ty::Vec(t) => format!("Vec<{}>", t.show()),
        }
    }

    /// Constructor name of the root.
    pub fn ctor(&self) -> &'static str {
        match self {
            Ty::U8 => "u8",
            Ty::U16 => "u16",
            Ty::U32 => "u32",
            Ty::U64 => "u64",
            Ty::U256 => "u256",
            Ty::Bool => "bool",
            Ty::B256 => "b256",
            Ty::StrArr(_) => "str[N]",
            Ty::Str => "str",
            Ty::Bytes => "Bytes",
            Ty::String => "String",
            Ty::Arr(..) => "array",
            Ty::Tup(..) => "tuple",
            Ty::Struct(..) => "struct",
            Ty::Enum(..) => "enum",
            Ty::Opt(..) => "Option",
            Ty::Res(..) => "Result",
            Ty::Vec(..) => "Vec",
        }
    }

    /// Constructor skeleton: the tree with every leaf replaced by its class
    /// (`int` = u8..u256/b256, `bool`, `strN`, `dyn` = str/Bytes/String).
    pub fn skeleton(&self) -> String {
        match self {
            Ty::U8 | Ty::U16 | Ty::U32 | Ty::U64 | Ty::U256 | Ty::B256 => "int".into(),
            Ty::Bool => "bool".into(),
            Ty::StrArr(_) => "strN".into(),
            Ty::Str | Ty::Bytes | Ty::String => "dyn".into(),
            Ty::Arr(t, n) => format!("[{};{n}]", t.skeleton()),
            Ty::Tup(a, b) => format!("({},{})", a.skeleton(), b.skeleton()),
            Ty::Struct(fs) => format!(
                "struct{{{}}}",
                fs.iter().map(|f| f.skeleton()).collect::<Vec<_>>().join(",")
            ),
            Ty::Enum(a, None) => format!("enum{{{},()}}", a.skeleton()),
            Ty::Enum(a, Some(b)) => format!("enum{{{},{}}}", a.skeleton(), b.skeleton()),
            Ty::Opt(t) => format!("Option<{}>", t.skeleton()),
            Ty::Res(a, b) => format!("Result<{},{}>", a.skeleton(), b.skeleton()),
            Ty::Vec(t) => format!("Vec<{}>", t.skeleton()),
        }
    }
}

// ---------------------------------------------------------------------------------------------
// Values

#[derive(Clone, Debug, PartialEq, Eq, Hash, serde::Serialize, serde::Deserialize)]
pub enum Val {
    /// u8 / u16 / u32 / u64
    U(u64),
    /// u256 / b256, big endian
    Big([u8; 32]),
    Bool(bool),
    /// str[N]
    StrA(String),
    Str(String),
    Bytes(Vec<u8>),
    String(String),
    /// array / tuple / struct members in order
    Agg(Vec<Val>),
    /// enum / Option / Result: declaration index + payload (None = unit variant)
    Variant(u64, Option<Box<Val>>),
    Vec(Vec<Val>),
}

fn big(pattern: u8) -> [u8; 32] {
    let mut b = [0u8; 32];
    match pattern {
        0 => {}
        1 => {
            for (i, x) in b.iter_mut().enumerate() {
                *x = (i + 1) as u8;
            }
        }
        _ => b = [0xff; 32],
    }
    b
}

/// Boundary values of a leaf: zero / a byte-order-revealing pattern / all-ones for integers,
/// both booleans, two distinct texts for str[N], empty / one / three elements for dynamic leaves
/// (Vec<T>: empty, every one-element, two-element products and one three-element vector).
pub fn leaf_values(t: &Ty) -> Vec<Val> {
    match t {
        Ty::U8 => vec![Val::U(0), Val::U(0x12), Val::U(0xff)],
        Ty::U16 => vec![Val::U(0), Val::U(0x0102), Val::U(0xffff)],
        Ty::U32 => vec![Val::U(0), Val::U(0x0102_0304), Val::U(0xffff_ffff)],
        Ty::U64 => vec![Val::U(0), Val::U(0x0102_0304_0506_0708), Val::U(u64::MAX)],
        Ty::U256 | Ty::B256 => vec![Val::Big(big(0)), Val::Big(big(1)), Val::Big(big(2))],
        Ty::Bool => vec![Val::Bool(false), Val::Bool(true)],
        Ty::StrArr(n) => {
            let a: String = "abcdefgh".chars().take(*n as usize).collect();
            let z: String = "stuvwxyz".chars().rev().take(*n as usize).collect();
            vec![Val::StrA(a), Val::StrA(z)]
        }
        // three elements: a pushed-to buffer then has capacity 4 ≠ length 3
        Ty::Str => vec![Val::Str("".into()), Val::Str("a".into()), Val::Str("xyz".into())],
        Ty::Bytes => vec![
            Val::Bytes(vec![]),
            Val::Bytes(vec![1]),
            Val::Bytes(vec![0xfd, 0xfe, 0xff]),
        ],
        Ty::String => vec![
            Val::String("".into()),
            Val::String("b".into()),
            Val::String("uvw".into()),
        ],
        _ => unreachable!("not a leaf"),
    }
}

/// Product of value lists; the full cartesian product when it has at most `cap` elements,
/// otherwise the deterministic "each-choice" cover (row i takes element i mod len of every list,
/// for i < max len), which still uses every value of every member at least once.
fn product(lists: &[Vec<Val>], cap: usize) -> Vec<Vec<Val>> {
    let total: usize = lists.iter().map(|l| l.len()).product();
    if total <= cap {
        let mut out: Vec<Vec<Val>> = vec![vec![]];
        for l in lists {
            let mut next = vec![];
            for prefix in &out {
                for v in l {
                    let mut p = prefix.clone();
                    p.push(v.clone());
                    next.push(p);
                }
            }
            out = next;
        }
        out
    } else {
        let n = lists.iter().map(|l| l.len()).max().unwrap_or(0);
        (0..n)
            .map(|i| lists.iter().map(|l| l[i % l.len()].clone()).collect())
            .collect()
    }
}

/// All values of `t` built from the per-leaf boundary values. `cap` bounds every single product
/// (see `product`) and the number of values kept per *nested* type (the first `cap` in
/// enumeration order); the root list is not truncated.
pub fn values(t: &Ty, cap: usize) -> Vec<Val> {
    fn sub(t: &Ty, cap: usize) -> Vec<Val> {
        let mut v = values(t, cap);
        v.truncate(cap);
        v
    }
    match t {
        Ty::Arr(e, n) => {
            let ev = sub(e, cap);
            let lists: Vec<Vec<Val>> = (0..*n).map(|_| ev.clone()).collect();
            product(&lists, cap).into_iter().map(Val::Agg).collect()
        }
        Ty::Tup(a, b) => product(&[sub(a, cap), sub(b, cap)], cap)
            .into_iter()
            .map(Val::Agg)
            .collect(),
        Ty::Struct(fs) => {
            let lists: Vec<Vec<Val>> = fs.iter().map(|f| sub(f, cap)).collect();
            product(&lists, cap).into_iter().map(Val::Agg).collect()
        }
        Ty::Enum(a, b) => {
            let mut out: Vec<Val> = sub(a, cap)
                .into_iter()
                .map(|v| Val::Variant(0, Some(Box::new(v))))
                .collect();
            match b {
                None => out.push(Val::Variant(1, None)),
                Some(b) => out.extend(
                    sub(b, cap)
                        .into_iter()
                        .map(|v| Val::Variant(1, Some(Box::new(v)))),
                ),
            }
            out
        }
        Ty::Opt(a) => {
            let mut out = vec![Val::Variant(0, None)];
            out.extend(
                sub(a, cap)
                    .into_iter()
                    .map(|v| Val::Variant(1, Some(Box::new(v)))),
            );
            out
        }
        Ty::Res(a, b) => {
            let mut out: Vec<Val> = sub(a, cap)
                .into_iter()
                .map(|v| Val::Variant(0, Some(Box::new(v))))
                .collect();
            out.extend(
                sub(b, cap)
                    .into_iter()
                    .map(|v| Val::Variant(1, Some(Box::new(v)))),
            );
            out
        }
        Ty::Vec(e) => {
            // empty / every one-element vector / two-element vectors
            let ev = sub(e, cap);
            let mut out = vec![Val::Vec(vec![])];
            out.extend(ev.iter().map(|v| Val::Vec(vec![v.clone()])));
            out.extend(
                product(&[ev.clone(), ev.clone()], cap)
                    .into_iter()
                    .map(Val::Vec),
            );
            // one three-element vector (pushed one by one: capacity 4 ≠ length 3)
            out.push(Val::Vec((0..3).map(|i| ev[(i + 1) % ev.len()].clone()).collect()));
            out
        }
        leaf => leaf_values(leaf),
    }
}

impl Val {
    pub fn show(&self) -> String {
        match self {
            Val::U(x) => format!("{x:#x}"),
            Val::Big(b) => format!("0x{}", hex::encode(b)),
            Val::Bool(b) => b.to_string(),
            Val::StrA(s) | Val::Str(s) | Val::String(s) => format!("{s:?}"),
            Val::Bytes(b) => format!("bytes:{}", hex::encode(b)),
            Val::Agg(vs) => format!(
                "({})",
                vs.iter().map(|v| v.show()).collect::<Vec<_>>().join(",")
            ),
            Val::Variant(i, None) => format!("#{i}"),
            Val::Variant(i, Some(v)) => format!("#{i}({})", v.show()),
            Val::Vec(vs) => format!(
                "vec[{}]",
                vs.iter().map(|v| v.show()).collect::<Vec<_>>().join(",")
            ),
        }
    }
}

// ---------------------------------------------------------------------------------------------
// Sway printer

/// Named declarations (structs / enums) of one generated package; identical shapes share a
/// declaration.
#[derive(Default)]
pub struct Decls {
    names: BTreeMap<Ty, String>,
    pub text: String,
}

impl Decls {
    pub fn new() -> Decls {
        Decls::default()
    }

    /// Name of the struct/enum declared for `t` (declaring it, and its members, on first use).
    pub fn name_of(&mut self, t: &Ty) -> String {
        if let Some(n) = self.names.get(t) {
            return n.clone();
        }
        let name = match t {
            Ty::Struct(fs) => {
                let ftys: Vec<String> = fs.iter().map(|f| self.sway_type(f)).collect();
                let name = format!("S{}", self.names.len());
                let mut s = format!("struct {name} {{ ");
                for (i, f) in ftys.iter().enumerate() {
                    let _ = write!(s, "f{i}: {f}, ");
                }
                s.push_str("}\n");
                self.text.push_str(&s);
                name
            }
            Ty::Enum(a, b) => {
                let at = self.sway_type(a);
                let bt = match b {
                    Some(b) => self.sway_type(b),
                    None => "()".to_string(),
                };
                let name = format!("E{}", self.names.len());
                let _ = writeln!(self.text, "enum {name} {{ A: {at}, B: {bt}, }}");
                name
            }
            _ => unreachable!("only structs and enums are named"),
        };
        self.names.insert(t.clone(), name.clone());
        name
    }

    pub fn sway_type(&mut self, t: &Ty) -> String {
        match t {
            Ty::U8 => "u8".into(),
            Ty::U16 => "u16".into(),
            Ty::U32 => "u32".into(),
            Ty::U64 => "u64".into(),
            Ty::U256 => "u256".into(),
            Ty::Bool => "bool".into(),
            Ty::B256 => "b256".into(),
            Ty::StrArr(n) => format!("str[{n}]"),
            Ty::Str => "str".into(),
            Ty::Bytes => "Bytes".into(),
            Ty::String => "String".into(),
            Ty::Arr(e, n) => format!("[{}; {n}]", self.sway_type(e)),
            Ty::Tup(a, b) => format!("({}, {})", self.sway_type(a), self.sway_type(b)),
            Ty::Struct(_) | Ty::Enum(..) => self.name_of(t),
            Ty::Opt(a) => format!("Option<{}>", self.sway_type(a)),
            Ty::Res(a, b) => format!("Result<{}, {}>", self.sway_type(a), self.sway_type(b)),
            Ty::Vec(e) => format!("Vec<{}>", self.sway_type(e)),
        }
    }

    /// Sway expression of type `t` denoting `v`.
    pub fn sway_value(&mut self, t: &Ty, v: &Val) -> String {
        match (t, v) {
            (Ty::U8, Val::U(x)) => format!("{x}u8"),
            (Ty::U16, Val::U(x)) => format!("{x}u16"),
            (Ty::U32, Val::U(x)) => format!("{x}u32"),
            (Ty::U64, Val::U(x)) => format!("{x}u64"),
            (Ty::U256, Val::Big(b)) => format!("0x{}u256", hex::encode(b)),
            (Ty::B256, Val::Big(b)) => format!("0x{}", hex::encode(b)),
            (Ty::Bool, Val::Bool(b)) => b.to_string(),
            (Ty::StrArr(_), Val::StrA(s)) => format!("__to_str_array(\"{s}\")"),
            (Ty::Str, Val::Str(s)) => format!("\"{s}\""),
            (Ty::Bytes, Val::Bytes(bs)) => {
                let mut s = "{ let mut b = Bytes::new(); ".to_string();
                for b in bs {
                    let _ = write!(s, "b.push({b}u8); ");
                }
                s.push_str("b }");
                s
            }
            (Ty::String, Val::String(x)) => format!("String::from_ascii_str(\"{x}\")"),
            (Ty::Arr(e, _), Val::Agg(vs)) => format!(
                "[{}]",
                vs.iter()
                    .map(|x| self.sway_value(e, x))
                    .collect::<Vec<_>>()
                    .join(", ")
            ),
            (Ty::Tup(a, b), Val::Agg(vs)) => format!(
                "({}, {})",
                self.sway_value(a, &vs[0]),
                self.sway_value(b, &vs[1])
            ),
            (Ty::Struct(fs), Val::Agg(vs)) => {
                let name = self.name_of(t);
                let mut s = format!("{name} {{ ");
                for (i, (ft, fv)) in fs.iter().zip(vs).enumerate() {
                    let e = self.sway_value(ft, fv);
                    let _ = write!(s, "f{i}: {e}, ");
                }
                s.push('}');
                s
            }
            (Ty::Enum(a, b), Val::Variant(i, p)) => {
                let name = self.name_of(t);
                match (i, p, b) {
                    (0, Some(p), _) => format!("{name}::A({})", self.sway_value(a, p)),
                    (1, None, None) => format!("{name}::B"),
                    (1, Some(p), Some(b)) => format!("{name}::B({})", self.sway_value(b, p)),
                    _ => unreachable!("ill-typed enum value"),
                }
            }
            (Ty::Opt(a), Val::Variant(0, None)) => {
                format!("Option::None::<{}>", self.sway_type(a))
            }
            (Ty::Opt(a), Val::Variant(1, Some(p))) => {
                format!("Option::Some::<{}>({})", self.sway_type(a), self.sway_value(a, p))
            }
            (Ty::Res(a, b), Val::Variant(i, Some(p))) => {
                let (at, bt) = (self.sway_type(a), self.sway_type(b));
                if *i == 0 {
                    format!("Result::Ok::<{at}, {bt}>({})", self.sway_value(a, p))
                } else {
                    format!("Result::Err::<{at}, {bt}>({})", self.sway_value(b, p))
                }
            }
            (Ty::Vec(e), Val::Vec(vs)) => {
                let et = self.sway_type(e);
                let mut s = format!("{{ let mut v: Vec<{et}> = Vec::new(); ");
                for x in vs {
                    let xe = self.sway_value(e, x);
                    let _ = write!(s, "v.push({xe}); ");
                }
                s.push_str("v }");
                s
            }
            _ => unreachable!("ill-typed value {:?} : {}", v, t.show()),
        }
    }
}

/// `let <name>: raw_slice = …` statement(s) building a raw_slice over a literal byte list.
pub fn sway_raw_slice(name: &str, bytes: &[u8]) -> String {
    if bytes.is_empty() {
        return format!(
            "let {name}: raw_slice = raw_slice::from_parts::<u8>(asm() {{ hp: raw_ptr }}, 0);"
        );
    }
    let lits: Vec<String> = bytes.iter().map(|b| format!("{b}u8")).collect();
    format!(
        "let {name}_a: [u8; {n}] = [{l}]; let {name}: raw_slice = raw_slice::from_parts::<u8>(__addr_of({name}_a), {n});",
        n = bytes.len(),
        l = lits.join(", ")
    )
}

/// Helpers shared by the generated packages.
pub const PRELUDE: &str = r#"library;
use std::bytes::Bytes;
use std::string::String;
use std::codec::*;

#[inline(never)]
fn mem_bytes<T>(v: T) -> raw_slice {
    let size = __size_of::<T>();
    let ptr = asm(size: size, src: &v) {
        aloc size;
        mcp hp src size;
        hp: raw_ptr
    };
    raw_slice::from_parts::<u8>(ptr, size)
}

fn slow_encode<T>(v: T) -> raw_slice where T: AbiEncode {
    v.abi_encode(Buffer::new()).as_raw_slice()
}

fn slow_decode<T>(s: raw_slice) -> T where T: AbiDecode {
    let mut r = BufferReader::from_parts(s.ptr(), s.number_of_bytes());
    T::abi_decode(r)
}
"#;

// ---------------------------------------------------------------------------------------------
// JSON ABI → type description

#[derive(Clone, Debug, PartialEq, Eq)]
pub enum AbiTy {
    Unit,
    U8,
    U16,
    U32,
    U64,
    U256,
    B256,
    Bool,
    StrArr(u64),
    Str,
    RawSlice,
    /// `struct std::bytes::Bytes`
    Bytes,
    /// `struct std::string::String`
    StdString,
    /// `struct std::vec::Vec` with its element type
    Vec(Box<AbiTy>),
    Arr(Box<AbiTy>, u64),
    Tuple(Vec<AbiTy>),
    Struct { name: String, fields: Vec<(String, AbiTy)> },
    Enum { name: String, variants: Vec<(String, AbiTy)> },
}

pub struct Abi {
    concrete: BTreeMap<String, Value>,
    metadata: BTreeMap<u64, Value>,
    /// log id → concrete type id
    pub logged: BTreeMap<u64, String>,
}

impl Abi {
    pub fn parse(json: &str) -> Result<Abi, String> {
        let v: Value = serde_json::from_str(json).map_err(|e| format!("ABI JSON: {e}"))?;
        let mut concrete = BTreeMap::new();
        for c in v["concreteTypes"].as_array().ok_or("no concreteTypes")? {
            let id = c["concreteTypeId"].as_str().ok_or("concreteTypeId")?.to_string();
            concrete.insert(id, c.clone());
        }
        let mut metadata = BTreeMap::new();
        for m in v["metadataTypes"].as_array().cloned().unwrap_or_default() {
            let id = m["metadataTypeId"].as_u64().ok_or("metadataTypeId")?;
            metadata.insert(id, m.clone());
        }
        let mut logged = BTreeMap::new();
        for l in v["loggedTypes"].as_array().cloned().unwrap_or_default() {
            let id: u64 = l["logId"]
                .as_str()
                .ok_or("logId")?
                .parse()
                .map_err(|e| format!("logId: {e}"))?;
            logged.insert(id, l["concreteTypeId"].as_str().ok_or("concreteTypeId")?.to_string());
        }
        Ok(Abi {
            concrete,
            metadata,
            logged,
        })
    }

    pub fn logged_type(&self, log_id: u64) -> Result<AbiTy, String> {
        let c = self
            .logged
            .get(&log_id)
            .ok_or_else(|| format!("log id {log_id} is not in loggedTypes"))?;
        self.concrete_type(c)
    }

    pub fn concrete_type(&self, id: &str) -> Result<AbiTy, String> {
        let c = self
            .concrete
            .get(id)
            .ok_or_else(|| format!("concrete type {id} missing"))?;
        let ty_str = c["type"].as_str().ok_or("concrete type without `type`")?;
        let args: Vec<AbiTy> = c["typeArguments"]
            .as_array()
            .cloned()
            .unwrap_or_default()
            .iter()
            .map(|a| self.concrete_type(a.as_str().unwrap_or("")))
            .collect::<Result<_, _>>()?;
        match c["metadataTypeId"].as_u64() {
            Some(m) => self.metadata_type(m, &args, &BTreeMap::new()),
            None => {
                if !args.is_empty() {
                    return Err(format!("concrete `{ty_str}` has typeArguments but no metadata"));
                }
                Self::primitive(ty_str)
            }
        }
    }

    fn primitive(s: &str) -> Result<AbiTy, String> {
        Ok(match s {
            "()" => AbiTy::Unit,
            "u8" => AbiTy::U8,
            "u16" => AbiTy::U16,
            "u32" => AbiTy::U32,
            "u64" => AbiTy::U64,
            "u256" => AbiTy::U256,
            "b256" => AbiTy::B256,
            "bool" => AbiTy::Bool,
            "str" => AbiTy::Str,
            "raw untyped slice" => AbiTy::RawSlice,
            _ => {
                if let Some(n) = s.strip_prefix("str[").and_then(|r| r.strip_suffix(']')) {
                    AbiTy::StrArr(n.parse().map_err(|e| format!("{s}: {e}"))?)
                } else {
                    return Err(format!("unknown primitive ABI type `{s}`"));
                }
            }
        })
    }

    /// Resolve a component's type: `typeId` is a number (metadata type, possibly a generic
    /// parameter bound in `env`) or a string (concrete type id).
    fn component_type(&self, comp: &Value, env: &BTreeMap<u64, AbiTy>) -> Result<AbiTy, String> {
        let tid = &comp["typeId"];
        if let Some(s) = tid.as_str() {
            return self.concrete_type(s);
        }
        let m = tid.as_u64().ok_or("component typeId")?;
        if let Some(t) = env.get(&m) {
            return Ok(t.clone());
        }
        let args: Vec<AbiTy> = comp["typeArguments"]
            .as_array()
            .cloned()
            .unwrap_or_default()
            .iter()
            .map(|a| self.component_type(a, env))
            .collect::<Result<_, _>>()?;
        self.metadata_type(m, &args, env)
    }

    fn metadata_type(
        &self,
        id: u64,
        args: &[AbiTy],
        outer: &BTreeMap<u64, AbiTy>,
    ) -> Result<AbiTy, String> {
        let m = self
            .metadata
            .get(&id)
            .ok_or_else(|| format!("metadata type {id} missing"))?;
        let ty_str = m["type"].as_str().ok_or("metadata type without `type`")?;
        if m["components"].is_null() && m["typeParameters"].is_null() {
            if let Ok(p) = Self::primitive(ty_str) {
                return Ok(p);
            }
        }
        if ty_str.starts_with("generic ") {
            return outer
                .get(&id)
                .cloned()
                .ok_or_else(|| format!("unbound `{ty_str}`"));
        }
        let params: Vec<u64> = m["typeParameters"]
            .as_array()
            .cloned()
            .unwrap_or_default()
            .iter()
            .filter_map(|p| p.as_u64())
            .collect();
        if params.len() != args.len() {
            return Err(format!(
                "`{ty_str}`: {} type parameters but {} arguments",
                params.len(),
                args.len()
            ));
        }
        let mut env = BTreeMap::new();
        for (p, a) in params.iter().zip(args) {
            env.insert(*p, a.clone());
        }
        let comps = m["components"].as_array().cloned().unwrap_or_default();
        let members = |this: &Abi| -> Result<Vec<(String, AbiTy)>, String> {
            comps
                .iter()
                .map(|c| {
                    Ok((
                        c["name"].as_str().unwrap_or("").to_string(),
                        this.component_type(c, &env)?,
                    ))
                })
                .collect()
        };
        if ty_str == "struct std::vec::Vec" {
            if args.len() != 1 {
                return Err("Vec without exactly one type argument".into());
            }
            return Ok(AbiTy::Vec(Box::new(args[0].clone())));
        }
        if ty_str == "struct std::bytes::Bytes" {
            return Ok(AbiTy::Bytes);
        }
        if ty_str == "struct std::string::String" {
            return Ok(AbiTy::StdString);
        }
        if let Some(name) = ty_str.strip_prefix("struct ") {
            return Ok(AbiTy::Struct {
                name: name.to_string(),
                fields: members(self)?,
            });
        }
        if let Some(name) = ty_str.strip_prefix("enum ") {
            return Ok(AbiTy::Enum {
                name: name.to_string(),
                variants: members(self)?,
            });
        }
        if ty_str.starts_with('(') {
            return Ok(AbiTy::Tuple(
                members(self)?.into_iter().map(|(_, t)| t).collect(),
            ));
        }
        if ty_str.starts_with('[') {
            // "[_; N]"
            let n: u64 = ty_str
                .rsplit(';')
                .next()
                .and_then(|r| r.trim().strip_suffix(']'))
                .and_then(|r| r.trim().parse().ok())
                .ok_or_else(|| format!("array type string `{ty_str}`"))?;
            let ms = members(self)?;
            if ms.len() != 1 {
                return Err(format!("array `{ty_str}` with {} components", ms.len()));
            }
            return Ok(AbiTy::Arr(Box::new(ms[0].1.clone()), n));
        }
        Err(format!("unknown metadata ABI type `{ty_str}`"))
    }
}

/// Is the JSON ABI description `a` isomorphic to the generated type `t`? `decls` gives the
/// declared names of the generated structs / enums. Returns the first difference.
pub fn abi_iso(t: &Ty, a: &AbiTy, decls: &mut Decls) -> Result<(), String> {
    let bad = |what: &str| Err(format!("{} described as {:?} ({what})", t.show(), a));
    match (t, a) {
        (Ty::U8, AbiTy::U8)
        | (Ty::U16, AbiTy::U16)
        | (Ty::U32, AbiTy::U32)
        | (Ty::U64, AbiTy::U64)
        | (Ty::U256, AbiTy::U256)
        | (Ty::Bool, AbiTy::Bool)
        | (Ty::B256, AbiTy::B256)
        | (Ty::Str, AbiTy::Str)
        | (Ty::Bytes, AbiTy::Bytes)
        | (Ty::String, AbiTy::StdString) => Ok(()),
        (Ty::StrArr(n), AbiTy::StrArr(m)) if n == m => Ok(()),
        (Ty::Arr(e, n), AbiTy::Arr(ae, m)) if n == m => abi_iso(e, ae, decls),
        (Ty::Tup(x, y), AbiTy::Tuple(ms)) if ms.len() == 2 => {
            abi_iso(x, &ms[0], decls)?;
            abi_iso(y, &ms[1], decls)
        }
        (Ty::Struct(fs), AbiTy::Struct { name, fields }) => {
            let want = decls.name_of(t);
            if *name != want || fields.len() != fs.len() {
                return bad("struct name / field count");
            }
            for (i, (f, (fname, ft))) in fs.iter().zip(fields).enumerate() {
                if *fname != format!("f{i}") {
                    return bad("field name");
                }
                abi_iso(f, ft, decls)?;
            }
            Ok(())
        }
        (Ty::Enum(x, y), AbiTy::Enum { name, variants }) => {
            let want = decls.name_of(t);
            if *name != want || variants.len() != 2 || variants[0].0 != "A" || variants[1].0 != "B" {
                return bad("enum name / variants");
            }
            abi_iso(x, &variants[0].1, decls)?;
            match y {
                None if variants[1].1 == AbiTy::Unit => Ok(()),
                None => bad("unit variant"),
                Some(y) => abi_iso(y, &variants[1].1, decls),
            }
        }
        (Ty::Opt(x), AbiTy::Enum { name, variants }) => {
            if name != "std::option::Option"
                || variants.len() != 2
                || variants[0].0 != "None"
                || variants[0].1 != AbiTy::Unit
                || variants[1].0 != "Some"
            {
                return bad("Option shape");
            }
            abi_iso(x, &variants[1].1, decls)
        }
        (Ty::Res(x, y), AbiTy::Enum { name, variants }) => {
            if name != "std::result::Result"
                || variants.len() != 2
                || variants[0].0 != "Ok"
                || variants[1].0 != "Err"
            {
                return bad("Result shape");
            }
            abi_iso(x, &variants[0].1, decls)?;
            abi_iso(y, &variants[1].1, decls)
        }
        (Ty::Vec(e), AbiTy::Vec(ae)) => abi_iso(e, ae, decls),
        _ => bad("constructor"),
    }
}

// ---------------------------------------------------------------------------------------------
// Reference encoder / decoder, driven by the ABI description

/// A byte position of the canonical encoding at which an invalid pattern can be planted.
#[derive(Clone, Debug, PartialEq, Eq, serde::Serialize, serde::Deserialize)]
pub struct Spot {
    pub offset: usize,
    /// 1 for a bool byte, 8 for an enum discriminant
    pub len: usize,
    /// number of variants (enum discriminant) — 0 for a bool
    pub variants: u64,
    /// structural path from the root, e.g. `.f0/Some/[1]`
    pub path: String,
    /// description of the enclosing constructor, e.g. `Vec`, `struct`, `root`
    pub parent: String,
    /// `bool`, `enum.tag`, `Option.tag`, `Result.tag`
    pub what: String,
}

/// Owner of every byte of an encoding (for classifying the first differing byte).
#[derive(Clone, Debug)]
pub struct Owner {
    pub start: usize,
    pub end: usize,
    /// what the bytes are: leaf type name, `Vec.len`, `enum.tag`, `str.len` …
    pub what: String,
    /// enclosing constructor
    pub parent: String,
}

#[derive(Default)]
pub struct Encoded {
    pub bytes: Vec<u8>,
    pub spots: Vec<Spot>,
    pub owners: Vec<Owner>,
}

impl Encoded {
    fn own(&mut self, start: usize, what: &str, parent: &str) {
        self.owners.push(Owner {
            start,
            end: self.bytes.len(),
            what: what.to_string(),
            parent: parent.to_string(),
        });
    }

    pub fn owner_at(&self, off: usize) -> String {
        for o in &self.owners {
            if off >= o.start && off < o.end {
                let what = match o.what.as_str() {
                    "u8" | "u16" | "u32" => "sub-word int",
                    "u256" | "b256" => "32-byte word",
                    "enum.tag" | "Option.tag" | "Result.tag" => "discriminant",
                    "str.len" | "String.len" | "Bytes.len" | "raw_slice.len" => "dyn.len",
                    "str.data" | "String.data" | "Bytes.data" | "raw_slice.data" => "dyn.data",
                    x => x,
                };
                return format!("{what} in {}", parent_class(&o.parent));
            }
        }
        "past-the-end".to_string()
    }
}

/// Coarse class of an enclosing constructor (used in class keys).
pub fn parent_class(p: &str) -> &'static str {
    match p {
        "root" => "root",
        "Vec" => "Vec",
        "enum" | "Option" | "Result" => "enum-like",
        _ => "aggregate",
    }
}

pub fn encode(t: &AbiTy, v: &Val) -> Result<Encoded, String> {
    let mut e = Encoded::default();
    enc(t, v, &mut e, "", "root")?;
    Ok(e)
}

fn uint(e: &mut Encoded, x: u64, n: usize, what: &str, parent: &str) -> Result<(), String> {
    if n < 8 && x >> (8 * n) != 0 {
        return Err(format!("value {x} does not fit {what}"));
    }
    let s = e.bytes.len();
    e.bytes.extend_from_slice(&x.to_be_bytes()[8 - n..]);
    e.own(s, what, parent);
    Ok(())
}

fn len_prefixed(e: &mut Encoded, payload: &[u8], what: &str, parent: &str) {
    let s = e.bytes.len();
    e.bytes.extend_from_slice(&(payload.len() as u64).to_be_bytes());
    e.own(s, &format!("{what}.len"), parent);
    let s = e.bytes.len();
    e.bytes.extend_from_slice(payload);
    e.own(s, &format!("{what}.data"), parent);
}

fn enc(t: &AbiTy, v: &Val, e: &mut Encoded, path: &str, parent: &str) -> Result<(), String> {
    let ill = || Err(format!("value {} does not match ABI type {:?}", v.show(), t));
    match (t, v) {
        (AbiTy::U8, Val::U(x)) => uint(e, *x, 1, "u8", parent),
        (AbiTy::U16, Val::U(x)) => uint(e, *x, 2, "u16", parent),
        (AbiTy::U32, Val::U(x)) => uint(e, *x, 4, "u32", parent),
        (AbiTy::U64, Val::U(x)) => uint(e, *x, 8, "u64", parent),
        (AbiTy::U256, Val::Big(b)) | (AbiTy::B256, Val::Big(b)) => {
            let s = e.bytes.len();
            e.bytes.extend_from_slice(b);
            e.own(s, if *t == AbiTy::U256 { "u256" } else { "b256" }, parent);
            Ok(())
        }
        (AbiTy::Bool, Val::Bool(b)) => {
            e.spots.push(Spot {
                offset: e.bytes.len(),
                len: 1,
                variants: 0,
                path: path.to_string(),
                parent: parent.to_string(),
                what: "bool".to_string(),
            });
            let s = e.bytes.len();
            e.bytes.push(*b as u8);
            e.own(s, "bool", parent);
            Ok(())
        }
        (AbiTy::StrArr(n), Val::StrA(s)) => {
            if s.len() as u64 != *n {
                return ill();
            }
            let st = e.bytes.len();
            e.bytes.extend_from_slice(s.as_bytes());
            e.own(st, "str[N]", parent);
            Ok(())
        }
        (AbiTy::Str, Val::Str(s)) => {
            len_prefixed(e, s.as_bytes(), "str", parent);
            Ok(())
        }
        (AbiTy::StdString, Val::String(s)) => {
            len_prefixed(e, s.as_bytes(), "String", parent);
            Ok(())
        }
        (AbiTy::Bytes, Val::Bytes(b)) | (AbiTy::RawSlice, Val::Bytes(b)) => {
            len_prefixed(e, b, if *t == AbiTy::Bytes { "Bytes" } else { "raw_slice" }, parent);
            Ok(())
        }
        (AbiTy::Vec(et), Val::Vec(vs)) => {
            let s = e.bytes.len();
            e.bytes.extend_from_slice(&(vs.len() as u64).to_be_bytes());
            e.own(s, "Vec.len", parent);
            for (i, x) in vs.iter().enumerate() {
                enc(et, x, e, &format!("{path}/[{i}]"), "Vec")?;
            }
            Ok(())
        }
        (AbiTy::Arr(et, n), Val::Agg(vs)) => {
            if vs.len() as u64 != *n {
                return ill();
            }
            for (i, x) in vs.iter().enumerate() {
                enc(et, x, e, &format!("{path}/[{i}]"), "array")?;
            }
            Ok(())
        }
        (AbiTy::Tuple(ts), Val::Agg(vs)) => {
            if vs.len() != ts.len() {
                return ill();
            }
            for (i, (mt, x)) in ts.iter().zip(vs).enumerate() {
                enc(mt, x, e, &format!("{path}/.{i}"), "tuple")?;
            }
            Ok(())
        }
        (AbiTy::Struct { fields, .. }, Val::Agg(vs)) => {
            if vs.len() != fields.len() {
                return ill();
            }
            for ((fname, ft), x) in fields.iter().zip(vs) {
                enc(ft, x, e, &format!("{path}/.{fname}"), "struct")?;
            }
            Ok(())
        }
        (AbiTy::Enum { name, variants }, Val::Variant(i, p)) => {
            let Some((vname, vt)) = variants.get(*i as usize) else {
                return ill();
            };
            let kind = if name.starts_with("std::option::") {
                "Option"
            } else if name.starts_with("std::result::") {
                "Result"
            } else {
                "enum"
            };
            e.spots.push(Spot {
                offset: e.bytes.len(),
                len: 8,
                variants: variants.len() as u64,
                path: path.to_string(),
                parent: parent.to_string(),
                what: format!("{kind}.tag"),
            });
            let s = e.bytes.len();
            e.bytes.extend_from_slice(&i.to_be_bytes());
            e.own(s, &format!("{kind}.tag"), parent);
            match (p, vt) {
                (None, AbiTy::Unit) => Ok(()),
                (Some(p), vt) if *vt != AbiTy::Unit => {
                    enc(vt, p, e, &format!("{path}/{vname}"), kind)
                }
                _ => ill(),
            }
        }
        _ => ill(),
    }
}

/// Reference decoder: the unique value whose canonical encoding is a prefix of `bytes`;
/// returns the value and the number of bytes consumed. Errors on malformed input (bool byte
/// other than 0/1, unknown discriminant, truncation, non-UTF-8 text).
pub fn decode(t: &AbiTy, bytes: &[u8]) -> Result<(Val, usize), String> {
    let mut pos = 0usize;
    let v = dec(t, bytes, &mut pos)?;
    Ok((v, pos))
}

fn take<'a>(b: &'a [u8], pos: &mut usize, n: usize) -> Result<&'a [u8], String> {
    if b.len() < *pos + n {
        return Err(format!("truncated: need {n} bytes at {}", *pos));
    }
    let s = &b[*pos..*pos + n];
    *pos += n;
    Ok(s)
}

fn take_u64(b: &[u8], pos: &mut usize) -> Result<u64, String> {
    let s = take(b, pos, 8)?;
    Ok(u64::from_be_bytes(s.try_into().unwrap()))
}

fn text(s: &[u8]) -> Result<String, String> {
    String::from_utf8(s.to_vec()).map_err(|_| "non-UTF-8 text".to_string())
}

fn dec(t: &AbiTy, b: &[u8], pos: &mut usize) -> Result<Val, String> {
    Ok(match t {
        AbiTy::Unit => return Err("unit has no value form".into()),
        AbiTy::U8 => Val::U(take(b, pos, 1)?[0] as u64),
        AbiTy::U16 => Val::U(u16::from_be_bytes(take(b, pos, 2)?.try_into().unwrap()) as u64),
        AbiTy::U32 => Val::U(u32::from_be_bytes(take(b, pos, 4)?.try_into().unwrap()) as u64),
        AbiTy::U64 => Val::U(take_u64(b, pos)?),
        AbiTy::U256 | AbiTy::B256 => Val::Big(take(b, pos, 32)?.try_into().unwrap()),
        AbiTy::Bool => match take(b, pos, 1)?[0] {
            0 => Val::Bool(false),
            1 => Val::Bool(true),
            x => return Err(format!("invalid bool byte {x}")),
        },
        AbiTy::StrArr(n) => Val::StrA(text(take(b, pos, *n as usize)?)?),
        AbiTy::Str => {
            let n = take_u64(b, pos)? as usize;
            Val::Str(text(take(b, pos, n)?)?)
        }
        AbiTy::StdString => {
            let n = take_u64(b, pos)? as usize;
            Val::String(text(take(b, pos, n)?)?)
        }
        AbiTy::Bytes | AbiTy::RawSlice => {
            let n = take_u64(b, pos)? as usize;
            Val::Bytes(take(b, pos, n)?.to_vec())
        }
        AbiTy::Vec(et) => {
            let n = take_u64(b, pos)?;
            if n as usize > b.len() {
                return Err(format!("implausible Vec length {n}"));
            }
            let mut vs = vec![];
            for _ in 0..n {
                vs.push(dec(et, b, pos)?);
            }
            Val::Vec(vs)
        }
        AbiTy::Arr(et, n) => {
            let mut vs = vec![];
            for _ in 0..*n {
                vs.push(dec(et, b, pos)?);
            }
            Val::Agg(vs)
        }
        AbiTy::Tuple(ts) => {
            let mut vs = vec![];
            for mt in ts {
                vs.push(dec(mt, b, pos)?);
            }
            Val::Agg(vs)
        }
        AbiTy::Struct { fields, .. } => {
            let mut vs = vec![];
            for (_, ft) in fields {
                vs.push(dec(ft, b, pos)?);
            }
            Val::Agg(vs)
        }
        AbiTy::Enum { variants, .. } => {
            let tag = take_u64(b, pos)?;
            let Some((_, vt)) = variants.get(tag as usize) else {
                return Err(format!("unknown discriminant {tag}"));
            };
            if *vt == AbiTy::Unit {
                Val::Variant(tag, None)
            } else {
                Val::Variant(tag, Some(Box::new(dec(vt, b, pos)?)))
            }
        }
    })
}

/// The ABI description one expects for a generated type (used only by the oracle's own
/// self-test and when the build produced no ABI, never instead of the build's ABI).
pub fn expected_abi(t: &Ty, decls: &mut Decls) -> AbiTy {
    match t {
        Ty::U8 => AbiTy::U8,
        Ty::U16 => AbiTy::U16,
        Ty::U32 => AbiTy::U32,
        Ty::U64 => AbiTy::U64,
        Ty::U256 => AbiTy::U256,
        Ty::Bool => AbiTy::Bool,
        Ty::B256 => AbiTy::B256,
        Ty::StrArr(n) => AbiTy::StrArr(*n),
        Ty::Str => AbiTy::Str,
        Ty::Bytes => AbiTy::Bytes,
        Ty::String => AbiTy::StdString,
        Ty::Arr(e, n) => AbiTy::Arr(Box::new(expected_abi(e, decls)), *n),
        Ty::Tup(a, b) => AbiTy::Tuple(vec![expected_abi(a, decls), expected_abi(b, decls)]),
        Ty::Struct(fs) => AbiTy::Struct {
            name: decls.name_of(t),
            fields: fs
                .iter()
                .enumerate()
                .map(|(i, f)| (format!("f{i}"), expected_abi(f, decls)))
                .collect(),
        },
        Ty::Enum(a, b) => AbiTy::Enum {
            name: decls.name_of(t),
            variants: vec![
                ("A".into(), expected_abi(a, decls)),
                (
                    "B".into(),
                    match b {
                        Some(b) => expected_abi(b, decls),
                        None => AbiTy::Unit,
                    },
                ),
            ],
        },
        Ty::Opt(a) => AbiTy::Enum {
            name: "std::option::Option".into(),
            variants: vec![("None".into(), AbiTy::Unit), ("Some".into(), expected_abi(a, decls))],
        },
        Ty::Res(a, b) => AbiTy::Enum {
            name: "std::result::Result".into(),
            variants: vec![
                ("Ok".into(), expected_abi(a, decls)),
                ("Err".into(), expected_abi(b, decls)),
            ],
        },
        Ty::Vec(e) => AbiTy::Vec(Box::new(expected_abi(e, decls))),
    }
}

/// `u64 length ++ bytes`: what `log(<raw_slice>)` carries.
pub fn with_len(bytes: &[u8]) -> Vec<u8> {
    let mut v = (bytes.len() as u64).to_be_bytes().to_vec();
    v.extend_from_slice(bytes);
    v
}

/// Rough number of data-section words a case contributes (literal byte arrays and wide
/// constants), used to keep packages under the compiler's data-section limit.
pub fn data_words(enc_len: usize) -> usize {
    2 * enc_len.div_ceil(8) + 4
}

// ---------------------------------------------------------------------------------------------
// Cases, rendering, judging

use crate::engine::Outcome;
use crate::pool::Pool;
use crate::worker::{BuildOut, BuildSpec, Request};

#[derive(Clone, Debug, serde::Serialize, serde::Deserialize)]
pub enum Kind {
    /// C09: `log(v)`, `log(encode(v))`, `log(abi_decode::<T>(canonical bytes))`.
    RoundTrip,
    /// C10: `is_encode_trivial`, `is_decode_trivial`, `encode(v)`, slow-path encode, raw memory
    /// bytes, `abi_decode::<T>(canonical)`, slow-path decode.
    Trivial,
    /// C10: decode the canonical bytes with an invalid bool byte / discriminant planted at
    /// `spot` — must revert. `slow` = `T::abi_decode(reader)` instead of `abi_decode::<T>`.
    Invalid {
        bytes: Vec<u8>,
        spot: Spot,
        planted: u64,
        slow: bool,
    },
}

#[derive(Clone, Debug, serde::Serialize, serde::Deserialize)]
pub struct Case {
    pub ty: Ty,
    pub val: Val,
    pub kind: Kind,
    /// canonical encoding according to the generator's own idea of the ABI (what is planted as
    /// decoder input); the judge recomputes it from the build's JSON ABI.
    pub canonical: Vec<u8>,
}

impl Case {
    pub fn new(ty: &Ty, val: &Val, kind: Kind) -> Case {
        let mut d = Decls::new();
        let abi = expected_abi(ty, &mut d);
        let canonical = encode(&abi, val)
            .unwrap_or_else(|e| vhcore::machinery_failure(&format!("generator: {e}")))
            .bytes;
        Case {
            ty: ty.clone(),
            val: val.clone(),
            kind,
            canonical,
        }
    }

    pub fn desc(&self) -> String {
        let k = match &self.kind {
            Kind::RoundTrip => "roundtrip".to_string(),
            Kind::Trivial => "trivial".to_string(),
            Kind::Invalid {
                spot, planted, slow, ..
            } => format!(
                "invalid {}={planted:#x} at byte {} ({}){}",
                if spot.len == 1 { "bool" } else { "tag" },
                spot.offset,
                spot.path,
                if *slow { " slow-path" } else { "" }
            ),
        };
        format!("{} = {} [{k}]", self.ty.show(), self.val.show())
    }

    /// The `#[test]` entry of this case.
    pub fn render(&self, name: &str, d: &mut Decls) -> String {
        let t = d.sway_type(&self.ty);
        let mut s = format!("#[test]\nfn {name}() {{\n");
        match &self.kind {
            Kind::RoundTrip => {
                let v = d.sway_value(&self.ty, &self.val);
                let _ = writeln!(s, "    let v: {t} = {v};");
                s.push_str("    log(v);\n    log(encode(v));\n");
                let _ = writeln!(s, "    {}", sway_raw_slice("c", &self.canonical));
                let _ = writeln!(s, "    let d: {t} = abi_decode::<{t}>(c);");
                s.push_str("    log(d);\n");
            }
            Kind::Trivial => {
                let v = d.sway_value(&self.ty, &self.val);
                let _ = writeln!(s, "    let v: {t} = {v};");
                let _ = writeln!(s, "    log(is_encode_trivial::<{t}>());");
                let _ = writeln!(s, "    log(is_decode_trivial::<{t}>());");
                s.push_str("    log(encode(v));\n    log(slow_encode(v));\n    log(mem_bytes(v));\n");
                let _ = writeln!(s, "    {}", sway_raw_slice("c", &self.canonical));
                let _ = writeln!(s, "    let d: {t} = abi_decode::<{t}>(c);");
                s.push_str("    log(d);\n");
                let _ = writeln!(s, "    let e: {t} = slow_decode::<{t}>(c);");
                s.push_str("    log(e);\n");
            }
            Kind::Invalid { bytes, slow, .. } => {
                let _ = writeln!(s, "    {}", sway_raw_slice("c", bytes));
                let f = if *slow { "slow_decode" } else { "abi_decode" };
                let _ = writeln!(s, "    let d: {t} = {f}::<{t}>(c);");
                s.push_str("    log(d);\n");
            }
        }
        s.push_str("}\n");
        s
    }

    pub fn words(&self) -> usize {
        data_words(self.canonical.len())
            * match self.kind {
                Kind::Invalid { .. } => 1,
                _ => 2,
            }
    }
}

/// Source text of one package holding `cases` (test names `t0`, `t1`, …).
pub fn package_source(cases: &[&Case]) -> (String, Decls) {
    let mut d = Decls::new();
    let mut body = String::new();
    for (i, c) in cases.iter().enumerate() {
        body.push_str(&c.render(&format!("t{i}"), &mut d));
    }
    (format!("{PRELUDE}\n{}\n{body}", d.text), d)
}

#[derive(Clone, Debug)]
pub struct Fail {
    /// failure shape + narrow input predicate
    pub key: String,
    pub what: String,
}

fn first_diff(a: &[u8], b: &[u8]) -> usize {
    a.iter()
        .zip(b.iter())
        .position(|(x, y)| x != y)
        .unwrap_or(a.len().min(b.len()))
}

fn hexs(b: &[u8]) -> String {
    hex::encode(b)
}

pub struct Judged {
    pub fails: Vec<Fail>,
    /// (is_encode_trivial, is_decode_trivial) when the case observed them
    pub flags: Option<(bool, bool)>,
    /// revert code when the case reverted
    pub revert: Option<u64>,
}

/// Compare the observed outcome of one case with the reference, driven by the build's ABI.
pub fn judge(case: &Case, abi: &Abi, decls: &mut Decls, out: Option<&Outcome>) -> Judged {
    let mut j = Judged {
        fails: vec![],
        flags: None,
        revert: None,
    };
    let Some(out) = out else {
        j.fails.push(Fail {
            key: "test-entry-missing".into(),
            what: "test entry missing from the results".into(),
        });
        return j;
    };
    let (logs, revert) = match out {
        Outcome::Ok { logs } => (logs, None),
        Outcome::Revert { code, logs } => (logs, Some(*code)),
    };
    j.revert = revert;

    if let Kind::Invalid { spot, planted, slow, .. } = &case.kind {
        if revert.is_none() {
            let what_kind = if spot.len == 1 { "bool" } else { "discriminant" };
            let shown = logs
                .first()
                .map(|l| format!("produced a value that encodes as {}", hexs(&l.data)))
                .unwrap_or_else(|| "returned normally".into());
            j.fails.push(Fail {
                key: format!(
                    "invalid-{}-accepted|{}|in={}",
                    spot.what,
                    if *slow { "T::abi_decode" } else { "abi_decode" },
                    if spot.parent == "Vec" { "Vec" } else { "non-Vec" }
                ),
                what: format!(
                    "decoding {} as {} with {what_kind} {planted:#x} at byte {} ({}) did not revert: {shown}",
                    hexs(match &case.kind {
                        Kind::Invalid { bytes, .. } => bytes,
                        _ => unreachable!(),
                    }),
                    case.ty.show(),
                    spot.offset,
                    spot.path
                ),
            });
        }
        return j;
    }

    // valid cases must not revert
    if let Some(code) = revert {
        j.fails.push(Fail {
            key: format!("unexpected-revert:{code:#x}|after-{}-logs|root={}", logs.len(), case.ty.ctor()),
            what: format!(
                "reverted with {code:#x} after {} logs on a valid value",
                logs.len()
            ),
        });
        return j;
    }

    // which log positions carry what
    let (value_logs, slice_logs, flag_logs): (Vec<usize>, Vec<(usize, &str)>, Vec<usize>) =
        match case.kind {
            Kind::RoundTrip => (vec![0, 2], vec![(1, "encode(v)")], vec![]),
            Kind::Trivial => (
                vec![5, 6],
                vec![(2, "encode(v)"), (3, "v.abi_encode(Buffer::new())"), (4, "memory bytes")],
                vec![0, 1],
            ),
            Kind::Invalid { .. } => unreachable!(),
        };
    let want_logs = value_logs.len() + slice_logs.len() + flag_logs.len();
    if logs.len() != want_logs {
        j.fails.push(Fail {
            key: format!("wrong-log-count:{}-of-{want_logs}|root={}", logs.len(), case.ty.ctor()),
            what: format!("{} logs instead of {want_logs}", logs.len()),
        });
        return j;
    }

    // ABI-driven reference encoding: the type description comes from the build's JSON ABI
    let abi_ty = match abi.logged_type(logs[value_logs[0]].id) {
        Ok(t) => t,
        Err(e) => {
            j.fails.push(Fail {
                key: format!("abi-logged-type-unresolvable|{}", case.ty.ctor()),
                what: format!("JSON ABI: {e}"),
            });
            return j;
        }
    };
    if let Err(e) = abi_iso(&case.ty, &abi_ty, decls) {
        j.fails.push(Fail {
            key: format!("abi-type-description-differs|{}", case.ty.ctor()),
            what: format!("JSON ABI describes the logged type differently: {e}"),
        });
        return j;
    }
    let reference = match encode(&abi_ty, &case.val) {
        Ok(e) => e,
        Err(e) => {
            j.fails.push(Fail {
                key: format!("abi-type-description-differs|{}", case.ty.ctor()),
                what: format!("value cannot be encoded by the ABI's description: {e}"),
            });
            return j;
        }
    };
    if reference.bytes != case.canonical {
        j.fails.push(Fail {
            key: format!("abi-type-description-differs|{}", case.ty.ctor()),
            what: "ABI-driven encoding differs from the generator's encoding".into(),
        });
        return j;
    }
    let enc = &reference.bytes;

    if !flag_logs.is_empty() {
        let f = |i: usize| -> Option<bool> {
            match logs[i].data.as_slice() {
                [0] => Some(false),
                [1] => Some(true),
                _ => None,
            }
        };
        match (f(0), f(1)) {
            (Some(a), Some(b)) => j.flags = Some((a, b)),
            _ => {
                j.fails.push(Fail {
                    key: "flag-log-not-a-bool".into(),
                    what: format!(
                        "is_*_trivial logged {} / {}",
                        hexs(&logs[0].data),
                        hexs(&logs[1].data)
                    ),
                });
                return j;
            }
        }
    }

    for (n, &i) in value_logs.iter().enumerate() {
        let what = match (&case.kind, n) {
            (Kind::RoundTrip, 0) => "log(v)",
            (Kind::RoundTrip, _) => "log(abi_decode::<T>(canonical))",
            (_, 0) => "log(abi_decode::<T>(canonical))",
            _ => "log(T::abi_decode(reader))",
        };
        if logs[i].id != logs[value_logs[0]].id {
            j.fails.push(Fail {
                key: format!("log-id-differs|{}", case.ty.ctor()),
                what: format!("{what}: log id {} differs from {}", logs[i].id, logs[value_logs[0]].id),
            });
        }
        if logs[i].data != *enc {
            let off = first_diff(&logs[i].data, enc);
            let decoded = decode(&abi_ty, &logs[i].data)
                .map(|(v, _)| v.show())
                .unwrap_or_else(|e| format!("<undecodable: {e}>"));
            j.fails.push(Fail {
                key: format!(
                    "{}-differs|at={}|flags={}",
                    what.replace(' ', ""),
                    reference.owner_at(off),
                    flags_str(j.flags)
                ),
                what: format!(
                    "{what} = {} (decodes to {decoded}), canonical = {} (first difference at byte {off})",
                    hexs(&logs[i].data),
                    hexs(enc)
                ),
            });
        }
    }
    for (i, what) in slice_logs {
        // raw_slice payload = u64 length ++ bytes
        match abi.logged_type(logs[i].id) {
            Ok(AbiTy::RawSlice) => {}
            other => j.fails.push(Fail {
                key: "abi-raw-slice-description-differs".into(),
                what: format!("{what}: raw_slice log is described as {other:?}"),
            }),
        }
        let is_mem = what == "memory bytes";
        if is_mem && j.flags == Some((false, false)) {
            continue; // memory layout is unconstrained when neither classification holds
        }
        let want = with_len(enc);
        if logs[i].data != want {
            let off = first_diff(&logs[i].data, &want);
            let owner = if off < 8 {
                "length-prefix".to_string()
            } else {
                reference.owner_at(off - 8)
            };
            j.fails.push(Fail {
                key: format!(
                    "{}-differs|at={owner}|flags={}",
                    if is_mem {
                        "memory-of-trivial-type".to_string()
                    } else {
                        what.replace(' ', "")
                    },
                    flags_str(j.flags)
                ),
                what: format!(
                    "{what} = {} but canonical (with length) = {} (first difference at byte {off}; is_encode_trivial/is_decode_trivial = {})",
                    hexs(&logs[i].data),
                    hexs(&want),
                    flags_str(j.flags)
                ),
            });
        }
    }
    j
}

fn flags_str(f: Option<(bool, bool)>) -> String {
    match f {
        None => "-".into(),
        Some((a, b)) => format!("{}{}", if a { "E" } else { "e" }, if b { "D" } else { "d" }),
    }
}

// ---------------------------------------------------------------------------------------------
// Runner: batches → worker pool → judged cases (with bisection of failing builds)

pub struct RunCfg {
    /// package-name prefix, e.g. `c09`
    pub prefix: String,
    pub release: bool,
    pub max_cases: usize,
    pub max_words: usize,
}

pub struct CaseReport {
    pub judged: Judged,
    pub outcome: Option<Outcome>,
}

pub struct RunReport {
    /// one entry per input case, same order
    pub cases: Vec<CaseReport>,
    pub packages: usize,
    pub rebuilt_packages: usize,
    pub compile_millis: u64,
    pub self_check: String,
}

fn spec(label: &str, release: bool, mode_a: bool) -> BuildSpec {
    BuildSpec {
        label: label.to_string(),
        release,
        run_tests: true,
        want_artifacts: true,
        mode_a,
        ..Default::default()
    }
}

fn build_failure(b: &BuildOut) -> Option<(String, String)> {
    if let Some(p) = &b.panic {
        return Some((format!("compiler-panic@{}", b.panic_loc), p.clone()));
    }
    if !b.ok {
        let first = b.error.lines().next().unwrap_or("").to_string();
        return Some(("build-error".to_string(), vhcore::truncate(&first, 300)));
    }
    if !b.run_error.is_empty() {
        return Some(("test-run-error".to_string(), vhcore::truncate(&b.run_error, 300)));
    }
    None
}

/// Split `cases` (kept grouped: consecutive cases of one type stay together) into batches.
pub fn batches(cases: &[Case], cfg: &RunCfg) -> Vec<Vec<usize>> {
    let mut out = vec![];
    let mut cur: Vec<usize> = vec![];
    let mut words = 0usize;
    let mut i = 0;
    while i < cases.len() {
        let mut jx = i;
        let mut w = 0;
        while jx < cases.len() && cases[jx].ty == cases[i].ty {
            w += cases[jx].words();
            jx += 1;
        }
        if !cur.is_empty() && (cur.len() + (jx - i) > cfg.max_cases || words + w > cfg.max_words) {
            out.push(std::mem::take(&mut cur));
            words = 0;
        }
        cur.extend(i..jx);
        words += w;
        i = jx;
    }
    if !cur.is_empty() {
        out.push(cur);
    }
    out
}

/// Binding self-check: the first cases (one package) built and run in Mode F and in Mode A must
/// give identical bytecode, JSON ABI, storage slots and test outcomes.
pub fn mode_f_equals_mode_a(pool: &Pool, cases: &[Case], cfg: &RunCfg) -> String {
    let n = cases.len().min(40);
    let cs: Vec<&Case> = cases[..n].iter().collect();
    let (src, _) = package_source(&cs);
    let req = Request {
        id: 0,
        name: format!("{}_selfcheck", cfg.prefix),
        src,
        extra_files: vec![],
        with_std: true,
        builds: vec![spec("F", cfg.release, false), spec("A", cfg.release, true)],
        existing_dir: None,
    };
    let res = pool.run(std::slice::from_ref(&req));
    let r = match &res[0] {
        Ok(r) => r,
        Err(e) => vhcore::machinery_failure(&format!("self-check: worker failed: {e}")),
    };
    if r.builds.len() != 2 {
        vhcore::machinery_failure("self-check: missing build output");
    }
    let (f, a) = (&r.builds[0], &r.builds[1]);
    if !a.ok || !f.ok {
        vhcore::machinery_failure(&format!(
            "self-check: first batch does not build (F ok={} `{}` {:?} / A ok={} `{}` {:?})",
            f.ok, f.error, f.panic, a.ok, a.error, a.panic
        ));
    }
    if f.bytecode_hash != a.bytecode_hash || f.abi_hash != a.abi_hash || f.storage_hash != a.storage_hash {
        vhcore::machinery_failure(&format!(
            "self-check: Mode F and Mode A differ (bytecode {} vs {}, abi {} vs {})",
            f.bytecode_hash, a.bytecode_hash, f.abi_hash, a.abi_hash
        ));
    }
    let (tf, ta) = (crate::worker::tests_map(f), crate::worker::tests_map(a));
    if tf != ta || tf.len() != n {
        vhcore::machinery_failure("self-check: Mode F and Mode A test outcomes differ");
    }
    format!(
        "modeF_equals_modeA on {n} cases (bytecode {} bytes, hash {}, abi hash {})",
        f.bytecode_len, f.bytecode_hash, f.abi_hash
    )
}

pub fn run_cases(pool: &Pool, cases: &[Case], cfg: &RunCfg, self_check: bool) -> RunReport {
    let mut reports: Vec<Option<CaseReport>> = (0..cases.len()).map(|_| None).collect();
    let mut pending: Vec<Vec<usize>> = batches(cases, cfg);
    // first batch first (self-check), then the largest types first (shorter tail)
    if pending.len() > 2 {
        pending[1..].reverse();
    }
    let mut packages = 0usize;
    let mut rebuilt = 0usize;
    let mut millis = 0u64;
    let mut self_check_result = String::from("not-run");
    let mut round = 0usize;
    let mut next_id = 0u64;
    if self_check {
        self_check_result = mode_f_equals_mode_a(pool, cases, cfg);
    }
    while !pending.is_empty() {
        let mut reqs = vec![];
        let mut decls_of = vec![];
        for (bi, idxs) in pending.iter().enumerate() {
            let cs: Vec<&Case> = idxs.iter().map(|&i| &cases[i]).collect();
            let (src, d) = package_source(&cs);
            if let Ok(dir) = std::env::var("VH_DUMP_DIR") {
                let _ = std::fs::write(format!("{dir}/{}_r{round}_b{bi}.sw", cfg.prefix), &src);
            }
            decls_of.push(d);
            let builds = vec![spec("F", cfg.release, false)];
            reqs.push(Request {
                id: next_id,
                name: format!("{}_r{round}_b{bi}", cfg.prefix),
                src,
                extra_files: vec![],
                with_std: true,
                builds,
                existing_dir: None,
            });
            next_id += 1;
        }
        packages += reqs.len();
        if round > 0 {
            rebuilt += reqs.len();
        }
        let results = pool.run(&reqs);
        let mut next_pending = vec![];
        for (bi, res) in results.into_iter().enumerate() {
            let idxs = &pending[bi];
            let failure: Option<(String, String)> = match &res {
                Err(e) => Some(("worker-died".to_string(), e.clone())),
                Ok(r) => r.builds.first().map(build_failure).unwrap_or(Some((
                    "no-build-output".into(),
                    String::new(),
                ))),
            };
            match failure {
                None => {
                    let r = res.unwrap();
                    let b = &r.builds[0];
                    millis += b.millis;
                    let abi = Abi::parse(&b.abi_json).unwrap_or_else(|e| {
                        vhcore::machinery_failure(&format!("cannot parse the build's JSON ABI: {e}"))
                    });
                    let tm = crate::worker::tests_map(b);
                    let d = &mut decls_of[bi];
                    for (k, &ci) in idxs.iter().enumerate() {
                        let o = tm.get(&format!("t{k}"));
                        reports[ci] = Some(CaseReport {
                            judged: judge(&cases[ci], &abi, d, o),
                            outcome: o.cloned(),
                        });
                    }
                }
                Some((kind, msg)) => {
                    eprintln!(
                        "[abigen] package {}_r{round}_b{bi} ({} cases, first {}) failed: {kind}: {}",
                        cfg.prefix,
                        idxs.len(),
                        cases[idxs[0]].desc(),
                        vhcore::truncate(&msg, 400)
                    );
                    if idxs.len() == 1 {
                        let c = &cases[idxs[0]];
                        reports[idxs[0]] = Some(CaseReport {
                            judged: Judged {
                                fails: vec![Fail {
                                    key: format!("{kind}|root={}", c.ty.ctor()),
                                    what: format!("package with only this case fails to build/run: {msg}"),
                                }],
                                flags: None,
                                revert: None,
                            },
                            outcome: None,
                        });
                    } else {
                        // bisect, keeping the cases of one type together when possible
                        let mid = idxs.len() / 2;
                        let mut cut = mid;
                        while cut < idxs.len() && cut > 0 && cases[idxs[cut]].ty == cases[idxs[cut - 1]].ty {
                            cut += 1;
                        }
                        if cut >= idxs.len() {
                            cut = mid;
                        }
                        next_pending.push(idxs[..cut].to_vec());
                        next_pending.push(idxs[cut..].to_vec());
                    }
                }
            }
        }
        pending = next_pending;
        round += 1;
    }
    RunReport {
        cases: reports
            .into_iter()
            .map(|r| r.unwrap_or_else(|| vhcore::machinery_failure("runner lost a case")))
            .collect(),
        packages,
        rebuilt_packages: rebuilt,
        compile_millis: millis,
        self_check: self_check_result,
    }
}

/// Rebuild one case alone through the plain forc path (Mode A) and judge it again.
pub fn confirm_alone(pool: &Pool, case: &Case, cfg: &RunCfg, n: usize) -> (String, CaseReport) {
    let (src, mut d) = package_source(&[case]);
    let req = Request {
        id: 0,
        name: format!("{}_confirm{n}", cfg.prefix),
        src: src.clone(),
        extra_files: vec![],
        with_std: true,
        builds: vec![spec("A", cfg.release, true)],
        existing_dir: None,
    };
    let res = pool.run(std::slice::from_ref(&req));
    let rep = match &res[0] {
        Err(e) => CaseReport {
            judged: Judged {
                fails: vec![Fail {
                    key: format!("worker-died|root={}", case.ty.ctor()),
                    what: e.clone(),
                }],
                flags: None,
                revert: None,
            },
            outcome: None,
        },
        Ok(r) => match build_failure(&r.builds[0]) {
            Some((kind, msg)) => CaseReport {
                judged: Judged {
                    fails: vec![Fail {
                        key: format!("{kind}|root={}", case.ty.ctor()),
                        what: msg,
                    }],
                    flags: None,
                    revert: None,
                },
                outcome: None,
            },
            None => {
                let b = &r.builds[0];
                let abi = Abi::parse(&b.abi_json).unwrap_or_else(|e| {
                    vhcore::machinery_failure(&format!("cannot parse the build's JSON ABI: {e}"))
                });
                let tm = crate::worker::tests_map(b);
                let o = tm.get("t0");
                CaseReport {
                    judged: judge(case, &abi, &mut d, o),
                    outcome: o.cloned(),
                }
            }
        },
    };
    (src, rep)
}

/// Report the failing cases of a run: each class key's first `confirm_per_key` cases are rebuilt
/// alone in Mode A; a failure that does not reproduce alone is reported under `…|only-in-batch`.
pub fn report_failures(
    rep: &mut vhcore::Reporter,
    pool: &Pool,
    cases: &[Case],
    run: &RunReport,
    cfg: &RunCfg,
    confirm_per_key: usize,
) -> (usize, usize) {
    let mut per_key: BTreeMap<String, usize> = BTreeMap::new();
    let mut failing = 0usize;
    let mut confirmed = 0usize;
    for (i, cr) in run.cases.iter().enumerate() {
        let Some(f) = cr.judged.fails.first() else { continue };
        failing += 1;
        let key = format!("{}|{}", rep.id, f.key);
        let seen = per_key.entry(key.clone()).or_insert(0);
        *seen += 1;
        let case = &cases[i];
        if *seen > confirm_per_key || per_key.len() > 25 {
            rep.violation(&key, &format!("{}: {}", case.desc(), f.what), serde_json::json!({}));
            continue;
        }
        let (src, alone) = confirm_alone(pool, case, cfg, failing);
        let replay = |observed: &Option<Outcome>, why: &str| {
            serde_json::json!({
                "case": case.desc(),
                "case_json": serde_json::to_value(case).unwrap_or_default(),
                "type": case.ty.show(),
                "value": case.val.show(),
                "canonical_hex": hex::encode(&case.canonical),
                "release": cfg.release,
                "main_sw": src,
                "expected": expectation(case),
                "observed": observed,
                "violation": why,
            })
        };
        match alone.judged.fails.first() {
            Some(f2) => {
                confirmed += 1;
                let key2 = format!("{}|{}", rep.id, f2.key);
                rep.violation(
                    &key2,
                    &format!("{}: {}", case.desc(), f2.what),
                    replay(&alone.outcome, &f2.what),
                );
            }
            None if f.key.starts_with("worker-died") => {
                // the batch worker died / timed out (machine load); the case itself was now
                // evaluated alone through the plain forc path and holds
                rep.add("cases_evaluated_alone_after_worker_death", 1);
                failing -= 1;
            }
            None => rep.violation(
                &format!("{key}|only-in-batch"),
                &format!("{}: {} (does not reproduce alone in Mode A)", case.desc(), f.what),
                replay(&cr.outcome, &f.what),
            ),
        }
    }
    (failing, confirmed)
}

pub fn expectation(case: &Case) -> String {
    match &case.kind {
        Kind::RoundTrip => format!(
            "Ok with 3 logs: {c}, len++{c}, {c}",
            c = hex::encode(&case.canonical)
        ),
        Kind::Trivial => format!(
            "Ok with 7 logs: flagE, flagD, len++{c} (encode), len++{c} (slow path), memory bytes (= len++{c} when a flag is set), {c}, {c}",
            c = hex::encode(&case.canonical)
        ),
        Kind::Invalid { .. } => "Revert (any code), never a value".to_string(),
    }
}

/// `replay CNN <file>`: re-render the stored case as its own package, rebuild it through the plain
/// forc path (Mode A), run it and judge it again with the same oracle. Exit 1 if it still violates.
pub fn replay_cmd(a: &vhcore::Args) -> i32 {
    let Some(path) = &a.replay else {
        vhcore::machinery_failure("usage: replay CNN <replay.json>")
    };
    let txt = std::fs::read_to_string(path)
        .unwrap_or_else(|e| vhcore::machinery_failure(&format!("cannot read replay: {e}")));
    let v: Value = serde_json::from_str(&txt)
        .unwrap_or_else(|e| vhcore::machinery_failure(&format!("replay does not parse: {e}")));
    let r = &v["replay"];
    let case: Case = serde_json::from_value(r["case_json"].clone())
        .unwrap_or_else(|e| vhcore::machinery_failure(&format!("replay file has no usable case_json: {e}")));
    let release = r["release"].as_bool().unwrap_or(false);
    let (src, mut d) = package_source(&[&case]);
    let root = vhcore::work_dir(&format!("{}-replay", a.id));
    let mut w = crate::worker::Worker::new(root);
    let resp = w.handle(&Request {
        id: 0,
        name: "replay_pkg".into(),
        src,
        extra_files: vec![],
        with_std: true,
        builds: vec![spec("A", release, true)],
        existing_dir: None,
    });
    let b = &resp.builds[0];
    println!("case: {}", case.desc());
    println!("profile: {}", if release { "release" } else { "debug" });
    println!("expected: {}", expectation(&case));
    if let Some((kind, msg)) = build_failure(b) {
        println!("observed: {kind}: {msg}");
        println!("still violates (package does not build / run)");
        return 1;
    }
    let abi = Abi::parse(&b.abi_json)
        .unwrap_or_else(|e| vhcore::machinery_failure(&format!("cannot parse the build's JSON ABI: {e}")));
    let tm = crate::worker::tests_map(b);
    let o = tm.get("t0");
    match o {
        Some(Outcome::Ok { logs }) => {
            println!("observed: Ok with {} logs", logs.len());
            for l in logs {
                println!("   log id={} {}", l.id, hex::encode(&l.data));
            }
        }
        Some(Outcome::Revert { code, logs }) => {
            println!("observed: Revert({code:#x}) after {} logs", logs.len());
            for l in logs {
                println!("   log id={} {}", l.id, hex::encode(&l.data));
            }
        }
        None => println!("observed: test entry missing"),
    }
    let j = judge(&case, &abi, &mut d, o);
    if j.fails.is_empty() {
        println!("no longer violates");
        0
    } else {
        for f in &j.fails {
            println!("still violates: [{}] {}", f.key, f.what);
        }
        1
    }
}

/// `dev <file.sw>`: build + run one hand-written package (development aid).
pub fn dev_cmd(a: &vhcore::Args) -> i32 {
    let src = std::fs::read_to_string(&a.rest[0]).expect("read source");
    let release = a.rest.iter().any(|s| s == "release");
    let mode_a = a.rest.iter().any(|s| s == "modea");
    let root = vhcore::work_dir(&format!("{}-dev", a.cmd));
    let mut w = crate::worker::Worker::new(root);
    let mut sp = spec("dev", release, mode_a);
    sp.want_diagnostics = true;
    if a.rest.iter().any(|s| s == "norun") {
        sp.run_tests = false;
    }
    if a.rest.iter().any(|s| s == "warm") {
        let t0 = std::time::Instant::now();
        let _ = w.handle(&Request {
            id: 0,
            name: "warm_pkg".into(),
            src: format!("{PRELUDE}\n#[test]\nfn t0() {{ log(1u64); }}\n"),
            extra_files: vec![],
            with_std: true,
            builds: vec![spec("warm", release, false)],
            existing_dir: None,
        });
        println!("warm-up {} ms", t0.elapsed().as_millis());
    }
    let resp = w.handle(&Request {
        id: 0,
        name: "dev_pkg".into(),
        src,
        extra_files: vec![],
        with_std: true,
        builds: if a.rest.iter().any(|s| s == "twice") { vec![sp.clone(), sp] } else { vec![sp] },
        existing_dir: None,
    });
    for b in &resp.builds {
        println!("build ok={} ms={}", b.ok, b.millis);
    }
    let b = &resp.builds[0];
    println!("ok={} err={} panic={:?}@{} ms={}", b.ok, b.error, b.panic, b.panic_loc, b.millis);
    for d in &b.diagnostics {
        println!("  diag {}..{}: {}", d.start, d.end, d.message);
    }
    for t in &b.tests {
        match &t.outcome {
            Some(Outcome::Ok { logs }) => {
                println!("  {} OK", t.name);
                for l in logs {
                    println!("     log id={} {}", l.id, hex::encode(&l.data));
                }
            }
            Some(Outcome::Revert { code, logs }) => {
                println!("  {} REVERT {code:#x}", t.name);
                for l in logs {
                    println!("     log id={} {}", l.id, hex::encode(&l.data));
                }
            }
            None => println!("  {} <none>", t.name),
        }
    }
    if a.rest.iter().any(|s| s == "abi") {
        println!("{}", b.abi_json);
    }
    0
}

// ---------------------------------------------------------------------------------------------
// The declared space

pub struct Space {
    pub types: Vec<Ty>,
    pub per_size: Vec<u64>,
}

/// All type trees with at most `max_edges` edges; machinery failure when the enumerator and the
/// closed-form count disagree or a type is produced twice.
pub fn space(max_edges: usize) -> Space {
    let by = types_by_size(max_edges);
    let want = count_by_size(max_edges);
    let got: Vec<u64> = by.iter().map(|v| v.len() as u64).collect();
    if got != want {
        vhcore::machinery_failure(&format!(
            "type enumerator produced {got:?} types per size, closed form says {want:?}"
        ));
    }
    let types: Vec<Ty> = by.into_iter().flatten().collect();
    let distinct: std::collections::BTreeSet<&Ty> = types.iter().collect();
    if distinct.len() != types.len() {
        vhcore::machinery_failure("type enumerator produced duplicates");
    }
    for (n, t) in types.iter().enumerate() {
        if t.edges() > max_edges {
            vhcore::machinery_failure(&format!("type #{n} {} exceeds the size bound", t.show()));
        }
    }
    Space {
        types,
        per_size: got,
    }
}

/// Self-test of the oracle on the whole space: decode(encode(v)) = v, the encoding is consumed
/// entirely, and distinct values of one type have distinct encodings (canonical form).
pub fn oracle_self_test(types: &[Ty], cap: usize) -> (u64, u64) {
    let mut values_n = 0u64;
    let mut bytes_n = 0u64;
    for t in types {
        let mut d = Decls::new();
        let abi = expected_abi(t, &mut d);
        let vs = values(t, cap);
        let mut seen: BTreeMap<Vec<u8>, &Val> = BTreeMap::new();
        for v in &vs {
            let e = encode(&abi, v)
                .unwrap_or_else(|e| vhcore::machinery_failure(&format!("oracle: {e}")));
            match decode(&abi, &e.bytes) {
                Ok((back, used)) if back == *v && used == e.bytes.len() => {}
                other => vhcore::machinery_failure(&format!(
                    "oracle self-test: decode(encode({})) of {} gives {other:?}",
                    v.show(),
                    t.show()
                )),
            }
            if let Some(prev) = seen.insert(e.bytes.clone(), v) {
                if prev != v {
                    vhcore::machinery_failure(&format!(
                        "oracle self-test: {} and {} of {} share an encoding",
                        prev.show(),
                        v.show(),
                        t.show()
                    ));
                }
            }
            values_n += 1;
            bytes_n += e.bytes.len() as u64;
        }
    }
    (values_n, bytes_n)
}

// ---------------------------------------------------------------------------------------------
// Staged campaign with a wall-clock budget

pub struct Stage {
    pub label: String,
    pub release: bool,
    pub idx: Vec<usize>,
}

/// Stage plan: the types with ≤ 2 edges in the debug profile as two stages — (0) ≤ 1 edge and
/// binary constructors over two leaves, (1) unary over unary constructors —; thorough adds
/// (2) the release profile on the same types and (3…) the debug profile on the larger types,
/// `chunk_types` types per stage, in enumeration order.
pub fn stages(cases: &[Case], thorough: bool, chunk_types: usize) -> Vec<Stage> {
    // unary-over-unary types go last: the binary constructors over two leaves carry the
    // padding-sensitive field orders
    let group = |t: &Ty| -> usize {
        let binary = matches!(t, Ty::Tup(..) | Ty::Res(..) | Ty::Enum(_, Some(_)))
            || matches!(t, Ty::Struct(fs) if fs.len() == 2);
        if t.edges() <= 1 || binary {
            0
        } else {
            1
        }
    };
    let small: Vec<usize> = (0..cases.len()).filter(|&i| cases[i].ty.edges() <= 2).collect();
    let mut out = vec![];
    for (g, label) in ["debug/≤1-edge+binary-over-leaves", "debug/2-edges/unary-over-unary"]
        .iter()
        .enumerate()
    {
        let idx: Vec<usize> = small.iter().copied().filter(|&i| group(&cases[i].ty) == g).collect();
        if !idx.is_empty() {
            out.push(Stage {
                label: label.to_string(),
                release: false,
                idx,
            });
        }
    }
    if !thorough {
        // quick declares only the small space; anything else is a generator bug
        if small.len() != cases.len() {
            vhcore::machinery_failure("quick tier was given types with more than 2 edges");
        }
        return out;
    }
    out.push(Stage {
        label: "release/≤2-edges".into(),
        release: true,
        idx: small,
    });
    let mut cur: Vec<usize> = vec![];
    let mut types_in_cur = 0usize;
    let mut n = 0usize;
    let mut i = 0usize;
    while i < cases.len() {
        if cases[i].ty.edges() <= 2 {
            i += 1;
            continue;
        }
        let mut j = i;
        while j < cases.len() && cases[j].ty == cases[i].ty {
            j += 1;
        }
        cur.extend(i..j);
        types_in_cur += 1;
        if types_in_cur == chunk_types {
            n += 1;
            out.push(Stage {
                label: format!("debug/3-edges/chunk{n}"),
                release: false,
                idx: std::mem::take(&mut cur),
            });
            types_in_cur = 0;
        }
        i = j;
    }
    if !cur.is_empty() {
        out.push(Stage {
            label: format!("debug/3-edges/chunk{}", n + 1),
            release: false,
            idx: cur,
        });
    }
    out
}

#[derive(Default)]
pub struct Campaign {
    pub evals: u64,
    pub packages: usize,
    pub rebuilt: usize,
    pub failing: usize,
    pub confirmed: usize,
    pub self_check: String,
    pub stages_done: Vec<Value>,
    pub exhaustive: bool,
}

/// Run the stages in order; before every stage after the first the elapsed wall time is compared
/// with `budget_s` — when exceeded the remaining stages are skipped, the evidence gets a cap
/// entry and `exhaustive` is false.
#[allow(clippy::too_many_arguments)]
pub fn run_stages(
    rep: &mut vhcore::Reporter,
    pool: &Pool,
    cases: &[Case],
    plan: &[Stage],
    prefix: &str,
    max_cases: usize,
    budget_s: u64,
    on_case: &mut dyn FnMut(&Case, &CaseReport, bool),
) -> Campaign {
    let start = std::time::Instant::now();
    let mut c = Campaign {
        exhaustive: true,
        ..Default::default()
    };
    for (si, st) in plan.iter().enumerate() {
        if si > 0 && start.elapsed().as_secs() > budget_s {
            let skipped: usize = plan[si..].iter().map(|s| s.idx.len()).sum();
            rep.cap(&format!(
                "wall-clock budget of {budget_s}s exceeded after {} of {} stages: stages {:?} ({} cases) not explored",
                si,
                plan.len(),
                plan[si..].iter().map(|s| s.label.clone()).collect::<Vec<_>>(),
                skipped
            ));
            c.exhaustive = false;
            break;
        }
        let sel: Vec<Case> = st.idx.iter().map(|&i| cases[i].clone()).collect();
        let cfg = RunCfg {
            prefix: format!("{prefix}s{si}"),
            release: st.release,
            max_cases: max_cases.min((sel.len() / (4 * pool.jobs.max(1))).max(24)),
            max_words: 2500,
        };
        let t0 = std::time::Instant::now();
        let run = run_cases(pool, &sel, &cfg, si == 0);
        let wall = t0.elapsed().as_secs_f64();
        eprintln!(
            "[{prefix}] stage {si} {}: {} cases in {} packages ({} rebuilt), {wall:.1}s wall",
            st.label,
            sel.len(),
            run.packages,
            run.rebuilt_packages
        );
        if si == 0 {
            c.self_check = run.self_check.clone();
        }
        c.packages += run.packages;
        c.rebuilt += run.rebuilt_packages;
        for (case, r) in sel.iter().zip(&run.cases) {
            c.evals += 1;
            on_case(case, r, st.release);
        }
        let (f, k) = report_failures(rep, pool, &sel, &run, &cfg, 1);
        c.failing += f;
        c.confirmed += k;
        c.stages_done.push(serde_json::json!({
            "stage": st.label, "cases": sel.len(), "packages": run.packages, "wall_s": (wall * 10.0).round() / 10.0,
        }));
    }
    if c.self_check.is_empty() || c.self_check == "not-run" {
        vhcore::machinery_failure("Mode F = Mode A self-check did not run");
    }
    c
}

//! The declared program spaces S1–S4 and the register-pressure ladder (DESIGN.md §3.1).
//! Every function here enumerates its space completely, simplest first; nothing is sampled.

use crate::gen::*;
use num_bigint::BigUint;
use num_traits::{One, Zero};

fn finish(desc: String, space: &'static str, prog: Program, body: Vec<Stmt>) -> Case {
    let expect = match Interp::run_test(&prog, &body) {
        Ok(e) => e,
        Err(s) => vhcore::machinery_failure(&format!("reference interpreter stuck on `{desc}`: {s}")),
    };
    Case {
        desc,
        space,
        prog,
        body,
        expect,
        known_class: None,
    }
}

// ---------------------------------------------------------------------------------------------
// S1 expression kernel

pub fn boundary(bits: u16) -> Vec<BigUint> {
    let one = BigUint::one();
    let w = bits as usize;
    let mut v = vec![
        BigUint::zero(),
        one.clone(),
        BigUint::from(2u8),
        BigUint::from(3u8),
        (&one << (w / 2)) - &one,
        &one << (w / 2),
        (&one << (w - 1)) - &one,
        &one << (w - 1),
        max_of(bits) - &one,
        max_of(bits),
    ];
    if bits == 256 {
        let mut a = BigUint::zero();
        for _ in 0..32 {
            a = (a << 8) | BigUint::from(0x55u8);
        }
        v.push(a.clone());
        v.push(a << 1);
    }
    v.dedup();
    v
}

pub fn small_boundary(bits: u16) -> Vec<BigUint> {
    vec![
        BigUint::zero(),
        BigUint::one(),
        max_of(bits),
        BigUint::one() << (bits as usize - 1),
    ]
}

pub fn shift_amounts(bits: u16) -> Vec<u64> {
    let w = bits as u64;
    // the last group: amounts that only look small after a truncation to 32 bits (the folders and
    // the big-integer helpers convert the amount to u32 / usize on the way)
    let mut v = vec![
        0, 1, w / 2, w - 1, w, w + 1, 63, 64, 65, 255, 256, 257, u64::MAX,
        (1 << 32) - 1, 1 << 32, (1 << 32) + 1, (1 << 32) + w - 1, 1 << 63,
    ];
    v.sort();
    v.dedup();
    v
}

pub const INT_WIDTHS: [u16; 5] = [8, 16, 32, 64, 256];

pub fn all_binops() -> Vec<BinOp> {
    let mut v = vec![];
    v.extend(BinOp::ARITH);
    v.extend(BinOp::BITS);
    v.extend(BinOp::SHIFTS);
    v.extend(BinOp::CMP);
    v
}

fn operand(v: Value, opaque: bool) -> Expr {
    if opaque {
        opq(lit(v))
    } else {
        lit(v)
    }
}

/// S1 depth 1: every (width, operator, lhs, rhs) over the boundary alphabets, plus unary `!`.
pub fn s1_depth1(widths: &[u16], opaque: bool) -> Vec<Case> {
    let mut out = vec![];
    let mode = if opaque { "opq" } else { "lit" };
    for &bits in widths {
        let vals = boundary(bits);
        for op in all_binops() {
            let rhs: Vec<Value> = if matches!(op, BinOp::Shl | BinOp::Shr) {
                shift_amounts(bits).into_iter().map(|a| int(64, a)).collect()
            } else {
                vals.iter().map(|b| big(bits, b.clone())).collect()
            };
            for a in &vals {
                for b in &rhs {
                    let e = bin(op, operand(big(bits, a.clone()), opaque), operand(b.clone(), opaque));
                    let desc = format!("S1/{mode}/u{bits} {a} {} {}", op.sym(), b.print(&Decls::default()));
                    out.push(finish(desc, "S1", Program::default(), vec![Stmt::Log(e)]));
                }
            }
        }
        for a in &vals {
            let e = Expr::Not(Box::new(operand(big(bits, a.clone()), opaque)));
            out.push(finish(
                format!("S1/{mode}/u{bits} !{a}"),
                "S1",
                Program::default(),
                vec![Stmt::Log(e)],
            ));
        }
    }
    // bool and b256
    for op in [BinOp::Eq, BinOp::Ne, BinOp::LAnd, BinOp::LOr] {
        for a in [false, true] {
            for b in [false, true] {
                let e = bin(op, operand(Value::Bool(a), opaque), operand(Value::Bool(b), opaque));
                out.push(finish(
                    format!("S1/{mode}/bool {a} {} {b}", op.sym()),
                    "S1",
                    Program::default(),
                    vec![Stmt::Log(e)],
                ));
            }
        }
    }
    let bvals = small_boundary(256);
    for op in [BinOp::Eq, BinOp::Ne, BinOp::And, BinOp::Or, BinOp::Xor] {
        for a in &bvals {
            for b in &bvals {
                let e = bin(
                    op,
                    operand(Value::B256(a.clone()), opaque),
                    operand(Value::B256(b.clone()), opaque),
                );
                out.push(finish(
                    format!("S1/{mode}/b256 {a:x} {} {b:x}", op.sym()),
                    "S1",
                    Program::default(),
                    vec![Stmt::Log(e)],
                ));
            }
        }
    }
    out
}

/// S1 depth 2: `((a op b) op2 c)` with a,b over the small alphabet, c over a 4-value alphabet.
pub fn s1_depth2(widths: &[u16], opaque: bool) -> Vec<Case> {
    let mut out = vec![];
    let mode = if opaque { "opq" } else { "lit" };
    let ops: Vec<BinOp> = BinOp::ARITH.iter().chain(BinOp::BITS.iter()).copied().collect();
    for &bits in widths {
        let ab = small_boundary(bits);
        let cs = vec![BigUint::zero(), BigUint::one(), BigUint::from(2u8), max_of(bits)];
        for op1 in &ops {
            for op2 in &ops {
                for a in &ab {
                    for b in &ab {
                        for c in &cs {
                            let inner = bin(
                                *op1,
                                operand(big(bits, a.clone()), opaque),
                                operand(big(bits, b.clone()), opaque),
                            );
                            let e = bin(*op2, inner, operand(big(bits, c.clone()), opaque));
                            out.push(finish(
                                format!("S1d2/{mode}/u{bits} ({a} {} {b}) {} {c}", op1.sym(), op2.sym()),
                                "S1d2",
                                Program::default(),
                                vec![Stmt::Log(e)],
                            ));
                        }
                    }
                }
            }
        }
    }
    out
}

/// Casts: every widening `as_uN` and every narrowing `try_as_uN().unwrap()` on boundary values.
pub fn s1_casts(opaque: bool) -> Vec<Case> {
    let mut out = vec![];
    let mode = if opaque { "opq" } else { "lit" };
    let widen: [(u16, u16); 7] = [(8, 16), (8, 32), (8, 64), (16, 32), (16, 64), (32, 64), (64, 256)];
    for (from, to) in widen {
        for a in boundary(from) {
            let e = Expr::Widen(to, Box::new(operand(big(from, a.clone()), opaque)));
            out.push(finish(
                format!("S1cast/{mode} u{from}({a}).as_u{to}"),
                "S1cast",
                Program::default(),
                vec![Stmt::Log(e)],
            ));
        }
    }
    let narrow: [(u16, u16); 6] = [(16, 8), (32, 8), (32, 16), (64, 8), (64, 16), (64, 32)];
    for (from, to) in narrow {
        let mut vals = boundary(from);
        vals.push(max_of(to));
        vals.push(max_of(to) + BigUint::one());
        for a in vals {
            let e = Expr::Narrow(to, Box::new(operand(big(from, a.clone()), opaque)));
            out.push(finish(
                format!("S1cast/{mode} u{from}({a}).try_as_u{to}"),
                "S1cast",
                Program::default(),
                vec![Stmt::Log(e)],
            ));
        }
    }
    out
}

// ---------------------------------------------------------------------------------------------
// S2 control flow

fn u(v: u64) -> Expr {
    lit(int(64, v))
}

fn s2_atoms() -> Vec<Stmt> {
    let x = || var("x");
    let y = || var("y");
    vec![
        Stmt::Assign(LValue::Var("x".into()), bin(BinOp::Add, x(), u(1))),
        Stmt::Assign(LValue::Var("y".into()), bin(BinOp::Add, y(), x())),
        Stmt::Assign(LValue::Var("x".into()), var("a")),
        Stmt::Assign(LValue::Var("y".into()), bin(BinOp::Mul, y(), u(2))),
        Stmt::Assign(LValue::Var("x".into()), bin(BinOp::Sub, x(), u(1))),
        Stmt::Assign(LValue::Var("y".into()), bin(BinOp::Add, var("b"), x())),
        Stmt::Log(y()),
    ]
}

fn s2_conds() -> Vec<Expr> {
    vec![
        bin(BinOp::Lt, var("x"), var("a")),
        bin(BinOp::Eq, var("y"), var("b")),
        bin(BinOp::Ne, var("x"), var("y")),
        bin(BinOp::Eq, bin(BinOp::And, var("a"), u(1)), u(0)),
    ]
}

/// All statement lists with exactly `n` statement nodes. `in_loop` enables break/continue;
/// `depth` bounds nesting.
fn s2_lists(n: usize, in_loop: bool, depth: usize, loop_id: &mut usize) -> Vec<Vec<Stmt>> {
    if n == 0 {
        return vec![vec![]];
    }
    let mut out = vec![];
    // first statement takes k nodes, the rest n-k
    for k in 1..=n {
        let firsts = s2_stmt(k, in_loop, depth, loop_id);
        if firsts.is_empty() {
            continue;
        }
        let rests = s2_lists(n - k, in_loop, depth, loop_id);
        for f in &firsts {
            // statements after break/continue/return are dead code: skip those lists
            if matches!(f, Stmt::Break | Stmt::Continue | Stmt::Return(_)) && n - k > 0 {
                continue;
            }
            for r in &rests {
                let mut l = vec![f.clone()];
                l.extend(r.iter().cloned());
                out.push(l);
            }
        }
    }
    out
}

fn s2_stmt(k: usize, in_loop: bool, depth: usize, loop_id: &mut usize) -> Vec<Stmt> {
    let mut out = vec![];
    if k == 1 {
        out.extend(s2_atoms());
        if in_loop {
            out.push(Stmt::Break);
            out.push(Stmt::Continue);
        }
        out.push(Stmt::Return(bin(BinOp::Add, var("x"), var("y"))));
        return out;
    }
    if depth == 0 {
        return out;
    }
    // if: 1 node + then (t nodes) + else (k-1-t nodes), t >= 1
    for c in s2_conds() {
        for t in 1..k {
            let e = k - 1 - t;
            for th in s2_lists(t, in_loop, depth - 1, loop_id) {
                for el in s2_lists(e, in_loop, depth - 1, loop_id) {
                    out.push(Stmt::If(c.clone(), th.clone(), el));
                }
            }
        }
    }
    // while with an explicit fuel counter: 1 node + body (k-1 nodes)
    for (ci, c) in s2_conds().into_iter().enumerate().take(2) {
        for body in s2_lists(k - 1, true, depth - 1, loop_id) {
            let id = *loop_id;
            *loop_id += 1;
            let i = format!("i{id}");
            // the counter is declared by a preceding `let` that we fold into an If(true) wrapper:
            // represented as Block via If with constant condition is ugly; instead emit two
            // statements through a nested If-less wrapper: we use While with cond `i < 3 && c`
            // and prepend the increment to the body; the `let` is emitted by the caller (see
            // `hoist_counters`).
            let cond = if ci == 0 {
                bin(BinOp::Lt, var(&i), u(3))
            } else {
                bin(BinOp::LAnd, bin(BinOp::Lt, var(&i), u(3)), c.clone())
            };
            let mut b = vec![Stmt::Assign(LValue::Var(i.clone()), bin(BinOp::Add, var(&i), u(1)))];
            b.extend(body);
            out.push(Stmt::While(cond, b));
        }
    }
    out
}

fn collect_counters(ss: &[Stmt], out: &mut Vec<String>) {
    for s in ss {
        match s {
            Stmt::While(c, b) => {
                fn find(e: &Expr, out: &mut Vec<String>) {
                    match e {
                        Expr::Var(n) if n.starts_with('i') && n[1..].chars().all(|c| c.is_ascii_digit()) && n.len() > 1 => {
                            if !out.contains(n) {
                                out.push(n.clone())
                            }
                        }
                        Expr::Bin(_, a, b) => {
                            find(a, out);
                            find(b, out);
                        }
                        _ => {}
                    }
                }
                find(c, out);
                collect_counters(b, out);
            }
            Stmt::If(_, t, f) => {
                collect_counters(t, out);
                collect_counters(f, out);
            }
            _ => {}
        }
    }
}

pub const S2_INPUTS: [u64; 4] = [0, 1, 2, 5];

/// All S2 programs with exactly `n` statement nodes (nesting depth ≤ 2): `fn f(a, b) -> u64`
/// over two mutable locals, run on all inputs in {0,1,2,5}².
pub fn s2(n: usize) -> Vec<Case> {
    let mut loop_id = 0usize;
    let lists = s2_lists(n, false, 2, &mut loop_id);
    let mut out = vec![];
    for (idx, l) in lists.into_iter().enumerate() {
        let mut counters = vec![];
        collect_counters(&l, &mut counters);
        let mut stmts = vec![
            Stmt::Let("x".into(), true, None, u(1)),
            Stmt::Let("y".into(), true, None, var("b")),
        ];
        for c in counters {
            stmts.push(Stmt::Let(c, true, None, u(0)));
        }
        // A function body that ends in a top-level `return` has no trailing result expression
        // (code after a top-level `return` makes the compiler's return-path analysis panic — a
        // robustness defect tracked under C17, not something C01's well-typed fragment relies on).
        let ends_in_return = matches!(l.last(), Some(Stmt::Return(_)));
        stmts.extend(l);
        let f = Func {
            name: "f".into(),
            generics: vec![],
            params: vec![
                ("a".into(), ParamMode::Value, Ty::U64, None),
                ("b".into(), ParamMode::Value, Ty::U64, None),
            ],
            ret: Ty::U64,
            ret_generic: None,
            body: Block {
                stmts,
                result: if ends_in_return {
                    None
                } else {
                    Some(bin(BinOp::Add, bin(BinOp::Mul, var("x"), u(1000)), var("y")))
                },
            },
            inline: Inline::Never,
        };
        let prog = Program {
            decls: Decls::default(),
            funcs: vec![f],
            ..Default::default()
        };
        let mut body = vec![];
        for a in S2_INPUTS {
            for b in S2_INPUTS {
                body.push(Stmt::Log(call("f", vec![opq(u(a)), opq(u(b))])));
            }
        }
        let p = Printer { d: &prog.decls };
        let desc = format!("S2/n{n}/#{idx} {}", p.stmts(&prog.funcs[0].body.stmts[2..], 0).replace('\n', " "));
        out.push(finish(desc, "S2", prog, body));
    }
    out
}

// ---------------------------------------------------------------------------------------------
// S3 aggregates and aliasing

#[derive(Clone, Debug)]
enum Step {
    Field(usize),
    Tup(usize),
    Idx(usize),
}

/// All type trees with exactly `size` constructor nodes over leaves {u8, u64, bool} (b256 as
/// an extra leaf when `size == 0`). Struct/enum declarations are appended to `d`.
fn type_trees(size: usize, d: &mut Decls) -> Vec<Ty> {
    type_trees_over(size, d, &[Ty::U8, Ty::U64, Ty::Bool, Ty::B256, Ty::U256])
}

fn type_trees_over(size: usize, d: &mut Decls, leaves: &[Ty]) -> Vec<Ty> {
    if size == 0 {
        return leaves.to_vec();
    }
    let mut out = vec![];
    // unary-ish constructors: array of 2, struct of 1 field
    for inner in type_trees_over(size - 1, d, leaves) {
        out.push(Ty::Array(Box::new(inner.clone()), 2));
        let si = d.structs.len();
        d.structs.push(StructDecl {
            name: format!("S{si}"),
            fields: vec![("f0".into(), inner.clone())],
        });
        out.push(Ty::Struct(si));
    }
    // binary constructors: tuple2, struct2 with children sizes l + r = size - 1
    for l in 0..size {
        let r = size - 1 - l;
        let ls = type_trees_over(l, d, leaves);
        let rs = type_trees_over(r, d, leaves);
        for a in &ls {
            for b in &rs {
                out.push(Ty::Tuple(vec![a.clone(), b.clone()]));
                let si = d.structs.len();
                d.structs.push(StructDecl {
                    name: format!("S{si}"),
                    fields: vec![("f0".into(), a.clone()), ("f1".into(), b.clone())],
                });
                out.push(Ty::Struct(si));
            }
        }
    }
    out
}

fn leaf_value(t: &Ty, seed: &mut u64) -> Value {
    *seed += 1;
    match t {
        Ty::U8 => int(8, (*seed * 7 + 3) % 250),
        Ty::U16 => int(16, *seed * 1000 + 11),
        Ty::U32 => int(32, *seed * 100_000 + 13),
        Ty::U64 => int(64, *seed * 0x1_0000_0001 + 17),
        Ty::U256 => big(256, (BigUint::from(*seed) << 200) + BigUint::from(*seed * 31)),
        Ty::Bool => Value::Bool(*seed % 2 == 1),
        Ty::B256 => Value::B256((BigUint::from(*seed * 3) << 248) + BigUint::from(*seed)),
        _ => unreachable!(),
    }
}

fn build_value(t: &Ty, d: &Decls, seed: &mut u64) -> Value {
    match t {
        Ty::Tuple(ts) => Value::Tuple(ts.iter().map(|t| build_value(t, d, seed)).collect()),
        Ty::Struct(i) => Value::Struct(
            *i,
            d.structs[*i]
                .fields
                .iter()
                .map(|(_, t)| build_value(t, d, seed))
                .collect(),
        ),
        Ty::Array(t, n) => Value::Array((0..*n).map(|_| build_value(t, d, seed)).collect()),
        Ty::Enum(_) | Ty::Unit => unreachable!(),
        leaf => leaf_value(leaf, seed),
    }
}

/// Expression building `v` with every leaf passed through `opq`.
fn build_expr(v: &Value) -> Expr {
    match v {
        Value::Tuple(vs) => Expr::Tuple(vs.iter().map(build_expr).collect()),
        Value::Struct(i, vs) => Expr::Struct(*i, vs.iter().map(build_expr).collect()),
        Value::Array(vs) => Expr::Array(vs.iter().map(build_expr).collect()),
        leaf => opq(lit(leaf.clone())),
    }
}

/// Like `build_expr`, but every leaf is first bound to a local (`l<k> = opq(leaf)`, appended to
/// `lets`) and the aggregate is built from those locals: no call between the aggregate's stores.
fn build_expr_from_locals(v: &Value, lets: &mut Vec<Stmt>) -> Expr {
    match v {
        Value::Tuple(vs) => Expr::Tuple(vs.iter().map(|v| build_expr_from_locals(v, lets)).collect()),
        Value::Struct(i, vs) => Expr::Struct(*i, vs.iter().map(|v| build_expr_from_locals(v, lets)).collect()),
        Value::Array(vs) => Expr::Array(vs.iter().map(|v| build_expr_from_locals(v, lets)).collect()),
        leaf => {
            let name = format!("l{}", lets.len());
            lets.push(Stmt::Let(name.clone(), false, None, opq(lit(leaf.clone()))));
            var(&name)
        }
    }
}

fn leaf_paths(t: &Ty, d: &Decls) -> Vec<(Vec<Step>, Ty)> {
    match t {
        Ty::Tuple(ts) => ts
            .iter()
            .enumerate()
            .flat_map(|(i, t)| {
                leaf_paths(t, d).into_iter().map(move |(mut p, l)| {
                    p.insert(0, Step::Tup(i));
                    (p, l)
                })
            })
            .collect(),
        Ty::Struct(s) => d.structs[*s]
            .fields
            .iter()
            .enumerate()
            .flat_map(|(i, (_, t))| {
                leaf_paths(t, d).into_iter().map(move |(mut p, l)| {
                    p.insert(0, Step::Field(i));
                    (p, l)
                })
            })
            .collect(),
        Ty::Array(t, n) => (0..*n)
            .flat_map(|i| {
                leaf_paths(t, d).into_iter().map(move |(mut p, l)| {
                    p.insert(0, Step::Idx(i));
                    (p, l)
                })
            })
            .collect(),
        leaf => vec![(vec![], leaf.clone())],
    }
}

fn path_lv(base: &str, p: &[Step], var_index: bool) -> LValue {
    let mut l = LValue::Var(base.into());
    for s in p {
        l = match s {
            Step::Field(i) => LValue::Field(Box::new(l), *i),
            Step::Tup(i) => LValue::TupleIdx(Box::new(l), *i),
            Step::Idx(i) => LValue::Index(
                Box::new(l),
                if var_index { opq(u(*i as u64)) } else { u(*i as u64) },
            ),
        };
    }
    l
}

/// S3: for every type tree with `size` constructor nodes and every leaf path: copy, mutate the
/// copy, pass by value to a mutating callee, mutate through `ref mut`, project — value semantics
/// must hold at each step (the shapes mem2reg / SROA / memcpyopt / demotions act on).
pub fn s3(size: usize) -> Vec<Case> {
    let mut decls = Decls::default();
    let tys = type_trees(size, &mut decls);
    s3_over(size, "S3", decls, tys)
}

/// The size-2 type trees over the leaves {u8, u64} only (mixed sizes give every aggregate member a
/// non-zero, partly unaligned-looking offset) — the quick-tier slice of `s3(2)`.
pub fn s3_size2_small() -> Vec<Case> {
    let mut decls = Decls::default();
    let tys = type_trees_over(2, &mut decls, &[Ty::U8, Ty::U64]);
    s3_over(2, "S3", decls, tys)
}

fn s3_over(size: usize, space: &'static str, decls: Decls, tys: Vec<Ty>) -> Vec<Case> {
    let mut out = vec![];
    for (ti, t) in tys.iter().enumerate() {
        if size == 0 && !matches!(t, Ty::U64 | Ty::U256 | Ty::B256) {
            continue;
        }
        // restrict declarations to the ones this type uses (keeps packages small)
        let (t, d) = prune_decls(t, &decls);
        let paths = leaf_paths(&t, &d);
        for (pi, (path, leaf_ty)) in paths.iter().enumerate() {
            for var_index in [false, true] {
                if var_index && !path.iter().any(|s| matches!(s, Step::Idx(_))) {
                    continue;
                }
                let mut seed = 0u64;
                let v0 = build_value(&t, &d, &mut seed);
                let n1 = leaf_value(leaf_ty, &mut seed);
                let n2 = leaf_value(leaf_ty, &mut seed);
                let n3 = leaf_value(leaf_ty, &mut seed);
                let byval = Func {
                    name: "byval".into(),
                    generics: vec![],
                    params: vec![
                        ("v".into(), ParamMode::Value, t.clone(), None),
                        ("n".into(), ParamMode::Value, leaf_ty.clone(), None),
                    ],
                    ret: t.clone(),
                    ret_generic: None,
                    body: Block {
                        stmts: vec![
                            Stmt::Let("w".into(), true, None, var("v")),
                            Stmt::Assign(path_lv("w", path, var_index), var("n")),
                        ],
                        result: Some(var("w")),
                    },
                    inline: Inline::Never,
                };
                let refmut = Func {
                    name: "refmut".into(),
                    generics: vec![],
                    params: vec![
                        ("v".into(), ParamMode::RefMut, t.clone(), None),
                        ("n".into(), ParamMode::Value, leaf_ty.clone(), None),
                    ],
                    ret: Ty::Unit,
                    ret_generic: None,
                    body: Block {
                        stmts: vec![Stmt::Assign(path_lv("v", path, var_index), var("n"))],
                        result: None,
                    },
                    inline: Inline::Never,
                };
                let proj = Func {
                    name: "proj".into(),
                    generics: vec![],
                    params: vec![("v".into(), ParamMode::Value, t.clone(), None)],
                    ret: leaf_ty.clone(),
                    ret_generic: None,
                    body: Block {
                        stmts: vec![],
                        result: Some(lvalue_to_expr(&path_lv("v", path, var_index))),
                    },
                    inline: Inline::Default,
                };
                let prog = Program {
                    decls: d.clone(),
                    funcs: vec![byval, refmut, proj],
                    ..Default::default()
                };
                let body = vec![
                    Stmt::Let("a".into(), false, None, build_expr(&v0)),
                    Stmt::Let("b".into(), true, None, var("a")),
                    Stmt::Assign(path_lv("b", path, var_index), opq(lit(n1.clone()))),
                    // direct projections of the locals (constant or variable index as the path says),
                    // in the block that built and copied the aggregates
                    Stmt::Log(lvalue_to_expr(&path_lv("a", path, var_index))),
                    Stmt::Log(lvalue_to_expr(&path_lv("b", path, var_index))),
                    Stmt::Log(var("a")),
                    Stmt::Log(var("b")),
                    Stmt::Let("c".into(), false, None, call("byval", vec![var("a"), opq(lit(n2.clone()))])),
                    Stmt::Log(lvalue_to_expr(&path_lv("c", path, var_index))),
                    Stmt::Log(var("a")),
                    Stmt::Log(var("c")),
                    Stmt::Expr(call("refmut", vec![var("b"), opq(lit(n3.clone()))])),
                    Stmt::Log(var("b")),
                    Stmt::Log(call("proj", vec![var("b")])),
                    Stmt::Log(call("proj", vec![var("a")])),
                    Stmt::Let("arr".into(), true, None, Expr::Array(vec![var("a"), var("b"), var("c")])),
                    Stmt::Assign(
                        {
                            let mut p2 = vec![Step::Idx(1)];
                            p2.extend(path.iter().cloned());
                            path_lv("arr", &p2, true)
                        },
                        opq(lit(n1.clone())),
                    ),
                    Stmt::Log(Expr::Index(Box::new(var("arr")), Box::new(opq(u(0))))),
                    Stmt::Log(Expr::Index(Box::new(var("arr")), Box::new(opq(u(1))))),
                    Stmt::Log(Expr::Index(Box::new(var("arr")), Box::new(u(2)))),
                    Stmt::Log(var("b")),
                ];
                let desc = format!(
                    "S3/size{size}/ty#{ti} {} path#{pi}{}",
                    t.print(&d),
                    if var_index { " varidx" } else { "" }
                );
                out.push(finish(desc, space, prog, body));
                if !var_index {
                    // "window" variant: all opaque values are produced first, then the aggregate is
                    // built, copied, written and read member-wise with NO call in between (the
                    // shape in which the IR alias analysis / store-to-load forwarding / SROA see the
                    // whole story in one basic block); only then are the results logged
                    let mut seed = 0u64;
                    let v0 = build_value(&t, &d, &mut seed);
                    let n1 = leaf_value(leaf_ty, &mut seed);
                    let n2 = leaf_value(leaf_ty, &mut seed);
                    let mut body = vec![];
                    let a_expr = build_expr_from_locals(&v0, &mut body);
                    body.push(Stmt::Let("n1v".into(), false, None, opq(lit(n1))));
                    body.push(Stmt::Let("n2v".into(), false, None, opq(lit(n2))));
                    let proj = |base: &str| lvalue_to_expr(&path_lv(base, path, false));
                    body.extend([
                        Stmt::Let("a".into(), false, None, a_expr),
                        Stmt::Let("pa0".into(), false, None, proj("a")),
                        Stmt::Let("b".into(), true, None, var("a")),
                        Stmt::Assign(path_lv("b", path, false), var("n1v")),
                        Stmt::Let("pa".into(), false, None, proj("a")),
                        Stmt::Let("pb".into(), false, None, proj("b")),
                        Stmt::Let("c".into(), true, None, var("b")),
                        Stmt::Assign(path_lv("c", path, false), var("n2v")),
                        Stmt::Let("pc".into(), false, None, proj("c")),
                        Stmt::Let("pb2".into(), false, None, proj("b")),
                        Stmt::Log(var("pa0")),
                        Stmt::Log(var("pa")),
                        Stmt::Log(var("pb")),
                        Stmt::Log(var("pc")),
                        Stmt::Log(var("pb2")),
                        Stmt::Log(var("a")),
                        Stmt::Log(var("b")),
                        Stmt::Log(var("c")),
                    ]);
                    let prog = Program { decls: d.clone(), ..Default::default() };
                    let desc = format!("S3w/size{size}/ty#{ti} {} path#{pi}", t.print(&d));
                    out.push(finish(desc, space, prog, body));
                }
            }
        }
    }
    out
}

fn prune_decls(t: &Ty, d: &Decls) -> (Ty, Decls) {
    fn go(t: &Ty, d: &Decls, nd: &mut Decls, map: &mut std::collections::HashMap<usize, usize>) -> Ty {
        match t {
            Ty::Tuple(ts) => Ty::Tuple(ts.iter().map(|t| go(t, d, nd, map)).collect()),
            Ty::Array(t, n) => Ty::Array(Box::new(go(t, d, nd, map)), *n),
            Ty::Struct(i) => {
                if let Some(j) = map.get(i) {
                    return Ty::Struct(*j);
                }
                let fields: Vec<(String, Ty)> = d.structs[*i]
                    .fields
                    .iter()
                    .map(|(n, t)| (n.clone(), go(t, d, nd, map)))
                    .collect();
                let j = nd.structs.len();
                nd.structs.push(StructDecl {
                    name: format!("S{j}"),
                    fields,
                });
                map.insert(*i, j);
                Ty::Struct(j)
            }
            other => other.clone(),
        }
    }
    let mut nd = Decls::default();
    let mut map = std::collections::HashMap::new();
    let nt = go(t, d, &mut nd, &mut map);
    (nt, nd)
}

/// Enum shapes: construct each variant from opaque payloads, pass through a call, match with
/// bindings, nested tuple patterns, literal patterns and a wildcard.
pub fn s3_enums() -> Vec<Case> {
    let mut out = vec![];
    let payloads = [Ty::Unit, Ty::U8, Ty::U64, Ty::Bool, Ty::Tuple(vec![Ty::U8, Ty::U64]), Ty::B256];
    for (ai, a) in payloads.iter().enumerate() {
        for (bi, b) in payloads.iter().enumerate() {
            let mut d = Decls::default();
            d.enums.push(EnumDecl {
                name: "E".into(),
                variants: vec![("A".into(), a.clone()), ("B".into(), b.clone()), ("C".into(), Ty::U64)],
            });
            let digest = |t: &Ty, bind: &str| -> (Pat, Expr) {
                match t {
                    Ty::Unit => (Pat::Wild, u(7)),
                    Ty::U8 => (Pat::Bind(bind.into()), Expr::Widen(64, Box::new(var(bind)))),
                    Ty::U64 => (Pat::Bind(bind.into()), bin(BinOp::Add, var(bind), u(1))),
                    Ty::Bool => (
                        Pat::Bind(bind.into()),
                        Expr::If(
                            Box::new(var(bind)),
                            Box::new(Block { stmts: vec![], result: Some(u(11)) }),
                            Box::new(Block { stmts: vec![], result: Some(u(12)) }),
                        ),
                    ),
                    Ty::Tuple(_) => (
                        Pat::Tuple(vec![Pat::Bind(format!("{bind}0")), Pat::Bind(format!("{bind}1"))]),
                        bin(
                            BinOp::Add,
                            Expr::Widen(64, Box::new(var(&format!("{bind}0")))),
                            var(&format!("{bind}1")),
                        ),
                    ),
                    Ty::B256 => (
                        Pat::Bind(bind.into()),
                        Expr::If(
                            Box::new(bin(
                                BinOp::Eq,
                                var(bind),
                                lit(Value::B256(BigUint::from(5u8))),
                            )),
                            Box::new(Block { stmts: vec![], result: Some(u(21)) }),
                            Box::new(Block { stmts: vec![], result: Some(u(22)) }),
                        ),
                    ),
                    _ => unreachable!(),
                }
            };
            let (pa, ea) = digest(a, "p");
            let (pb, eb) = digest(b, "q");
            let f = Func {
                name: "dig".into(),
                generics: vec![],
                params: vec![("e".into(), ParamMode::Value, Ty::Enum(0), None)],
                ret: Ty::U64,
                ret_generic: None,
                body: Block {
                    stmts: vec![],
                    result: Some(Expr::Match(
                        Box::new(var("e")),
                        vec![
                            (Pat::Variant(0, 0, Box::new(pa)), ea),
                            (Pat::Variant(0, 1, Box::new(pb)), eb),
                            (Pat::Variant(0, 2, Box::new(Pat::Lit(int(64, 3)))), u(33)),
                            (Pat::Wild, u(99)),
                        ],
                    )),
                },
                inline: Inline::Never,
            };
            let prog = Program { decls: d.clone(), funcs: vec![f], ..Default::default() };
            let mut seed = 0;
            let mk = |t: &Ty, seed: &mut u64| -> Expr {
                match t {
                    Ty::Unit => lit(Value::Unit),
                    Ty::Tuple(ts) => Expr::Tuple(ts.iter().map(|t| opq(lit(leaf_value(t, seed)))).collect()),
                    Ty::B256 => opq(lit(Value::B256(BigUint::from(5u8)))),
                    l => opq(lit(leaf_value(l, seed))),
                }
            };
            let body = vec![
                Stmt::Let("ea".into(), false, None, Expr::EnumNew(0, 0, Box::new(mk(a, &mut seed)))),
                Stmt::Let("eb".into(), false, None, Expr::EnumNew(0, 1, Box::new(mk(b, &mut seed)))),
                Stmt::Let("ec".into(), false, None, Expr::EnumNew(0, 2, Box::new(opq(u(3))))),
                Stmt::Let("ed".into(), false, None, Expr::EnumNew(0, 2, Box::new(opq(u(4))))),
                Stmt::Log(call("dig", vec![var("ea")])),
                Stmt::Log(call("dig", vec![var("eb")])),
                Stmt::Log(call("dig", vec![var("ec")])),
                Stmt::Log(call("dig", vec![var("ed")])),
                Stmt::Log(var("ea")),
                Stmt::Log(var("eb")),
                Stmt::Let("arr".into(), false, None, Expr::Array(vec![var("ea"), var("eb"), var("ec")])),
                Stmt::Log(call("dig", vec![Expr::Index(Box::new(var("arr")), Box::new(opq(u(1))))])),
            ];
            out.push(finish(format!("S3enum/A#{ai} B#{bi}"), "S3", prog, body));
        }
    }
    out
}

/// Array indexing: constant and variable in-bounds indices over arrays of length 1..3, while
/// loops over arrays, and (as a separate, explicitly labelled family) the out-of-bounds variable
/// index, which the semantics require to revert.
pub fn s3_arrays() -> Vec<Case> {
    let mut out = vec![];
    for len in 1..=3usize {
        for elt in [Ty::U8, Ty::U64, Ty::Tuple(vec![Ty::U64, Ty::Bool])] {
            let mut seed = 0;
            let arr_ty = Ty::Array(Box::new(elt.clone()), len);
            let v = build_value(&arr_ty, &Decls::default(), &mut seed);
            // sum / log through a while loop with variable index
            let body = vec![
                Stmt::Let("a".into(), false, None, build_expr(&v)),
                Stmt::Let("i".into(), true, None, u(0)),
                Stmt::While(
                    bin(BinOp::Lt, var("i"), u(len as u64)),
                    vec![
                        Stmt::Log(Expr::Index(Box::new(var("a")), Box::new(var("i")))),
                        Stmt::Assign(LValue::Var("i".into()), bin(BinOp::Add, var("i"), u(1))),
                    ],
                ),
            ];
            out.push(finish(
                format!("S3arr/len{len}/{} loop", elt.print(&Decls::default())),
                "S3",
                Program::default(),
                body,
            ));
            for idx in 0..=len {
                let body = vec![
                    Stmt::Let("a".into(), false, None, build_expr(&v)),
                    Stmt::Log(Expr::Index(Box::new(var("a")), Box::new(opq(u(idx as u64))))),
                ];
                let mut c = finish(
                    format!("S3arr/len{len}/{} [opq({idx})]", elt.print(&Decls::default())),
                    "S3",
                    Program::default(),
                    body,
                );
                if idx == len {
                    c.known_class = Some("oob-variable-index");
                }
                out.push(c);
            }
        }
    }
    out
}

// ---------------------------------------------------------------------------------------------
// S4 call graphs, near-duplicate functions, generics

fn s4_bodies() -> Vec<(&'static str, Block)> {
    let a = || var("a");
    let b = || var("b");
    let blk = |e: Expr| Block { stmts: vec![], result: Some(e) };
    let ife = |c: Expr, t: Expr, f: Expr| Expr::If(Box::new(c), Box::new(blk(t)), Box::new(blk(f)));
    vec![
        ("a+b", blk(bin(BinOp::Add, a(), b()))),
        ("b+a", blk(bin(BinOp::Add, b(), a()))),
        ("a+b+1", blk(bin(BinOp::Add, bin(BinOp::Add, a(), b()), u(1)))),
        ("a+b+2", blk(bin(BinOp::Add, bin(BinOp::Add, a(), b()), u(2)))),
        ("a*b", blk(bin(BinOp::Mul, a(), b()))),
        ("a&b", blk(bin(BinOp::And, a(), b()))),
        ("a|b", blk(bin(BinOp::Or, a(), b()))),
        ("min", blk(ife(bin(BinOp::Lt, a(), b()), a(), b()))),
        ("max", blk(ife(bin(BinOp::Gt, a(), b()), a(), b()))),
        ("le?", blk(ife(bin(BinOp::Le, a(), b()), a(), b()))),
        ("a<<1", blk(bin(BinOp::Shl, a(), u(1)))),
        ("a<<2", blk(bin(BinOp::Shl, a(), u(2)))),
        (
            "tup.0",
            Block {
                stmts: vec![Stmt::Let("t".into(), false, None, Expr::Tuple(vec![a(), b()]))],
                result: Some(Expr::TupleIdx(Box::new(var("t")), 0)),
            },
        ),
        (
            "tup.1",
            Block {
                stmts: vec![Stmt::Let("t".into(), false, None, Expr::Tuple(vec![a(), b()]))],
                result: Some(Expr::TupleIdx(Box::new(var("t")), 1)),
            },
        ),
        (
            "loop+",
            Block {
                stmts: vec![
                    Stmt::Let("i".into(), true, None, u(0)),
                    Stmt::Let("s".into(), true, None, a()),
                    Stmt::While(
                        bin(BinOp::Lt, var("i"), u(2)),
                        vec![
                            Stmt::Assign(LValue::Var("s".into()), bin(BinOp::Add, var("s"), b())),
                            Stmt::Assign(LValue::Var("i".into()), bin(BinOp::Add, var("i"), u(1))),
                        ],
                    ),
                ],
                result: Some(var("s")),
            },
        ),
        (
            "loop*",
            Block {
                stmts: vec![
                    Stmt::Let("i".into(), true, None, u(0)),
                    Stmt::Let("s".into(), true, None, a()),
                    Stmt::While(
                        bin(BinOp::Lt, var("i"), u(2)),
                        vec![
                            Stmt::Assign(LValue::Var("s".into()), bin(BinOp::Mul, var("s"), b())),
                            Stmt::Assign(LValue::Var("i".into()), bin(BinOp::Add, var("i"), u(1))),
                        ],
                    ),
                ],
                result: Some(var("s")),
            },
        ),
    ]
}

fn f2(name: &str, body: Block, inline: Inline) -> Func {
    Func {
        name: name.into(),
        generics: vec![],
        params: vec![
            ("a".into(), ParamMode::Value, Ty::U64, None),
            ("b".into(), ParamMode::Value, Ty::U64, None),
        ],
        ret: Ty::U64,
        ret_generic: None,
        body,
        inline,
    }
}

/// All ordered pairs of distinct bodies from the menu as two functions in one program (the
/// fn-dedup stressor: near-duplicates differing in one constant / operand order / predicate /
/// field index), under each inline attribute.
pub fn s4_pairs(inlines: &[Inline]) -> Vec<Case> {
    let bodies = s4_bodies();
    let mut out = vec![];
    for &inl in inlines {
        for (i, (ni, bi)) in bodies.iter().enumerate() {
            for (j, (nj, bj)) in bodies.iter().enumerate() {
                if i >= j {
                    continue;
                }
                let prog = Program {
                    decls: Decls::default(),
                    funcs: vec![f2("f", bi.clone(), inl), f2("g", bj.clone(), inl)],
                    ..Default::default()
                };
                let mut body = vec![];
                for (x, y) in [(5u64, 3u64), (3, 5), (4, 4)] {
                    body.push(Stmt::Log(call("f", vec![opq(u(x)), opq(u(y))])));
                    body.push(Stmt::Log(call("g", vec![opq(u(x)), opq(u(y))])));
                }
                out.push(finish(format!("S4pair/{inl:?}/{ni} vs {nj}"), "S4", prog, body));
            }
        }
    }
    out
}

/// Call DAGs over three functions: h calls f and g in each of a few combinators; every choice
/// of (f body, g body) from a 6-entry sub-menu.
pub fn s4_dags() -> Vec<Case> {
    let bodies: Vec<_> = s4_bodies().into_iter().take(8).collect();
    let mut out = vec![];
    let combos: Vec<(&str, Box<dyn Fn() -> Block>)> = vec![
        (
            "f(a,b)+g(b,a)",
            Box::new(|| Block {
                stmts: vec![],
                result: Some(bin(
                    BinOp::Add,
                    call("f", vec![var("a"), var("b")]),
                    call("g", vec![var("b"), var("a")]),
                )),
            }),
        ),
        (
            "g(f(a,b),b)",
            Box::new(|| Block {
                stmts: vec![],
                result: Some(call("g", vec![call("f", vec![var("a"), var("b")]), var("b")])),
            }),
        ),
        (
            "if f<g",
            Box::new(|| Block {
                stmts: vec![
                    Stmt::Let("p".into(), false, None, call("f", vec![var("a"), var("b")])),
                    Stmt::Let("q".into(), false, None, call("g", vec![var("a"), var("b")])),
                ],
                result: Some(Expr::If(
                    Box::new(bin(BinOp::Lt, var("p"), var("q"))),
                    Box::new(Block { stmts: vec![], result: Some(call("f", vec![var("q"), var("p")])) }),
                    Box::new(Block { stmts: vec![], result: Some(call("g", vec![var("p"), var("q")])) }),
                )),
            }),
        ),
    ];
    for (cn, mk) in &combos {
        for (ni, bi) in &bodies {
            for (nj, bj) in &bodies {
                for inl in [Inline::Never, Inline::Default] {
                    let prog = Program {
                        decls: Decls::default(),
                        funcs: vec![f2("f", bi.clone(), inl), f2("g", bj.clone(), inl), f2("h", mk(), Inline::Never)],
                        ..Default::default()
                    };
                    let body = vec![
                        Stmt::Log(call("h", vec![opq(u(5)), opq(u(3))])),
                        Stmt::Log(call("h", vec![opq(u(2)), opq(u(9))])),
                    ];
                    out.push(finish(format!("S4dag/{inl:?}/{cn} f={ni} g={nj}"), "S4", prog, body));
                }
            }
        }
    }
    out
}

/// Generic functions instantiated at two types each.
pub fn s4_generics() -> Vec<Case> {
    let mut out = vec![];
    let gid = Func {
        name: "gid".into(),
        generics: vec!["T".into()],
        params: vec![("x".into(), ParamMode::Value, Ty::Unit, Some("T".into()))],
        ret: Ty::Unit,
        ret_generic: Some("T".into()),
        body: Block { stmts: vec![], result: Some(var("x")) },
        inline: Inline::Never,
    };
    let gfst = Func {
        name: "gfst".into(),
        generics: vec!["T".into(), "U".into()],
        params: vec![
            ("x".into(), ParamMode::Value, Ty::Unit, Some("T".into())),
            ("y".into(), ParamMode::Value, Ty::Unit, Some("U".into())),
        ],
        ret: Ty::Unit,
        ret_generic: Some("T".into()),
        body: Block { stmts: vec![], result: Some(var("x")) },
        inline: Inline::Never,
    };
    let gsnd = Func {
        name: "gsnd".into(),
        generics: vec!["T".into(), "U".into()],
        params: vec![
            ("x".into(), ParamMode::Value, Ty::Unit, Some("T".into())),
            ("y".into(), ParamMode::Value, Ty::Unit, Some("U".into())),
        ],
        ret: Ty::Unit,
        ret_generic: Some("U".into()),
        body: Block { stmts: vec![], result: Some(var("y")) },
        inline: Inline::Never,
    };
    let vals: Vec<Value> = vec![
        int(8, 200),
        int(64, 77),
        Value::Bool(true),
        big(256, BigUint::from(9u8) << 130),
        Value::Tuple(vec![int(8, 1), int(64, 2)]),
        Value::Array(vec![int(64, 4), int(64, 5)]),
    ];
    for (i, v) in vals.iter().enumerate() {
        for (j, w) in vals.iter().enumerate() {
            let prog = Program {
                decls: Decls::default(),
                funcs: vec![gid.clone(), gfst.clone(), gsnd.clone()],
                ..Default::default()
            };
            let body = vec![
                Stmt::Log(call("gid", vec![build_expr(v)])),
                Stmt::Log(call("gid", vec![build_expr(w)])),
                Stmt::Log(call("gfst", vec![build_expr(v), build_expr(w)])),
                Stmt::Log(call("gsnd", vec![build_expr(v), build_expr(w)])),
                Stmt::Log(call("gsnd", vec![build_expr(w), build_expr(v)])),
            ];
            out.push(finish(format!("S4gen/v#{i} w#{j}"), "S4", prog, body));
        }
    }
    out
}

/// require / assert / early return shapes.
pub fn s2_reverts() -> Vec<Case> {
    let mut out = vec![];
    for x in [0u64, 1, 2] {
        for y in [0u64, 1, 2] {
            let body = vec![
                Stmt::Let("x".into(), false, None, opq(u(x))),
                Stmt::Let("y".into(), false, None, opq(u(y))),
                Stmt::Log(var("x")),
                Stmt::Require(bin(BinOp::Le, var("x"), var("y")), bin(BinOp::Add, var("x"), u(100))),
                Stmt::Log(var("y")),
                Stmt::Assert(bin(BinOp::Ne, var("x"), var("y"))),
                Stmt::Log(bin(BinOp::Sub, var("y"), var("x"))),
                Stmt::Log(bin(BinOp::Div, var("y"), var("x"))),
            ];
            out.push(finish(format!("S2rev/x{x} y{y}"), "S2", Program::default(), body));
        }
    }
    out
}

// ---------------------------------------------------------------------------------------------
// Register-pressure ladder (C08)

#[derive(Clone, Copy, Debug, PartialEq, Eq)]
pub enum LadderShape {
    Straight,
    CallInMiddle,
    LoopCarried,
    Diamond,
    NestedLoops,
    Aggregate,
}

pub const LADDER_SHAPES: [LadderShape; 6] = [
    LadderShape::Straight,
    LadderShape::CallInMiddle,
    LadderShape::LoopCarried,
    LadderShape::Diamond,
    LadderShape::NestedLoops,
    LadderShape::Aggregate,
];

fn mix(acc: Expr, v: Expr) -> Expr {
    // non-commutative, never reverts: (acc << 1) ^ v
    bin(BinOp::Xor, bin(BinOp::Shl, acc, u(1)), v)
}

/// A function with `k` simultaneously-live opaque values folded with a non-commutative mixer, so
/// that any clobbered register changes the result.
pub fn ladder(shape: LadderShape, k: usize) -> Case {
    let mut stmts = vec![];
    for i in 0..k {
        stmts.push(Stmt::Let(
            format!("v{i}"),
            false,
            None,
            opq(bin(BinOp::Add, var("s"), u(i as u64 * 3 + 1))),
        ));
    }
    stmts.push(Stmt::Let("acc".into(), true, None, u(0)));
    let fold = |range: std::ops::Range<usize>| -> Vec<Stmt> {
        range
            .map(|i| Stmt::Assign(LValue::Var("acc".into()), mix(var("acc"), var(&format!("v{i}")))))
            .collect()
    };
    match shape {
        LadderShape::Straight => stmts.extend(fold(0..k)),
        LadderShape::CallInMiddle => {
            stmts.extend(fold(0..k / 2));
            stmts.push(Stmt::Assign(
                LValue::Var("acc".into()),
                call("mid", vec![var("acc"), var("s")]),
            ));
            stmts.extend(fold(k / 2..k));
        }
        LadderShape::LoopCarried => {
            stmts.push(Stmt::Let("i".into(), true, None, u(0)));
            let mut b = fold(0..k);
            b.push(Stmt::Assign(LValue::Var("i".into()), bin(BinOp::Add, var("i"), u(1))));
            stmts.push(Stmt::While(bin(BinOp::Lt, var("i"), u(2)), b));
        }
        LadderShape::Diamond => {
            stmts.push(Stmt::If(
                bin(BinOp::Eq, bin(BinOp::And, var("s"), u(1)), u(0)),
                fold(0..k / 2),
                fold(k / 2..k),
            ));
            stmts.extend(fold(0..k));
        }
        LadderShape::NestedLoops => {
            stmts.push(Stmt::Let("i".into(), true, None, u(0)));
            stmts.push(Stmt::Let("j".into(), true, None, u(0)));
            let mut inner = fold(k / 2..k);
            inner.push(Stmt::Assign(LValue::Var("j".into()), bin(BinOp::Add, var("j"), u(1))));
            let mut outer = fold(0..k / 2);
            outer.push(Stmt::Assign(LValue::Var("j".into()), u(0)));
            outer.push(Stmt::While(bin(BinOp::Lt, var("j"), u(2)), inner));
            outer.push(Stmt::Assign(LValue::Var("i".into()), bin(BinOp::Add, var("i"), u(1))));
            stmts.push(Stmt::While(bin(BinOp::Lt, var("i"), u(2)), outer));
        }
        LadderShape::Aggregate => {
            stmts.push(Stmt::Let(
                "t".into(),
                true,
                None,
                Expr::Tuple(vec![var("s"), bin(BinOp::Add, var("s"), u(1)), var("s")]),
            ));
            stmts.extend(fold(0..k / 2));
            stmts.push(Stmt::Assign(
                LValue::TupleIdx(Box::new(LValue::Var("t".into())), 1),
                var("acc"),
            ));
            stmts.push(Stmt::Assign(
                LValue::Var("t".into()),
                call("agg", vec![var("t")]),
            ));
            stmts.extend(fold(k / 2..k));
            stmts.push(Stmt::Assign(
                LValue::Var("acc".into()),
                mix(var("acc"), Expr::TupleIdx(Box::new(var("t")), 1)),
            ));
        }
    }
    let f = Func {
        name: "lad".into(),
        generics: vec![],
        params: vec![("s".into(), ParamMode::Value, Ty::U64, None)],
        ret: Ty::U64,
        ret_generic: None,
        body: Block { stmts, result: Some(var("acc")) },
        inline: Inline::Never,
    };
    let mid = f2(
        "mid",
        Block {
            stmts: vec![],
            result: Some(mix(var("a"), var("b"))),
        },
        Inline::Never,
    );
    let t3 = Ty::Tuple(vec![Ty::U64, Ty::U64, Ty::U64]);
    let agg = Func {
        name: "agg".into(),
        generics: vec![],
        params: vec![("t0".into(), ParamMode::Value, t3.clone(), None)],
        ret: t3,
        ret_generic: None,
        body: Block {
            stmts: vec![
                Stmt::Let("t".into(), true, None, var("t0")),
                Stmt::Assign(
                    LValue::TupleIdx(Box::new(LValue::Var("t".into())), 1),
                    mix(
                        Expr::TupleIdx(Box::new(var("t")), 1),
                        Expr::TupleIdx(Box::new(var("t")), 0),
                    ),
                ),
            ],
            result: Some(var("t")),
        },
        inline: Inline::Never,
    };
    let prog = Program {
        decls: Decls::default(),
        funcs: vec![f, mid, agg],
        ..Default::default()
    };
    let body = vec![
        Stmt::Log(call("lad", vec![opq(u(10))])),
        Stmt::Log(call("lad", vec![opq(u(11))])),
    ];
    finish(format!("ladder/{shape:?}/k{k}"), "ladder", prog, body)
}

// ---------------------------------------------------------------------------------------------
// The standard corpus shared by C01, C02, C03, C04, C05, C07, C08

pub fn corpus(thorough: bool) -> Vec<Case> {
    let mut v = vec![];
    v.extend(s1_depth1(&INT_WIDTHS, true));
    v.extend(s1_casts(true));
    v.extend(s2_reverts());
    v.extend(s2(1));
    v.extend(s2(2));
    if thorough {
        v.extend(s2(3));
    }
    v.extend(s3(0));
    v.extend(s3(1));
    if thorough {
        v.extend(s3(2));
    } else {
        v.extend(s3_size2_small());
    }
    v.extend(s3_enums());
    v.extend(s3_arrays());
    v.extend(s4_pairs(if thorough {
        &[Inline::Never, Inline::Default, Inline::Always]
    } else {
        &[Inline::Never, Inline::Default]
    }));
    v.extend(s4_dags());
    v.extend(s4_generics());
    let ks: Vec<usize> = if thorough {
        (1..=64).collect()
    } else {
        vec![1, 8, 16, 32, 40, 44, 48, 52, 56, 64]
    };
    for shape in LADDER_SHAPES {
        for &k in &ks {
            v.push(ladder(shape, k));
        }
    }
    if thorough {
        v.extend(s1_depth2(&[8, 64, 256], true));
    }
    v
}

/// Literal-operand (compile-time visible) variants for C06-style folding checks.
pub fn corpus_literal(thorough: bool) -> Vec<Case> {
    let mut v = vec![];
    v.extend(s1_depth1(&INT_WIDTHS, false));
    v.extend(s1_casts(false));
    if thorough {
        v.extend(s1_depth2(&[8, 64, 256], false));
    }
    v
}

// ---------------------------------------------------------------------------------------------
// Shapes aimed at the abstract-instruction optimiser (C07): constants live across labels and loop
// back-edges, registers that hold a known constant and are then modified in a loop, constant
// indexed aggregate traffic, move chains, jumps to the next instruction.

pub fn asm_shapes() -> Vec<Case> {
    let mut out = vec![];
    let asg = |n: &str, e: Expr| Stmt::Assign(LValue::Var(n.into()), e);
    for k0 in [0u64, 1, 5, 262143, 262144] {
        for trips in [0u64, 1, 3] {
            for inc in [1u64, 2, 4096] {
                // k is a known constant before the loop header and modified inside the loop
                let body = vec![
                    Stmt::Let("k".into(), true, None, u(k0)),
                    Stmt::Let("i".into(), true, None, u(0)),
                    Stmt::Let("n".into(), false, None, opq(u(trips))),
                    Stmt::While(
                        bin(BinOp::Lt, var("i"), var("n")),
                        vec![
                            Stmt::Log(var("k")),
                            asg("k", bin(BinOp::Add, var("k"), u(inc))),
                            asg("i", bin(BinOp::Add, var("i"), u(1))),
                        ],
                    ),
                    Stmt::Log(var("k")),
                    Stmt::Log(bin(BinOp::Add, var("k"), u(k0))),
                ];
                out.push(finish(format!("asm/loopconst k0={k0} trips={trips} inc={inc}"), "asm", Program::default(), body));
            }
        }
    }
    for c in [0u64, 1, 7, 4095, 4096, 262143, 262144, 1 << 40] {
        // the same constant materialised before a branch, in both arms and after the join
        let body = vec![
            Stmt::Let("a".into(), false, None, opq(u(3))),
            Stmt::Let("x".into(), true, None, u(c)),
            Stmt::If(
                bin(BinOp::Lt, var("a"), u(5)),
                vec![asg("x", bin(BinOp::Add, var("x"), u(c))), Stmt::Log(var("x"))],
                vec![asg("x", u(c)), Stmt::Log(u(c))],
            ),
            Stmt::Log(var("x")),
            Stmt::Log(bin(BinOp::Xor, var("x"), u(c))),
            Stmt::Let("y".into(), false, None, var("x")),
            Stmt::Let("z".into(), false, None, var("y")),
            Stmt::Log(bin(BinOp::Add, var("z"), var("a"))),
        ];
        out.push(finish(format!("asm/branchconst c={c}"), "asm", Program::default(), body));
    }
    for len in [2usize, 3] {
        for wi in 0..len {
            for ri in 0..len {
                // constant-indexed writes and reads of an array of tuples, in and around a loop
                let elt = |i: u64| Expr::Tuple(vec![opq(u(10 + i)), opq(u(20 + i))]);
                let body = vec![
                    Stmt::Let("arr".into(), true, None, Expr::Array((0..len as u64).map(elt).collect())),
                    Stmt::Assign(
                        LValue::TupleIdx(Box::new(LValue::Index(Box::new(LValue::Var("arr".into())), u(wi as u64))), 1),
                        u(99),
                    ),
                    Stmt::Let("i".into(), true, None, u(0)),
                    Stmt::While(
                        bin(BinOp::Lt, var("i"), u(2)),
                        vec![
                            Stmt::Assign(
                                LValue::TupleIdx(Box::new(LValue::Index(Box::new(LValue::Var("arr".into())), u(ri as u64))), 0),
                                bin(
                                    BinOp::Add,
                                    Expr::TupleIdx(Box::new(Expr::Index(Box::new(var("arr")), Box::new(u(ri as u64)))), 0),
                                    Expr::TupleIdx(Box::new(Expr::Index(Box::new(var("arr")), Box::new(u(wi as u64)))), 1),
                                ),
                            ),
                            asg("i", bin(BinOp::Add, var("i"), u(1))),
                        ],
                    ),
                    Stmt::Log(var("arr")),
                    Stmt::Log(Expr::TupleIdx(Box::new(Expr::Index(Box::new(var("arr")), Box::new(u(ri as u64)))), 0)),
                ];
                out.push(finish(format!("asm/constidx len={len} w={wi} r={ri}"), "asm", Program::default(), body));
            }
        }
    }
    out.extend(asm_kernels(3));
    out
}

/// Inline-asm kernels for the abstract-instruction optimiser: EVERY sequence of up to `max_len`
/// pointer-arithmetic / load / store instructions over a 16-word heap buffer (`buf[k] = 100 + k`),
/// a pointer `p` (starts at &buf[2]), a derived pointer `q` (starts at &buf[5]), a run-time
/// displacement `d` (8) and a run-time value `v` (77). Result = last loaded word * 100003 + the
/// sum of all 16 words, computed by a word-array reference machine. Sequences that would leave
/// the buffer are skipped. The shapes: in-place bumps of a register whose content the optimiser
/// knows / does not know, derived pointers, copies, constant-offset loads and stores.
pub fn asm_kernels(max_len: usize) -> Vec<Case> {
    const OPS: [&str; 9] = [
        "addi p p i8;", "addi p p i16;", "addi q p i8;", "move p q;", "add p p d;", "lw x p i0;", "lw x p i1;", "sw p v i0;", "sw p v i1;",
    ];
    let mut out = vec![];
    let mut seqs: Vec<Vec<usize>> = vec![vec![]];
    let mut all: Vec<Vec<usize>> = vec![];
    for _ in 0..max_len {
        let mut next = vec![];
        for sq in &seqs {
            for o in 0..OPS.len() {
                let mut n = sq.clone();
                n.push(o);
                next.push(n);
            }
        }
        all.extend(next.iter().cloned());
        seqs = next;
    }
    'seq: for sq in all {
        // reference machine
        let mut buf: Vec<u64> = (0..16).map(|k| 100 + k).collect();
        let (mut pi, mut qi, mut x) = (2usize, 5usize, 0u64);
        for o in &sq {
            match o {
                0 => pi += 1,
                1 => pi += 2,
                2 => qi = pi + 1,
                3 => pi = qi,
                4 => pi += 1,
                5 | 6 => {
                    let i = pi + (*o - 5);
                    if i >= 16 {
                        continue 'seq;
                    }
                    x = buf[i];
                }
                _ => {
                    let i = pi + (*o - 7);
                    if i >= 16 {
                        continue 'seq;
                    }
                    buf[i] = 77;
                }
            }
            if pi >= 16 || qi >= 16 {
                continue 'seq;
            }
        }
        let result = x * 100003 + buf.iter().sum::<u64>();
        let mut t = String::from("asm(d: opq(8u64), v: opq(77u64), a, c, p, q, x, y, t) { movi a i128; aloc a; ");
        for k in 0..16 {
            t.push_str(&format!("movi c i{}; sw hp c i{k}; ", 100 + k));
        }
        t.push_str("addi p hp i16; addi q hp i40; movi x i0; ");
        for o in &sq {
            t.push_str(OPS[*o]);
            t.push(' ');
        }
        t.push_str("movi y i0; ");
        for k in 0..16 {
            t.push_str(&format!("lw t hp i{k}; add y y t; "));
        }
        t.push_str("movi t i100003; mul x x t; add x x y; x: u64 }");
        let name: String = sq.iter().map(|o| char::from(b'a' + *o as u8)).collect();
        let body = vec![Stmt::Log(Expr::Raw(t, Box::new(u(result))))];
        out.push(finish(format!("asmk/{name}"), "asmk", Program::default(), body));
    }
    out
}

/// Compact corpus for the pipeline-variant checks (C03/C04/C05), where every case is rebuilt
/// under dozens of pipelines: everything except the bulk of S1 (kept: u8 and u256, opaque and
/// literal, over the small boundary alphabet).
pub fn corpus_compact(thorough: bool) -> Vec<Case> {
    let mut v: Vec<Case> = corpus(thorough)
        .into_iter()
        .filter(|c| !c.space.starts_with("S1") && !(c.space == "ladder" && !thorough && !c.desc.ends_with("k8") && !c.desc.ends_with("k48")))
        .collect();
    v.extend(s1_small(true));
    v.extend(s1_small(false));
    v.extend(s1_casts(true));
    v.extend(asm_shapes());
    v
}

fn s1_small(opaque: bool) -> Vec<Case> {
    let mut out = vec![];
    let mode = if opaque { "opq" } else { "lit" };
    for bits in [8u16, 64, 256] {
        let vals = small_boundary(bits);
        for op in all_binops() {
            let rhs: Vec<Value> = if matches!(op, BinOp::Shl | BinOp::Shr) {
                [0u64, 1, bits as u64 - 1, bits as u64, 64].iter().map(|a| int(64, *a)).collect()
            } else {
                vals.iter().map(|b| big(bits, b.clone())).collect()
            };
            for a in &vals {
                for b in &rhs {
                    let e = bin(op, operand(big(bits, a.clone()), opaque), operand(b.clone(), opaque));
                    // literal operands whose evaluation reverts may be rejected at compile time:
                    // keep only the non-reverting ones in literal mode
                    let c = finish(
                        format!("S1s/{mode}/u{bits} {a} {} {}", op.sym(), b.print(&Decls::default())),
                        "S1s",
                        Program::default(),
                        vec![Stmt::Log(e)],
                    );
                    if !opaque && matches!(c.expect, Expect::Revert(..)) {
                        continue;
                    }
                    out.push(c);
                }
            }
        }
    }
    out
}

//! Replay artefacts for program cases: a minimal single-case package plus the expected outcome.
use crate::campaign::*;
use crate::gen::*;
use serde_json::json;

pub fn expect_json(e: &Expect) -> serde_json::Value {
    match e {
        Expect::Ok(l) => json!({"kind": "ok", "logs": l.iter().map(hex::encode).collect::<Vec<_>>()}),
        Expect::Revert(c, l) => json!({"kind": "revert", "code": c, "logs": l.iter().map(hex::encode).collect::<Vec<_>>()}),
    }
}

pub fn expect_from_json(v: &serde_json::Value) -> Option<Expect> {
    let logs: Vec<Vec<u8>> = v["logs"].as_array()?.iter().filter_map(|s| hex::decode(s.as_str()?).ok()).collect();
    match v["kind"].as_str()? {
        "ok" => Some(Expect::Ok(logs)),
        "revert" => Some(Expect::Revert(v["code"].as_u64()?, logs)),
        _ => None,
    }
}

pub fn case_replay_json(case: &Case, label: &str, release: bool) -> serde_json::Value {
    json!({
        "desc": case.desc,
        "build": label,
        "release": release,
        "package_main_sw": render_package(std::slice::from_ref(case)),
        "test": "t0",
        "expect": expect_json(&case.expect),
        "how": "write package_main_sw as src/main.sw of a script package depending on /repo/sway-lib-std, run `forc test [--release]`, compare test t0's logs / revert code",
    })
}

/// `replay <ID> <file>`: rebuild the stored package alone through the plain forc path and compare.
pub fn replay_case(a: &vhcore::Args) -> i32 {
    let path = a.replay.clone().unwrap_or_else(|| vhcore::machinery_failure("replay needs a file"));
    let v: serde_json::Value = serde_json::from_str(&std::fs::read_to_string(&path).unwrap_or_else(|e| vhcore::machinery_failure(&format!("{e}"))))
        .unwrap_or_else(|e| vhcore::machinery_failure(&format!("{e}")));
    let r = &v["replay"];
    let src = r["package_main_sw"].as_str().unwrap_or_else(|| vhcore::machinery_failure("replay file has no package"));
    let expect = expect_from_json(&r["expect"]);
    let release = r["release"].as_bool().unwrap_or(false);
    let pool = crate::pool::Pool::new(1, vhcore::work_dir(&format!("{}-replay", a.id)));
    let req = crate::worker::Request {
        id: 0,
        name: "replay_pkg".into(),
        src: src.to_string(),
        extra_files: vec![],
        with_std: true,
        existing_dir: None,
        builds: vec![crate::worker::BuildSpec { label: "replay".into(), release, run_tests: true, mode_a: true, want_diagnostics: true, ..Default::default() }],
    };
    match pool.run(&[req]).pop().unwrap() {
        Err(e) => {
            println!("worker failure: {e}");
            1
        }
        Ok(resp) => {
            let b = &resp.builds[0];
            println!("build ok={} error={} panic={:?}@{}", b.ok, b.error, b.panic, b.panic_loc);
            for t in &b.tests {
                println!("  {} -> {:?}", t.name, t.outcome);
            }
            match (expect, crate::worker::tests_map(b).get("t0")) {
                (Some(e), Some(o)) => match expect_mismatch(o, &e) {
                    Some(m) => {
                        println!("STILL VIOLATES: {m}");
                        1
                    }
                    None => {
                        println!("matches the expectation now");
                        0
                    }
                },
                _ => {
                    println!("no comparable outcome");
                    1
                }
            }
        }
    }
}

//! C06 cases: every S1 expression evaluated in compile-time contexts — a module-level `const`, a
//! `configurable`, a const initialised by a call of a const-evaluable function from a menu of
//! bodies — next to the same expression on opaque operands at run time.
use crate::gen::*;
use crate::spaces::*;

#[derive(Clone, Copy, Debug, PartialEq, Eq)]
pub enum Ctx {
    Const,
    Configurable,
    ConstFnDirect,
    ConstFnLets,
    ConstFnIf,
    ConstFnTuple,
    ConstFnNested,
}

pub const CONTEXTS: [Ctx; 7] = [
    Ctx::Const,
    Ctx::Configurable,
    Ctx::ConstFnDirect,
    Ctx::ConstFnLets,
    Ctx::ConstFnIf,
    Ctx::ConstFnTuple,
    Ctx::ConstFnNested,
];

fn result_ty(op: BinOp, bits: u16) -> String {
    if BinOp::CMP.contains(&op) {
        "bool".into()
    } else {
        format!("u{bits}")
    }
}

/// One case: `log(<compile-time item>); log(opq(a) op opq(b));`
pub fn case(ctx: Ctx, bits: u16, op: BinOp, a: &Value, b: &Value) -> Case {
    let d = Decls::default();
    let ta = format!("u{bits}");
    let tb = match b {
        Value::Int { bits, .. } => format!("u{bits}"),
        _ => unreachable!(),
    };
    let rt = result_ty(op, bits);
    let lit_expr = bin(op, lit(a.clone()), lit(b.clone()));
    let lit_src = format!("{} {} {}", a.print(&d), op.sym(), b.print(&d));
    let mut prog = Program::default();
    let item_ref = match ctx {
        Ctx::Const => {
            prog.raw_items.push(format!("const {{P}}X: {rt} = {lit_src};"));
            "{P}X".to_string()
        }
        Ctx::Configurable => {
            prog.configurables.push(format!("{{P}}K: {rt} = {lit_src}"));
            "{P}K".to_string()
        }
        other => {
            let body = match other {
                Ctx::ConstFnDirect => format!("a {} b", op.sym()),
                Ctx::ConstFnLets => format!("let x = a; let y = b; x {} y", op.sym()),
                Ctx::ConstFnIf => format!("if true {{ a {} b }} else {{ b {} a }}", op.sym(), op.sym()),
                Ctx::ConstFnTuple => format!("let t = (a, b); t.0 {} t.1", op.sym()),
                Ctx::ConstFnNested => format!("{{P}}ida(a) {} {{P}}idb(b)", op.sym()),
                _ => unreachable!(),
            };
            if other == Ctx::ConstFnNested {
                prog.raw_items.push(format!("fn {{P}}ida(x: {ta}) -> {ta} {{ x }}"));
                prog.raw_items.push(format!("fn {{P}}idb(x: {tb}) -> {tb} {{ x }}"));
            }
            // lower-case prefix for functions keeps the snake-case lint quiet; names stay unique
            prog.raw_items.push(format!("fn {{P}}cf(a: {ta}, b: {tb}) -> {rt} {{ {body} }}"));
            prog.raw_items.push(format!("const {{P}}X: {rt} = {{P}}cf({}, {});", a.print(&d), b.print(&d)));
            "{P}X".to_string()
        }
    };
    let body = vec![
        Stmt::Log(Expr::Raw(item_ref, Box::new(lit_expr))),
        Stmt::Log(bin(op, opq(lit(a.clone())), opq(lit(b.clone())))),
    ];
    let expect = match Interp::run_test(&prog, &body) {
        Ok(e) => e,
        Err(s) => vhcore::machinery_failure(&format!("C06 reference stuck: {s}")),
    };
    Case {
        desc: format!("C06/{ctx:?}/u{bits} {lit_src}"),
        space: "C06",
        prog,
        body,
        expect,
        known_class: None,
    }
}

pub fn cases(widths: &[u16], contexts: &[Ctx], small: bool) -> Vec<Case> {
    let mut out = vec![];
    for &ctx in contexts {
        for &bits in widths {
            let vals = if small { small_boundary(bits) } else { boundary(bits) };
            for op in all_binops() {
                let rhs: Vec<Value> = if matches!(op, BinOp::Shl | BinOp::Shr) {
                    shift_amounts(bits).into_iter().map(|a| int(64, a)).collect()
                } else {
                    vals.iter().map(|b| big(bits, b.clone())).collect()
                };
                for a in &vals {
                    for b in &rhs {
                        out.push(case(ctx, bits, op, &big(bits, a.clone()), b));
                    }
                }
            }
        }
    }
    out
}

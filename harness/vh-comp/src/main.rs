fn main() {
    let a = vhcore::parse_args();
    vhcore::machinery_failure(&format!("no check {:?} in this binary yet", a.id));
}

//! C09 — ABI encoding is canonical and round-trips (DESIGN.md §4 C09).
//!
//! Declared space: every type tree with at most N edges (quick N = 2, thorough N = 3) over the
//! 13 leaves {u8,u16,u32,u64,u256,bool,b256,str[1],str[3],str[8],str,Bytes,String} and the 10
//! constructors {[T;1],[T;2],(A,B),struct{A},struct{A,B},enum{A,()},enum{A,B},Option<T>,
//! Result<A,B>,Vec<T>}; for every type every value built from the per-leaf boundary values
//! (abigen::values). One `#[test]` entry per (type, value): `log(v)`, `log(encode(v))`,
//! `log(abi_decode::<T>(canonical bytes of the reference encoder))`.
//! Oracle: own Fuel-ABI-v1 encoder driven by the build's JSON ABI; the logged type's JSON ABI
//! description must be isomorphic to the generated type tree.
use serde_json::json;
use vh_comp::abigen::*;
use vh_comp::pool::Pool;

fn main() {
    let a = vhcore::parse_args();
    vh_comp::maybe_serve_worker(&a);
    vh_comp::install_panic_hook();
    let code = match a.cmd.as_str() {
        "check" => run(&a),
        "replay" => replay_cmd(&a),
        "dev" => dev_cmd(&a),
        _ => vhcore::machinery_failure("usage: c09 check C09 --tier quick|thorough | replay C09 <file>"),
    };
    std::process::exit(code);
}

fn env_usize(k: &str, d: usize) -> usize {
    std::env::var(k).ok().and_then(|s| s.parse().ok()).unwrap_or(d)
}

fn run(a: &vhcore::Args) -> i32 {
    let mut rep = vhcore::Reporter::from_args(a, "exploration");
    let thorough = a.tier == vhcore::Tier::Thorough;
    let max_edges = env_usize("VH_C09_EDGES", if thorough { 3 } else { 2 });
    let cap = env_usize("VH_C09_CAP", 3);
    let sp = space(max_edges);
    let (oracle_values, _) = oracle_self_test(&sp.types, cap);

    let mut cases = vec![];
    for t in &sp.types {
        for v in values(t, cap) {
            cases.push(Case::new(t, &v, Kind::RoundTrip));
        }
    }
    if cases.len() as u64 != oracle_values {
        vhcore::machinery_failure("case list and oracle self-test disagree on the number of values");
    }
    // Encode-buffer boundary family: the encoder appends into a heap buffer of capacity 1024 that
    // grows on demand; dynamically sized leaves (u64 length + payload) whose encoding ends in the
    // last bytes before / exactly at / just past that capacity, alone and with a neighbour encoded
    // before or after them.
    let mut boundary = 0u64;
    {
        let text = |n: usize| -> String { (0..n).map(|i| (b'a' + (i % 26) as u8) as char).collect() };
        let lens = [1007usize, 1008, 1009, 1015, 1016, 1017, 1020, 1024, 1025];
        let mut push = |t: Ty, v: Val| {
            cases.push(Case::new(&t, &v, Kind::RoundTrip));
            boundary += 1;
        };
        for &l in &lens {
            push(Ty::Str, Val::Str(text(l)));
        }
        for &l in &lens {
            push(Ty::String, Val::String(text(l)));
        }
        for &l in &[1017usize, 1024] {
            push(Ty::Bytes, Val::Bytes((0..l).map(|i| (i % 251) as u8).collect()));
        }
        for &l in &lens {
            push(Ty::Tup(Box::new(Ty::U64), Box::new(Ty::Str)), Val::Agg(vec![Val::U(0x0102_0304_0506_0708), Val::Str(text(l))]));
        }
        for &l in &lens {
            push(Ty::Tup(Box::new(Ty::Str), Box::new(Ty::Str)), Val::Agg(vec![Val::Str(text(l)), Val::Str("xyz".into())]));
        }
        for &l in &lens {
            push(Ty::Tup(Box::new(Ty::String), Box::new(Ty::String)), Val::Agg(vec![Val::String(text(l)), Val::String(text(5))]));
        }
    }
    let plan = stages(&cases, max_edges > 2, env_usize("VH_C09_CHUNK_TYPES", 2500));
    if std::env::var("VH_STATS_ONLY").is_ok() {
        println!("types={} cases={} stages={:?}", sp.types.len(), cases.len(), plan.iter().map(|s| (s.label.clone(), s.idx.len())).collect::<Vec<_>>());
        return 0;
    }
    let mut pool = Pool::new(a.jobs, vhcore::work_dir("C09"));
    pool.timeout = std::time::Duration::from_secs(1500);
    let mut outcomes = vhcore::Distinct::default();
    let mut encodings = vhcore::Distinct::default();
    let mut release_cases = 0u64;
    let camp = run_stages(
        &mut rep,
        &pool,
        &cases,
        &plan,
        "c09",
        env_usize("VH_C09_BATCH", 120),
        env_usize("VH_C09_BUDGET_S", if thorough { 660 } else { 70 }) as u64,
        &mut |c, r, release| {
            outcomes.add(&format!("{:?}", r.outcome));
            if release {
                release_cases += 1;
            }
            if r.judged.fails.is_empty() && c.canonical.len() >= 2 {
                encodings.add(&(c.ty.show(), &c.canonical));
            }
        },
    );
    if outcomes.len() < 2 {
        vhcore::machinery_failure("vacuous: fewer than 2 distinct observed outcomes");
    }
    rep.set("evaluations", camp.evals);
    rep.set("distinct_nontrivial", encodings.len() as u64);
    rep.set(
        "rule",
        "distinct (type, canonical encoding of ≥ 2 bytes) pairs whose three observations (log(v), encode(v), re-encoded abi_decode of the reference bytes) all matched the reference encoder",
    );
    rep.set("types", sp.types.len() as u64);
    rep.set("types_per_size_in_edges", json!(sp.per_size));
    rep.set("max_edges", max_edges as u64);
    rep.set("values", cases.len() as u64);
    rep.set("encode_buffer_boundary_values", boundary);
    rep.set("values_also_run_in_release_profile", release_cases);
    rep.set("stages", json!(camp.stages_done));
    rep.set("distinct_outcomes", outcomes.len() as u64);
    rep.set("packages", camp.packages as u64);
    rep.set("packages_rebuilt_by_bisection", camp.rebuilt as u64);
    rep.set("failing_cases", camp.failing as u64);
    rep.set("failing_cases_confirmed_alone_modeA", camp.confirmed as u64);
    rep.set("modeF_equals_modeA", camp.self_check.clone());
    rep.set("exhaustive", camp.exhaustive);
    rep.set("value_product_cap", cap as u64);
    for i in [0usize, cases.len() / 7, cases.len() / 3, cases.len() / 2, cases.len() - 1] {
        let c = &cases[i];
        rep.sample(json!({"type": c.ty.show(), "value": c.val.show(), "canonical": hex::encode(&c.canonical)}));
    }
    rep.assume("size of a type tree = number of edges (nodes − 1); leaves have size 0");
    rep.assume("values: full cartesian product of the members' boundary values when it has ≤ cap elements, else the each-choice cover; nested types contribute their first `cap` values; Vec<T>: empty, one-element, two-element and one three-element vector (abigen::values)");
    rep.assume("thorough: debug profile on the whole space, release profile on the types with ≤ 2 edges");
    rep.assume("script-main ReturnData variant of DESIGN C09 is not exercised (logs and in-program decode only)");
    rep.assume("reference encoder is not cross-checked against fuels-core (not a harness dependency)");
    rep.finish()
}

//! C09 — ABI encoding is canonical and round-trips (DESIGN.md §4 C09).
//!
//! Declared space: every type tree with at most N edges (quick N = 2, thorough N = 3) over the
//! 13 leaves {u8,u16,u32,u64,u256,bool,b256,str[1],str[3],str[8],str,Bytes,String} and the 10
//! constructors {[T;1],[T;2],(A,B),struct{A},struct{A,B},enum{A,()},enum{A,B},Option<T>,
//! Result<A,B>,Vec<T>}; for every type every value built from the per-leaf boundary values
//! (abigen::values). One `#[test]` entry per (type, value): `log(v)`, `log(encode(v))`,
//! `log(abi_decode::<T>(canonical bytes of the reference encoder))`.
//! Oracle: own Fuel-ABI-v1 encoder driven by the build's JSON ABI; the logged type's JSON ABI
//! description must be isomorphic to the generated type tree.
use serde_json::json;
use vh_comp::abigen::*;
use vh_comp::pool::Pool;

fn main() {
    let a = vhcore::parse_args();
    vh_comp::maybe_serve_worker(&a);
    vh_comp::install_panic_hook();
    let code = match a.cmd.as_str() {
        "check" => run(&a),
        "replay" => replay_cmd(&a),
        "dev" => dev_cmd(&a),
        _ => vhcore::machinery_failure("usage: c09 check C09 --tier quick|thorough | replay C09 <file>"),
    };
    std::process::exit(code);
}

fn env_usize(k: &str, d: usize) -> usize {
    std::env::var(k).ok().and_then(|s| s.parse().ok()).unwrap_or(d)
}

fn run(a: &vhcore::Args) -> i32 {
    let mut rep = vhcore::Reporter::from_args(a, "exploration");
    let thorough = a.tier == vhcore::Tier::Thorough;
    let max_edges = env_usize("VH_C09_EDGES", if thorough { 3 } else { 2 });
    let cap = env_usize("VH_C09_CAP", if thorough { 3 } else { 4 });
    let sp = space(max_edges);
    let (oracle_values, _) = oracle_self_test(&sp.types, cap);

    let mut cases = vec![];
    for t in &sp.types {
        for v in values(t, cap) {
            cases.push(Case::new(t, &v, Kind::RoundTrip));
        }
    }
    if cases.len() as u64 != oracle_values {
        vhcore::machinery_failure("case list and oracle self-test disagree on the number of values");
    }
    if std::env::var("VH_STATS_ONLY").is_ok() {
        println!("types={} cases={}", sp.types.len(), cases.len());
        return 0;
    }
    let mut pool = Pool::new(a.jobs, vhcore::work_dir("C09"));
    pool.timeout = std::time::Duration::from_secs(1500);
    let mut evals = 0u64;
    let mut outcomes = vhcore::Distinct::default();
    let mut encodings = vhcore::Distinct::default();
    let mut total_fail = 0usize;
    let mut total_confirmed = 0usize;
    let mut self_check = String::new();
    let mut packages = 0usize;
    let mut rebuilt = 0usize;
    // debug profile on the whole space; thorough adds the release profile on the types of the
    // quick space (≤ 2 edges)
    let profiles: Vec<bool> = if thorough { vec![false, true] } else { vec![false] };
    let release_edges = env_usize("VH_C09_RELEASE_EDGES", 2);
    let mut release_cases = 0u64;
    for (pi, release) in profiles.iter().enumerate() {
        let cfg = RunCfg {
            prefix: format!("c09{}", if *release { "r" } else { "d" }),
            release: *release,
            max_cases: env_usize("VH_C09_BATCH", 120).min((cases.len() / (2 * a.jobs.max(1))).max(24)),
            max_words: 2500,
        };
        let sel: Vec<Case> = if *release {
            cases.iter().filter(|c| c.ty.edges() <= release_edges).cloned().collect()
        } else {
            cases.clone()
        };
        if *release {
            release_cases = sel.len() as u64;
        }
        let t0 = std::time::Instant::now();
        let run = run_cases(&pool, &sel, &cfg, pi == 0);
        eprintln!(
            "[C09] profile release={release}: {} cases in {} packages ({} rebuilt), {:.1}s wall, {:.1}s summed build+run time",
            sel.len(),
            run.packages,
            run.rebuilt_packages,
            t0.elapsed().as_secs_f64(),
            run.compile_millis as f64 / 1000.0
        );
        if pi == 0 {
            self_check = run.self_check.clone();
        }
        packages += run.packages;
        rebuilt += run.rebuilt_packages;
        for (c, r) in sel.iter().zip(&run.cases) {
            evals += 1;
            outcomes.add(&format!("{:?}", r.outcome));
            if r.judged.fails.is_empty() && c.canonical.len() >= 2 {
                encodings.add(&(c.ty.show(), &c.canonical));
            }
        }
        let (f, c) = report_failures(&mut rep, &pool, &sel, &run, &cfg, 1);
        total_fail += f;
        total_confirmed += c;
    }
    if outcomes.len() < 2 {
        vhcore::machinery_failure("vacuous: fewer than 2 distinct observed outcomes");
    }
    if self_check == "not-run" || self_check.is_empty() {
        vhcore::machinery_failure("Mode F = Mode A self-check did not run");
    }
    rep.set("evaluations", evals);
    rep.set("distinct_nontrivial", encodings.len() as u64);
    rep.set(
        "rule",
        "distinct (type, canonical encoding of ≥ 2 bytes) pairs whose three observations (log(v), encode(v), re-encoded abi_decode of the reference bytes) all matched the reference encoder",
    );
    rep.set("types", sp.types.len() as u64);
    rep.set("types_per_size_in_edges", json!(sp.per_size));
    rep.set("max_edges", max_edges as u64);
    rep.set("values", cases.len() as u64);
    rep.set("values_also_run_in_release_profile", release_cases);
    rep.set("profiles", json!(profiles.iter().map(|r| if *r { "release" } else { "debug" }).collect::<Vec<_>>()));
    rep.set("distinct_outcomes", outcomes.len() as u64);
    rep.set("packages", packages as u64);
    rep.set("packages_rebuilt_by_bisection", rebuilt as u64);
    rep.set("failing_cases", total_fail as u64);
    rep.set("failing_cases_confirmed_alone_modeA", total_confirmed as u64);
    rep.set("modeF_equals_modeA", self_check);
    rep.set("exhaustive", true);
    rep.set("value_product_cap", cap as u64);
    for i in [0usize, cases.len() / 7, cases.len() / 3, cases.len() / 2, cases.len() - 1] {
        let c = &cases[i];
        rep.sample(json!({"type": c.ty.show(), "value": c.val.show(), "canonical": hex::encode(&c.canonical)}));
    }
    rep.assume("size of a type tree = number of edges (nodes − 1); leaves have size 0");
    rep.assume("values: full cartesian product of the members' boundary values when it has ≤ cap elements, else the each-choice cover; nested types contribute their first `cap` values (abigen::values)");
    rep.assume("thorough: debug profile on the whole space, release profile on the types with ≤ 2 edges");
    rep.assume("script-main ReturnData variant of DESIGN C09 is not exercised (logs and in-program decode only)");
    rep.assume("reference encoder is not cross-checked against fuels-core (not a harness dependency)");
    rep.finish()
}

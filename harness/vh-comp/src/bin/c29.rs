//! C29 — `forc test` reports each test as passed exactly when its execution matches its declared
//! expectation, and tests are isolated from each other (storage, logs), for every suite of up to
//! 3 (quick) / 4 (thorough) tests over 10 test kinds, under runner counts 1, 2, Auto and every
//! name filter selecting a subset of size <= 2 (plus the empty subset and no filter).
use serde::{Deserialize, Serialize};
use serde_json::json;
use std::collections::{BTreeMap, BTreeSet};
use std::path::PathBuf;
use std::sync::Arc;
use vh_comp::engine::{self, Ctx, Variant};
use vh_comp::stdgen::*;

const ID: &str = "C29";
const INIT: u64 = 7;
const ASSERT_CODE: u64 = 0xffff_ffff_ffff_0004;

fn main() {
    let a = vhcore::parse_args();
    vh_comp::maybe_serve_worker(&a);
    if a.cmd == "c29worker" {
        let root = PathBuf::from(a.rest.first().cloned().unwrap_or_else(|| "/verif/work/C29/w".into()));
        std::process::exit(serve(root));
    }
    let code = match a.cmd.as_str() {
        "check" => run(&a),
        "replay" => replay(&a),
        _ => vhcore::machinery_failure("usage: c29 check C29 --tier quick|thorough"),
    };
    std::process::exit(code);
}

// ---------------------------------------------------------------------------------------------
// Protocol

#[derive(Serialize, Deserialize, Clone, Debug)]
struct RunCfg {
    /// 0 = TestRunnerCount::Auto, n = Manual(n)
    runners: usize,
    /// (phrase, exact_match)
    filter: Option<(String, bool)>,
}

#[derive(Serialize, Deserialize, Clone, Debug)]
struct Req {
    name: String,
    src: String,
    runs: Vec<RunCfg>,
    mode_a: bool,
}

#[derive(Serialize, Deserialize, Clone, Debug, Default, PartialEq)]
struct TOut {
    name: String,
    /// "return" | "revert:<code>"
    state: String,
    passed: bool,
    logs: Vec<String>,
}

#[derive(Serialize, Deserialize, Clone, Debug, Default)]
struct RunOut {
    error: String,
    total: usize,
    ignored: usize,
    tests: Vec<TOut>,
}

#[derive(Serialize, Deserialize, Clone, Debug, Default)]
struct Resp {
    ok: bool,
    error: String,
    panic: Option<String>,
    bytecode_hash: String,
    abi_hash: String,
    storage_hash: String,
    runs: Vec<RunOut>,
    millis: u64,
}

fn hash_hex(bytes: &[u8]) -> String {
    use sha2::{Digest, Sha256};
    hex::encode(&Sha256::digest(bytes)[..12])
}

// ---------------------------------------------------------------------------------------------
// Worker side: compile once (Mode F or Mode A), then call forc-test once per run configuration.

fn serve(root: PathBuf) -> i32 {
    let _ = std::fs::create_dir_all(&root);
    let mut ctx: Option<Ctx> = None;
    serve_lines(move |req: Req| -> Resp {
        let t0 = std::time::Instant::now();
        let mut out = Resp::default();
        let dir = root.join(&req.name);
        let _ = std::fs::remove_dir_all(&dir);
        if let Err(e) = engine::write_package(&dir, &req.name, &req.src, true) {
            vhcore::machinery_failure(&format!("cannot write package: {e}"));
        }
        let compiled: Result<anyhow::Result<(forc_pkg::BuiltPackage, forc_pkg::BuildPlan)>, ()> = if req.mode_a {
            std::panic::catch_unwind(|| engine::mode_a_build(&dir, false, true).map(|(b, p)| ((*b).clone(), p))).map_err(|_| ())
        } else {
            if ctx.is_none() {
                ctx = Some(Ctx::new(false));
            }
            let c = ctx.as_mut().unwrap();
            let d = dir.clone();
            std::panic::catch_unwind(std::panic::AssertUnwindSafe(|| c.compile_dir(&d, true, Variant::default()).map(|c| (c.built, c.plan)))).map_err(|_| ())
        };
        match compiled {
            Err(()) => {
                out.panic = Some(format!("{} at {}", vh_comp::take_panic_msg(), vhcore::take_panic_loc()));
                ctx = None;
            }
            Ok(Err(e)) => out.error = format!("{e:#}"),
            Ok(Ok((built, plan))) => {
                out.ok = true;
                out.bytecode_hash = hash_hex(&built.bytecode.bytes);
                let abi = match &built.program_abi {
                    sway_core::asm_generation::ProgramABI::Fuel(a) => serde_json::to_string(a).unwrap_or_default(),
                    _ => String::new(),
                };
                out.abi_hash = hash_hex(abi.as_bytes());
                out.storage_hash = hash_hex(serde_json::to_string(&built.storage_slots).unwrap_or_default().as_bytes());
                for cfg in &req.runs {
                    out.runs.push(run_one(&built, &plan, cfg));
                }
            }
        }
        let _ = std::fs::remove_dir_all(&dir);
        out.millis = t0.elapsed().as_millis() as u64;
        out
    })
}

fn run_one(built: &forc_pkg::BuiltPackage, plan: &forc_pkg::BuildPlan, cfg: &RunCfg) -> RunOut {
    let mut ro = RunOut::default();
    let r = std::panic::catch_unwind(std::panic::AssertUnwindSafe(|| -> anyhow::Result<(usize, usize, Vec<TOut>)> {
        let bt = forc_test::BuiltTests::from_built(forc_pkg::Built::Package(Arc::new(built.clone())), plan)?;
        let filter = cfg.filter.as_ref().map(|(p, e)| forc_test::TestFilter { filter_phrase: p.as_str(), exact_match: *e });
        let count = bt.test_count(filter.as_ref());
        let runners = match cfg.runners {
            0 => forc_test::TestRunnerCount::Auto,
            n => forc_test::TestRunnerCount::Manual(n),
        };
        let tested = bt.run(runners, filter, fuel_tx::GasCostsValues::default(), forc_test::TestGasLimit::Unlimited)?;
        let tp = match tested {
            forc_test::Tested::Package(p) => p,
            forc_test::Tested::Workspace(_) => anyhow::bail!("workspace"),
        };
        let tests = tp
            .tests
            .iter()
            .map(|t| TOut {
                name: t.name.clone(),
                state: match t.state {
                    fuel_vm::state::ProgramState::Revert(c) => format!("revert:{c}"),
                    fuel_vm::state::ProgramState::Return(_) | fuel_vm::state::ProgramState::ReturnData(_) => "return".into(),
                    ref other => format!("other:{other:?}"),
                },
                passed: t.passed(),
                logs: engine::logs_of(&t.logs).iter().map(|l| hex::encode(&l.data)).collect(),
            })
            .collect();
        Ok((count.total, count.ignored, tests))
    }));
    match r {
        Ok(Ok((total, ignored, tests))) => {
            ro.total = total;
            ro.ignored = ignored;
            ro.tests = tests;
        }
        Ok(Err(e)) => ro.error = format!("{e:#}"),
        Err(_) => ro.error = format!("panic: {} at {}", vh_comp::take_panic_msg(), vhcore::take_panic_loc()),
    }
    ro
}

// ---------------------------------------------------------------------------------------------
// Suites

#[derive(Clone, Copy, PartialEq, Eq, Debug, Hash, PartialOrd, Ord)]
enum Kind {
    /// `#[test]`, empty body
    Passes,
    /// `#[test]`, logs v
    Logs,
    /// `#[test]`, logs v then reverts(42): must FAIL
    Reverts,
    /// `#[test(should_revert)]`, reverts(42): passes
    SrReverts,
    /// `#[test(should_revert)]`, returns: must FAIL
    SrReturns,
    /// `#[test(should_revert = "42")]`, reverts(42): passes
    ScSame,
    /// `#[test(should_revert = "42")]`, reverts(43): must FAIL
    ScOther,
    /// `#[test]`, writes storage slot x then reads it back
    Writes,
    /// `#[test]`, reads slot x, logs it, asserts it is the deployed initial value
    Pristine,
    /// `#[test(should_revert = "<assert code>")]`, writes slot x, logs it, assert(false)
    WritesThenReverts,
}

const KINDS: [Kind; 10] = [Kind::Passes, Kind::Logs, Kind::Reverts, Kind::SrReverts, Kind::SrReturns, Kind::ScSame, Kind::ScOther, Kind::Writes, Kind::Pristine, Kind::WritesThenReverts];

#[derive(Clone, Debug, PartialEq)]
struct Model {
    state: String,
    passed: bool,
    logs: Vec<String>,
}

impl Kind {
    fn tag(&self) -> &'static str {
        match self {
            Kind::Passes => "passes",
            Kind::Logs => "logs",
            Kind::Reverts => "reverts",
            Kind::SrReverts => "should_revert+reverts",
            Kind::SrReturns => "should_revert+returns",
            Kind::ScSame => "should_revert(c)+reverts(c)",
            Kind::ScOther => "should_revert(c)+reverts(c')",
            Kind::Writes => "writes-slot",
            Kind::Pristine => "expects-slot-pristine",
            Kind::WritesThenReverts => "should_revert(assert)+writes-then-asserts",
        }
    }
    fn source(&self, name: &str, i: usize) -> String {
        let lv = 100 + i as u64;
        let wv = 200 + i as u64;
        match self {
            Kind::Passes => format!("#[test]\nfn {name}() {{ }}\n"),
            Kind::Logs => format!("#[test]\nfn {name}() {{ log({lv}u64); }}\n"),
            Kind::Reverts => format!("#[test]\nfn {name}() {{ log({lv}u64); revert(42); }}\n"),
            Kind::SrReverts => format!("#[test(should_revert)]\nfn {name}() {{ log({lv}u64); revert(42); }}\n"),
            Kind::SrReturns => format!("#[test(should_revert)]\nfn {name}() {{ log({lv}u64); }}\n"),
            Kind::ScSame => format!("#[test(should_revert = \"42\")]\nfn {name}() {{ log({lv}u64); revert(42); }}\n"),
            Kind::ScOther => format!("#[test(should_revert = \"42\")]\nfn {name}() {{ log({lv}u64); revert(43); }}\n"),
            Kind::Writes => format!("#[test]\nfn {name}() {{ let c = abi(T, CONTRACT_ID); c.wr({wv}); log(c.rd()); }}\n"),
            Kind::Pristine => format!("#[test]\nfn {name}() {{ let c = abi(T, CONTRACT_ID); let v = c.rd(); log(v); assert(v == {INIT}); }}\n"),
            Kind::WritesThenReverts => format!("#[test(should_revert = \"{ASSERT_CODE}\")]\nfn {name}() {{ let c = abi(T, CONTRACT_ID); c.wr({wv}); log(c.rd()); assert(c.rd() == {INIT}); }}\n"),
        }
    }
    /// Outcome of the test in isolation from the freshly deployed initial state.
    fn model(&self, i: usize) -> Model {
        let lv = hex::encode(w64(100 + i as u64));
        let wv = hex::encode(w64(200 + i as u64));
        let (state, passed, logs) = match self {
            Kind::Passes => ("return".to_string(), true, vec![]),
            Kind::Logs => ("return".into(), true, vec![lv]),
            Kind::Reverts => ("revert:42".into(), false, vec![lv]),
            Kind::SrReverts => ("revert:42".into(), true, vec![lv]),
            Kind::SrReturns => ("return".into(), false, vec![lv]),
            Kind::ScSame => ("revert:42".into(), true, vec![lv]),
            Kind::ScOther => ("revert:43".into(), false, vec![lv]),
            Kind::Writes => ("return".into(), true, vec![wv]),
            Kind::Pristine => ("return".into(), true, vec![hex::encode(w64(INIT))]),
            Kind::WritesThenReverts => (format!("revert:{ASSERT_CODE}"), true, vec![wv]),
        };
        Model { state, passed, logs }
    }
}

const CONTRACT: &str = "contract;\n\nabi T {\n    #[storage(read, write)] fn wr(v: u64);\n    #[storage(read)] fn rd() -> u64;\n}\n\nstorage { x: u64 = 7 }\n\nimpl T for Contract {\n    #[storage(read, write)] fn wr(v: u64) { storage.x.write(v); }\n    #[storage(read)] fn rd() -> u64 { storage.x.read() }\n}\n\n";

/// Test i of an n-test suite is called `k<i>` + one `_p<a><b>` tag per pair {a,b} it belongs to, so
/// that the single filter phrase forc-test supports can select every subset of size <= 2.
fn test_name(i: usize, n: usize) -> String {
    let mut s = format!("k{i}");
    for a in 0..n {
        for b in a + 1..n {
            if a == i || b == i {
                s.push_str(&format!("_p{a}{b}"));
            }
        }
    }
    s
}

struct Suite {
    kinds: Vec<Kind>,
}

impl Suite {
    fn desc(&self) -> String {
        self.kinds.iter().map(|k| k.tag()).collect::<Vec<_>>().join(" , ")
    }
    fn source(&self) -> String {
        let n = self.kinds.len();
        let mut s = String::from(CONTRACT);
        for (i, k) in self.kinds.iter().enumerate() {
            s.push_str(&k.source(&test_name(i, n), i));
            s.push('\n');
        }
        s
    }
    /// (config, expected set of test indices)
    fn configs(&self) -> Vec<(RunCfg, Vec<usize>, &'static str)> {
        let n = self.kinds.len();
        let mut filters: Vec<(Option<(String, bool)>, Vec<usize>, &'static str)> = vec![(None, (0..n).collect(), "no-filter")];
        filters.push((Some(("zz".into(), false)), vec![], "filter-matching-nothing"));
        filters.push((Some(("k0".into(), true)), if n == 1 { vec![0] } else { vec![] }, "exact-filter-with-partial-name"));
        for i in 0..n {
            filters.push((Some((format!("k{i}"), false)), vec![i], "substring-filter-single"));
            if n > 1 {
                filters.push((Some((test_name(i, n), true)), vec![i], "exact-filter-single"));
            }
        }
        for a in 0..n {
            for b in a + 1..n {
                filters.push((Some((format!("p{a}{b}"), false)), vec![a, b], "substring-filter-pair"));
            }
        }
        let mut out = vec![];
        for runners in [1usize, 2, 0] {
            for (f, set, label) in &filters {
                out.push((RunCfg { runners, filter: f.clone() }, set.clone(), *label));
            }
        }
        out
    }
}

fn all_suites(max_len: usize) -> Vec<Suite> {
    let mut out = vec![];
    let k = KINDS.len();
    for n in 1..=max_len {
        for code in 0..k.pow(n as u32) {
            let mut c = code;
            let mut kinds = vec![KINDS[0]; n];
            for p in (0..n).rev() {
                kinds[p] = KINDS[c % k];
                c /= k;
            }
            out.push(Suite { kinds });
        }
    }
    out
}

fn runner_label(r: usize) -> String {
    if r == 0 {
        "auto".into()
    } else {
        format!("{r}")
    }
}

/// All discrepancies of one run against the model: (test kind tag or "-", shape, text).
fn check_run(s: &Suite, cfg: &RunCfg, expect_set: &[usize], ro: &RunOut) -> Vec<(String, String, String)> {
    let n = s.kinds.len();
    let mut v = vec![];
    if !ro.error.is_empty() {
        v.push(("-".into(), "forc-test-error".into(), ro.error.clone()));
        return v;
    }
    if ro.total != n || ro.ignored != n - expect_set.len() {
        v.push(("-".into(), "wrong-test-count".into(), format!("test_count total={} ignored={}, expected total={n} ignored={}", ro.total, ro.ignored, n - expect_set.len())));
    }
    let names: Vec<String> = (0..n).map(|i| test_name(i, n)).collect();
    let got: BTreeSet<&str> = ro.tests.iter().map(|t| t.name.as_str()).collect();
    let want: BTreeSet<&str> = expect_set.iter().map(|i| names[*i].as_str()).collect();
    if got != want || ro.tests.len() != expect_set.len() {
        v.push(("-".into(), "wrong-test-set".into(), format!("ran {:?}, the filter {:?} selects {:?}", ro.tests.iter().map(|t| &t.name).collect::<Vec<_>>(), cfg.filter, want)));
    }
    let all_own_logs: BTreeMap<String, usize> = (0..n).flat_map(|i| s.kinds[i].model(i).logs.into_iter().map(move |l| (l, i))).collect();
    for t in &ro.tests {
        let Some(i) = names.iter().position(|nm| *nm == t.name) else { continue };
        let m = s.kinds[i].model(i);
        let tag = s.kinds[i].tag().to_string();
        if t.state == m.state && t.passed == m.passed && t.logs == m.logs {
            continue;
        }
        // one discrepancy per test; the most specific shape wins
        let foreign = t.logs.iter().any(|l| all_own_logs.get(l).map(|o| *o != i).unwrap_or(false));
        let shape = if matches!(s.kinds[i], Kind::Pristine) && t.logs.first() != m.logs.first() {
            "storage-not-pristine"
        } else if foreign {
            "logs-of-another-test-visible"
        } else if t.state != m.state {
            "wrong-final-state"
        } else if t.passed != m.passed {
            if m.passed {
                "reported-failed-but-meets-expectation"
            } else {
                "reported-passed-but-violates-expectation"
            }
        } else {
            "logs-differ"
        };
        v.push((
            tag,
            shape.into(),
            format!("test {i} ({}) ended in {} passed={} logs={:?}; in isolation from the deployed state it ends in {} passed={} logs={:?}", t.name, t.state, t.passed, t.logs, m.state, m.passed, m.logs),
        ));
    }
    v
}

fn suite_replay(s: &Suite, cfg: &RunCfg, expect_set: &[usize], text: &str) -> serde_json::Value {
    let n = s.kinds.len();
    json!({
        "suite": s.kinds.iter().map(|k| k.tag()).collect::<Vec<_>>(),
        "package_main_sw": s.source(),
        "runners": runner_label(cfg.runners),
        "filter": cfg.filter,
        "expected_tests": expect_set.iter().map(|i| json!({"name": test_name(*i, n), "state": s.kinds[*i].model(*i).state, "passed": s.kinds[*i].model(*i).passed, "logs": s.kinds[*i].model(*i).logs})).collect::<Vec<_>>(),
        "observed": text,
        "how": "write package_main_sw as src/main.sw of a contract package depending on /repo/sway-lib-std; run `forc test [--test-threads N] [<filter> [--filter-exact]]`; compare per-test pass/fail, final state and logs",
    })
}

fn run(a: &vhcore::Args) -> i32 {
    let mut rep = vhcore::Reporter::from_args(a, "exploration");
    let thorough = a.tier == vhcore::Tier::Thorough;
    let max_len = if thorough { 4 } else { 3 };
    let suites = all_suites(max_len);
    let closed: usize = (1..=max_len).map(|n| KINDS.len().pow(n as u32)).sum();
    if suites.len() != closed {
        vhcore::machinery_failure(&format!("suite enumerator produced {} suites, closed form {closed}", suites.len()));
    }
    let mut suites = suites;
    let dev_stride = match std::env::var("VH_DEV_STRIDE").ok().and_then(|s| s.parse::<usize>().ok()) {
        Some(n) if n > 1 => {
            let total = suites.len();
            let mut k = 0usize;
            suites.retain(|_| {
                k += 1;
                (k - 1) % n == 0
            });
            rep.cap(&format!("DEVELOPMENT RUN: VH_DEV_STRIDE={n}: only {} of {total} suites executed — not a check result", suites.len()));
            true
        }
        _ => false,
    };
    let scratch = vhcore::work_dir("C29/run");
    let pool = SubPool::new(a.jobs, scratch.clone(), "c29worker");
    let reqs: Vec<Req> = suites
        .iter()
        .enumerate()
        .map(|(i, s)| Req { name: format!("c29_s{i}"), src: s.source(), runs: s.configs().into_iter().map(|c| c.0).collect(), mode_a: false })
        .collect();

    // Mode F = Mode A self-check on the first batch: same artefacts, same results for every config.
    let step = (suites.len() / 6).max(1);
    let sc_idx: Vec<usize> = (0..suites.len()).step_by(step).take(6).collect();
    let mut sc_reqs = vec![];
    for i in &sc_idx {
        sc_reqs.push(Req { name: format!("c29_scf{i}"), mode_a: false, ..reqs[*i].clone() });
        sc_reqs.push(Req { name: format!("c29_scf{i}"), mode_a: true, ..reqs[*i].clone() });
    }
    let sc: Vec<Result<Resp, String>> = pool.run(&sc_reqs, &|_| {});
    for pair in sc.chunks(2) {
        match (&pair[0], &pair[1]) {
            (Ok(f), Ok(m)) => {
                if !f.ok || !m.ok {
                    vhcore::machinery_failure(&format!("self-check build failed: F ok={} {} {:?}; A ok={} {} {:?}", f.ok, f.error, f.panic, m.ok, m.error, m.panic));
                }
                if f.bytecode_hash != m.bytecode_hash || f.abi_hash != m.abi_hash || f.storage_hash != m.storage_hash {
                    vhcore::machinery_failure(&format!("Mode F and Mode A artefacts differ: bytecode {} vs {}, abi {} vs {}, storage {} vs {}", f.bytecode_hash, m.bytecode_hash, f.abi_hash, m.abi_hash, f.storage_hash, m.storage_hash));
                }
                let same = f.runs.len() == m.runs.len() && f.runs.iter().zip(m.runs.iter()).all(|(x, y)| x.tests == y.tests && x.total == y.total && x.ignored == y.ignored);
                if !same {
                    vhcore::machinery_failure("Mode F and Mode A forc-test results differ in the self-check");
                }
            }
            (x, y) => vhcore::machinery_failure(&format!("self-check worker failure: {:?} {:?}", x.as_ref().err(), y.as_ref().err())),
        }
    }
    rep.set("modeF_equals_modeA", true);

    let t0 = std::time::Instant::now();
    let total = reqs.len();
    let resps: Vec<Result<Resp, String>> = pool.run(&reqs, &|d| {
        if d % 100 == 0 || d == total {
            eprintln!("[c29] {d}/{total} suites t={:.0}s", t0.elapsed().as_secs_f64());
        }
    });

    let mut resps = resps;
    let failed: Vec<usize> = resps.iter().enumerate().filter(|(_, r)| r.is_err()).map(|(i, _)| i).collect();
    if !failed.is_empty() {
        eprintln!("[c29] re-running {} suites whose worker died or timed out", failed.len());
        let retry_reqs: Vec<Req> = failed.iter().map(|i| Req { name: format!("c29_retry{i}"), ..reqs[*i].clone() }).collect();
        let retry: Vec<Result<Resp, String>> = pool.run(&retry_reqs, &|_| {});
        for (i, r) in failed.iter().zip(retry) {
            resps[*i] = r;
        }
        rep.set("suites_retried_after_worker_failure", failed.len() as u64);
    }
    let mut evaluations = 0u64;
    let mut test_executions = 0u64;
    let mut outcomes = vhcore::Distinct::default();
    let mut distinct_results = vhcore::Distinct::default();
    let mut confirms = 0usize;
    let mut confirmed_keys: BTreeSet<String> = BTreeSet::new();
    for (si, (s, resp)) in suites.iter().zip(resps.iter()).enumerate() {
        let cfgs = s.configs();
        let resp = match resp {
            Err(e) => {
                rep.violation(&format!("{ID}|suite|worker-died"), &format!("suite [{}]: worker failure {e}", s.desc()), json!({"package_main_sw": s.source(), "error": e}));
                continue;
            }
            Ok(r) => r,
        };
        if !resp.ok {
            let shape = if resp.panic.is_some() { "compiler-panic" } else { "does-not-compile" };
            rep.violation(&format!("{ID}|suite|{shape}"), &format!("suite [{}]: {} {:?}", s.desc(), vhcore::truncate(&resp.error, 300), resp.panic), json!({"package_main_sw": s.source(), "error": resp.error, "panic": resp.panic}));
            continue;
        }
        if resp.runs.len() != cfgs.len() {
            vhcore::machinery_failure("worker returned a different number of runs");
        }
        // collect discrepancies per (kind, shape) with the set of config classes in which they occur
        let mut found: BTreeMap<(String, String), (BTreeSet<String>, usize, String)> = BTreeMap::new();
        for (ci, ((cfg, set, label), ro)) in cfgs.iter().zip(resp.runs.iter()).enumerate() {
            evaluations += 1;
            test_executions += ro.tests.len() as u64;
            outcomes.add(&format!("{:?}", ro.tests));
            for t in &ro.tests {
                distinct_results.add(&(t.state.clone(), t.passed, t.logs.len()));
            }
            for (kind, shape, text) in check_run(s, cfg, set, ro) {
                let e = found.entry((kind, shape)).or_insert((BTreeSet::new(), ci, text));
                e.0.insert(format!("{label}/runners={}", runner_label(cfg.runners)));
            }
        }
        for ((kind, shape), (ctxs, ci, text)) in found {
            // deterministic baseline (no filter, one runner) affected or not; the exact configurations
            // go into the text, not into the key
            let ctx = if ctxs.contains("no-filter/runners=1") { "incl-unfiltered-single-runner" } else { "only-under-some-filters-or-runner-counts" };
            let text = format!("{text} [failing configurations: {}]", ctxs.iter().cloned().collect::<Vec<_>>().join(", "));
            let mut key = format!("{ID}|{kind}|{shape}|{ctx}");
            let (cfg, set, _) = &cfgs[ci];
            // confirm alone in Mode A (fresh engines, plain forc path), once per key
            if !confirmed_keys.contains(&key) && confirms < 12 {
                confirms += 1;
                let creq = Req { name: format!("c29_confirm{confirms}"), src: s.source(), runs: vec![cfg.clone()], mode_a: true };
                let cr: Vec<Result<Resp, String>> = pool.run(&[creq], &|_| {});
                let still = match &cr[0] {
                    Ok(r) if r.ok && r.runs.len() == 1 => !check_run(s, cfg, set, &r.runs[0]).is_empty(),
                    _ => true,
                };
                if still {
                    confirmed_keys.insert(key.clone());
                } else {
                    key.push_str("|not-reproduced-on-confirmation");
                }
            }
            rep.violation(&key, &format!("suite #{si} [{}] runners={} filter={:?}: {text}", s.desc(), runner_label(cfg.runners), cfg.filter), suite_replay(s, cfg, set, &text));
        }
    }
    if distinct_results.len() < 2 || outcomes.len() < 2 {
        vhcore::machinery_failure("vacuous: fewer than 2 distinct outcomes");
    }
    rep.set("evaluations", evaluations);
    rep.set("suites", suites.len() as u64);
    rep.set("test_executions", test_executions);
    rep.set("distinct_nontrivial", outcomes.len() as u64);
    rep.set("rule", "distinct ordered per-test result vectors (name, final state, passed, logs) returned by forc-test over all (suite, runner count, filter) runs");
    rep.set("distinct_single_test_results", distinct_results.len() as u64);
    rep.set("children_cpu_seconds", children_cpu_seconds());
    rep.set("exhaustive", !dev_stride);
    for s in suites.iter().step_by((suites.len() / 8).max(1)) {
        rep.sample(json!({"suite": s.kinds.iter().map(|k| k.tag()).collect::<Vec<_>>(), "configs": s.configs().len()}));
    }
    rep.assume("test kinds: passes, logs v, reverts(42) without should_revert, should_revert+reverts, should_revert+returns, should_revert=\"42\"+reverts(42), should_revert=\"42\"+reverts(43), writes storage slot x then reads it, expects slot x == deployed initial value, should_revert=<assert code>+writes slot then failing assert; `expects no prior log` of the design is covered by the per-test log comparison");
    rep.assume("forc-test's filter is a single phrase; tests are named so that one phrase selects exactly every subset of size <= 2 (substring match), every single test (exact match), and nothing (non-matching phrase / partial name with exact match); runner counts Manual(1), Manual(2), Auto; result order is not compared, only the set of tests run and per-test results");
    rep.finish()
}

fn replay(a: &vhcore::Args) -> i32 {
    let path = a.replay.clone().unwrap_or_else(|| vhcore::machinery_failure("replay needs a file"));
    let v: serde_json::Value = serde_json::from_str(&std::fs::read_to_string(&path).unwrap_or_else(|e| vhcore::machinery_failure(&format!("{e}")))).unwrap_or_else(|e| vhcore::machinery_failure(&format!("{e}")));
    let r = &v["replay"];
    let src = r["package_main_sw"].as_str().unwrap_or_else(|| vhcore::machinery_failure("replay file has no package")).to_string();
    let runners = match r["runners"].as_str() {
        Some("auto") => 0,
        Some(n) => n.parse().unwrap_or(1),
        None => 1,
    };
    let filter: Option<(String, bool)> = serde_json::from_value(r["filter"].clone()).ok().flatten();
    let pool = SubPool::new(1, vhcore::work_dir("C29-replay"), "c29worker");
    let req = Req { name: "c29_replay".into(), src, runs: vec![RunCfg { runners, filter }], mode_a: true };
    let resp: Vec<Result<Resp, String>> = pool.run(&[req], &|_| {});
    match &resp[0] {
        Err(e) => {
            println!("worker failure: {e}");
            1
        }
        Ok(resp) => {
            println!("build ok={} error={} panic={:?}", resp.ok, resp.error, resp.panic);
            let mut bad = !resp.ok;
            if let Some(ro) = resp.runs.first() {
                let exp = r["expected_tests"].as_array().cloned().unwrap_or_default();
                println!("test_count total={} ignored={} error={}", ro.total, ro.ignored, ro.error);
                for t in &ro.tests {
                    println!("  {} -> {} passed={} logs={:?}", t.name, t.state, t.passed, t.logs);
                }
                if ro.tests.len() != exp.len() {
                    println!("STILL VIOLATES: ran {} tests, expected {}", ro.tests.len(), exp.len());
                    bad = true;
                }
                for e in &exp {
                    let name = e["name"].as_str().unwrap_or("");
                    match ro.tests.iter().find(|t| t.name == name) {
                        None => {
                            println!("STILL VIOLATES: test {name} was not run");
                            bad = true;
                        }
                        Some(t) => {
                            let logs: Vec<String> = e["logs"].as_array().map(|a| a.iter().filter_map(|x| x.as_str().map(|s| s.to_string())).collect()).unwrap_or_default();
                            if Some(t.state.as_str()) != e["state"].as_str() || Some(t.passed) != e["passed"].as_bool() || t.logs != logs {
                                println!("STILL VIOLATES: {name}: got state={} passed={} logs={:?}; expected {}", t.state, t.passed, t.logs, e);
                                bad = true;
                            }
                        }
                    }
                }
            }
            if bad {
                1
            } else {
                println!("matches the expectation now");
                0
            }
        }
    }
}

//! C01 — compiled programs compute what the Sway semantics prescribe.
//! Bounded-exhaustive program spaces S1–S4 + ladder (vh_comp::spaces), each case built in debug and
//! release through the real forc path and run on the real FuelVM, compared with the reference
//! interpreter's prediction (exact log payloads / revert code).
use serde_json::json;
use vh_comp::campaign::*;
use vh_comp::gen::*;
use vh_comp::pool::Pool;

fn main() {
    let a = vhcore::parse_args();
    vh_comp::maybe_serve_worker(&a);
    let code = match a.cmd.as_str() {
        "check" => run(&a),
        "replay" => vh_comp::replay::replay_case(&a),
        _ => vhcore::machinery_failure("usage: c01 check C01 --tier quick|thorough | replay C01 <file>"),
    };
    std::process::exit(code);
}

fn run(a: &vhcore::Args) -> i32 {
    let mut rep = vhcore::Reporter::from_args(a, "exploration");
    let thorough = a.tier == vhcore::Tier::Thorough;
    let cases = vh_comp::spaces::corpus(thorough);
    let pool = Pool::new(a.jobs, vhcore::work_dir("C01"));
    if let Err(e) = mode_f_equals_mode_a(&pool, "c01", &cases[..40.min(cases.len())]) {
        vhcore::machinery_failure(&e);
    }
    let specs = vec![spec("debug", false), spec("release", true)];
    let res = run_campaign(&pool, "c01", &cases, 250, &specs);
    let mut outcomes = vhcore::Distinct::default();
    let mut evals = 0u64;
    let mut per_space: std::collections::BTreeMap<&str, u64> = Default::default();
    for cr in &res.per_case {
        let case = &cases[cr.case_idx];
        *per_space.entry(case.space).or_default() += 1;
        for (label, b) in &cr.builds {
            evals += 1;
            let problem: Option<(String, String)> = match b {
                CaseBuild::Ran(o) => {
                    outcomes.add(&format!("{o:?}"));
                    expect_mismatch(o, &case.expect).map(|m| (mismatch_kind(o, &case.expect), m))
                }
                CaseBuild::BuildFailed { error, panic, panic_loc } => Some((
                    if panic.is_some() { format!("compiler-panic@{panic_loc}") } else { "rejected-well-typed-program".to_string() },
                    format!("build failed: {error} {panic:?}"),
                )),
                CaseBuild::Missing => Some(("test-entry-missing".into(), "test entry missing from results".into())),
            };
            if let Some((kind, msg)) = problem {
                // confirm alone through the plain forc path before reporting
                let alone = confirm_alone(&pool, "c01", case, &[spec(label, label == "release")]);
                let still = match alone.get(label.as_str()) {
                    Some(CaseBuild::Ran(o)) => expect_mismatch(o, &case.expect).is_some(),
                    Some(_) => true,
                    None => true,
                };
                if !still {
                    // only reproduces in company of batch neighbours: report with the batch as replay
                    rep.violation(
                        &format!("C01|{}|{}|only-in-batch", case.known_class.map(|k| k.to_string()).unwrap_or_else(|| shape_of(case)), kind),
                        &format!("{} [{label}] {msg} (does not reproduce alone)", case.desc),
                        json!({"desc": case.desc, "build": label, "note": "reproduces only inside its batch"}),
                    );
                    continue;
                }
                let key = match case.known_class {
                    Some(k) => format!("C01|{k}|{kind}"),
                    None => format!("C01|{}|{}", shape_of(case), kind),
                };
                rep.violation(
                    &key,
                    &format!("{} [{label}] {msg}", case.desc),
                    vh_comp::replay::case_replay_json(case, label, label == "release"),
                );
            }
        }
    }
    // Space S5: the e2e "run" corpus against the maintainers' expected results
    let s5_work = vhcore::verif_root().join("work").join("C01-s5");
    let _ = std::fs::remove_dir_all(&s5_work);
    let (s5, s5_skipped) = vh_comp::s5::run_s5(&pool, &s5_work, if thorough { 1 } else { 6 });
    let mut s5_runs = 0u64;
    for (case, resp) in &s5 {
        match resp {
            Err(e) => rep.violation(
                &format!("C01|S5|worker-died|{}", case.name),
                &format!("S5 {}: worker died: {e}", case.name),
                json!({"e2e_test": case.name}),
            ),
            Ok(r) => {
                for b in &r.builds {
                    s5_runs += 1;
                    evals += 1;
                    let problem = if let Some(p) = &b.panic {
                        Some((format!("compiler-panic@{}", b.panic_loc), format!("{p}")))
                    } else if !b.ok {
                        Some(("does-not-build".to_string(), b.error.clone()))
                    } else {
                        match &b.script {
                            Some(run) if run.outcome == case.expect => {
                                outcomes.add(&format!("{:?}", run.outcome));
                                None
                            }
                            Some(run) => Some(("wrong-result".to_string(), format!("got {:?}, test.toml expects {:?}", run.outcome, case.expect))),
                            None => Some(("did-not-run".to_string(), b.run_error.clone())),
                        }
                    };
                    if let Some((kind, msg)) = problem {
                        rep.violation(
                            &format!("C01|S5|{kind}|{}", case.name),
                            &format!("S5 {} [{}]: {msg}", case.name, b.label),
                            json!({"e2e_test": case.name, "dir": case.src_dir, "build": b.label, "script_data": hex::encode(&case.script_data), "expected": format!("{:?}", case.expect)}),
                        );
                    }
                }
            }
        }
    }
    let _ = std::fs::remove_dir_all(&s5_work);
    rep.set("s5_e2e_runs", s5_runs);
    rep.set("s5_e2e_skipped", s5_skipped.len() as u64);
    if outcomes.len() < 2 {
        vhcore::machinery_failure("vacuous: fewer than 2 distinct outcomes");
    }
    if !res.worker_failures.is_empty() {
        rep.set("worker_failures", json!(res.worker_failures));
    }
    rep.set("evaluations", evals);
    rep.set("programs", cases.len() as u64);
    rep.set("distinct_nontrivial", outcomes.len() as u64);
    rep.set("rule", "every case of spaces S1 (all widths x operators x boundary pairs, opaque operands), casts, S2 (all statement lists up to the tier's node bound, 16 inputs each), S3 (all type trees up to the tier's size x every leaf path), enums, arrays, S4 (all body pairs, call DAGs, generic instantiations) and the register-pressure ladder, each built in debug and release and run on the FuelVM; distinct_nontrivial = distinct observed outcomes (log payload lists / revert codes)");
    rep.set("cases_per_space", json!(per_space));
    rep.set("packages_built", res.packages_built as u64);
    rep.set("exhaustive", true);
    rep.set("modeF_equals_modeA", true);
    for c in cases.iter().step_by((cases.len() / 8).max(1)) {
        rep.sample(json!({"case": c.desc, "expect": format!("{:?}", c.expect)}));
    }
    rep.assume("reference interpreter (vh_comp::gen::Interp) states the documented semantics: u8/u16/u32 range checks revert(0); u64/u256 overflow, division/modulo by zero -> VM panic reported as Revert(0); shifts >= register width give 0; narrow `<<` is masked (std ops.sw); out-of-bounds index reverts; require/assert revert codes per std");
    rep.assume("values outside the boundary alphabets and programs above the size bounds are not covered");
    rep.finish()
}

fn mismatch_kind(o: &vh_comp::engine::Outcome, e: &Expect) -> String {
    use vh_comp::engine::Outcome;
    match (o, e) {
        (Outcome::Ok { .. }, Expect::Revert(..)) => "returned-instead-of-revert".into(),
        (Outcome::Revert { .. }, Expect::Ok(..)) => "reverted-instead-of-value".into(),
        (Outcome::Ok { .. }, Expect::Ok(..)) => "wrong-value".into(),
        (Outcome::Revert { .. }, Expect::Revert(..)) => "wrong-revert".into(),
    }
}

/// Narrow shape descriptor: space + the operator / construct family (not the operand values).
fn shape_of(c: &Case) -> String {
    let d = &c.desc;
    let head: Vec<&str> = d.split_whitespace().collect();
    match c.space {
        "S1" | "S1d2" | "S1cast" => {
            // "S1/opq/u8 255 + 1u8" -> "S1/opq/u8 +"
            let ops: Vec<&str> = head.iter().skip(1).filter(|t| t.chars().all(|c| !c.is_ascii_alphanumeric() && c != '(' && c != ')')).copied().collect();
            format!("{} {}", head.first().copied().unwrap_or(""), ops.join(" "))
        }
        _ => head.first().copied().unwrap_or("").split('#').next().unwrap_or("").to_string(),
    }
}

//! C02 — optimisation level never changes observable behaviour: every corpus case built in debug
//! and release, outcomes compared differentially (no reference model involved).
use serde_json::json;
use vh_comp::campaign::*;
use vh_comp::pool::Pool;

fn main() {
    let a = vhcore::parse_args();
    vh_comp::maybe_serve_worker(&a);
    let code = match a.cmd.as_str() {
        "check" => run(&a),
        "replay" => vh_comp::replay::replay_case(&a),
        _ => vhcore::machinery_failure("usage: c02 check C02 --tier quick|thorough"),
    };
    std::process::exit(code);
}

fn run(a: &vhcore::Args) -> i32 {
    let mut rep = vhcore::Reporter::from_args(a, "exploration");
    let thorough = a.tier == vhcore::Tier::Thorough;
    let mut cases = vh_comp::spaces::corpus(thorough);
    cases.extend(vh_comp::spaces::corpus_literal(thorough));
    let pool = Pool::new(a.jobs, vhcore::work_dir("C02"));
    if let Err(e) = mode_f_equals_mode_a(&pool, "c02", &cases[..40.min(cases.len())]) {
        vhcore::machinery_failure(&e);
    }
    let specs = vec![spec("debug", false), spec("release", true)];
    let res = run_campaign(&pool, "c02", &cases, 250, &specs);
    let mut outcomes = vhcore::Distinct::default();
    let mut pairs = 0u64;
    for cr in &res.per_case {
        let case = &cases[cr.case_idx];
        let (Some(d), Some(r)) = (cr.builds.get("debug"), cr.builds.get("release")) else { continue };
        pairs += 1;
        if let CaseBuild::Ran(o) = d {
            outcomes.add(&format!("{o:?}"));
        }
        if let Some((kind, msg)) = diff_builds(d, r) {
            // literal-operand cases whose evaluation reverts may legitimately be rejected at compile
            // time in both profiles (handled by the both-failed arm); anything else is a difference
            let alone = confirm_alone(&pool, "c02", case, &specs);
            let still = match (alone.get("debug"), alone.get("release")) {
                (Some(d2), Some(r2)) => diff_builds(d2, r2).is_some(),
                _ => true,
            };
            let key = match (case.known_class, still) {
                (Some(k), _) => format!("C02|{k}"),
                (None, true) => format!("C02|{}|{kind}", shape_of(case)),
                (None, false) => format!("C02|{}|{kind}|only-in-batch", shape_of(case)),
            };
            let mut rj = vh_comp::replay::case_replay_json(case, "debug-vs-release", false);
            rj["how"] = json!("build the package with `forc test` and with `forc test --release`; test t0 must behave identically");
            rep.violation(&key, &format!("{}: debug vs release: {msg}", case.desc), rj);
        }
    }
    // Space S5: the e2e "run" corpus, debug vs release
    let s5_work = vhcore::verif_root().join("work").join("C02-s5");
    let _ = std::fs::remove_dir_all(&s5_work);
    let (s5, _skipped) = vh_comp::s5::run_s5(&pool, &s5_work, if thorough { 1 } else { 6 });
    let mut s5_pairs = 0u64;
    for (case, resp) in &s5 {
        if let Ok(r) = resp {
            let (d, rl) = (&r.builds[0], &r.builds[1]);
            if d.ok && rl.ok {
                s5_pairs += 1;
                pairs += 1;
                if d.script != rl.script {
                    rep.violation(
                        &format!("C02|S5|{}", case.name),
                        &format!("S5 {}: debug {:?} vs release {:?}", case.name, d.script, rl.script),
                        json!({"e2e_test": case.name, "dir": case.src_dir, "script_data": hex::encode(&case.script_data)}),
                    );
                }
            } else if d.ok != rl.ok {
                rep.violation(
                    &format!("C02|S5|builds-in-one-profile-only|{}", case.name),
                    &format!("S5 {}: debug ok={} ({}) release ok={} ({})", case.name, d.ok, d.error, rl.ok, rl.error),
                    json!({"e2e_test": case.name, "dir": case.src_dir}),
                );
            }
        }
    }
    let _ = std::fs::remove_dir_all(&s5_work);
    rep.set("s5_e2e_pairs", s5_pairs);
    if outcomes.len() < 2 {
        vhcore::machinery_failure("vacuous: fewer than 2 distinct outcomes");
    }
    let differing_bytecode = res
        .batches
        .iter()
        .filter(|b| b.outs.len() == 2 && b.outs[0].ok && b.outs[1].ok && b.outs[0].bytecode_hash != b.outs[1].bytecode_hash)
        .count();
    rep.set("evaluations", pairs);
    rep.set("distinct_nontrivial", outcomes.len() as u64);
    rep.set("rule", "every case of the standard corpus (vh_comp::spaces::corpus) and of its literal-operand variant, built in debug and release; compared: ordered log ids+payloads, revert status and code; distinct_nontrivial = distinct debug outcomes");
    rep.set("batches_with_differing_bytecode", differing_bytecode as u64);
    rep.set("packages_built", res.packages_built as u64);
    rep.set("exhaustive", true);
    for c in cases.iter().step_by((cases.len() / 6).max(1)) {
        rep.sample(json!({"case": c.desc}));
    }
    rep.assume("gas, bytecode size and backtrace metadata are not compared; programs outside the generated spaces are not covered");
    rep.finish()
}

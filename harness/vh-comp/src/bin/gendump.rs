//! Scratch: dump generated corpus statistics / one rendered package.
fn main() {
    let args: Vec<String> = std::env::args().collect();
    let which = args.get(1).map(|s| s.as_str()).unwrap_or("quick");
    let cases = match which {
        "c06" => vh_comp::c06gen::cases(&[8, 64, 256], &vh_comp::c06gen::CONTEXTS, true),
        "thorough" => vh_comp::spaces::corpus(true),
        "compact" => vh_comp::spaces::corpus_compact(false),
        _ => vh_comp::spaces::corpus(false),
    };
    let mut per: std::collections::BTreeMap<&str, usize> = Default::default();
    for c in &cases { *per.entry(c.space).or_default() += 1; }
    eprintln!("{} cases {:?}", cases.len(), per);
    if let Some(f) = args.get(2) {
        let sel: Vec<_> = cases.iter().filter(|c| c.desc.contains(f.as_str())).take(args.get(3).and_then(|s| s.parse().ok()).unwrap_or(5)).cloned().collect();
        println!("{}", vh_comp::gen::render_package(&sel));
    }
}

//! Scratch: dump generated corpus statistics / one rendered package.
fn main() {
    let args: Vec<String> = std::env::args().collect();
    let which = args.get(1).map(|s| s.as_str()).unwrap_or("quick");
    let cases = match which {
        "c06" => vh_comp::c06gen::cases(&[8, 64, 256], &vh_comp::c06gen::CONTEXTS, true),
        "thorough" => vh_comp::spaces::corpus(true),
        "compact" => vh_comp::spaces::corpus_compact(false),
        _ => vh_comp::spaces::corpus(false),
    };
    let mut per: std::collections::BTreeMap<&str, usize> = Default::default();
    for c in &cases { *per.entry(c.space).or_default() += 1; }
    eprintln!("{} cases {:?}", cases.len(), per);
    if args.get(2).map(|s| s == "@").unwrap_or(false) {
        // gendump <which> @ <first> <len>  — or  @ find <substr> <batch> : the batch containing the case
        if args.get(3).map(|s| s == "find").unwrap_or(false) {
            let idx = cases.iter().position(|c| c.desc.contains(args[4].as_str())).expect("no such case");
            let b: usize = args[5].parse().unwrap();
            let first = idx / b * b;
            eprintln!("case index {idx}, batch {first}..{}", first + b);
            println!("{}", vh_comp::gen::render_package(&cases[first..(first + b).min(cases.len())]));
        } else {
            let first: usize = args[3].parse().unwrap();
            let len: usize = args[4].parse().unwrap();
            println!("{}", vh_comp::gen::render_package(&cases[first..(first + len).min(cases.len())]));
        }
        return;
    }
    if let Some(f) = args.get(2) {
        let sel: Vec<_> = cases.iter().filter(|c| c.desc.contains(f.as_str())).take(args.get(3).and_then(|s| s.parse().ok()).unwrap_or(5)).cloned().collect();
        println!("{}", vh_comp::gen::render_package(&sel));
    }
}

//! Scratch: dump generated corpus statistics / one rendered package.
fn main() {
    let args: Vec<String> = std::env::args().collect();
    let cases = vh_comp::spaces::corpus(args.get(1).map(|s| s == "thorough").unwrap_or(false));
    let mut per: std::collections::BTreeMap<&str, usize> = Default::default();
    for c in &cases { *per.entry(c.space).or_default() += 1; }
    eprintln!("{} cases {:?}", cases.len(), per);
    if let Some(f) = args.get(2) {
        let sel: Vec<_> = cases.iter().filter(|c| c.desc.contains(f.as_str())).take(args.get(3).and_then(|s| s.parse().ok()).unwrap_or(5)).cloned().collect();
        println!("{}", vh_comp::gen::render_package(&sel));
    }
}

//! C07 — assembly-level optimisations preserve behaviour: every corpus case built with
//! `AbstractInstructionSet::optimize` enabled and skipped (hook H2), in both profiles.
use serde_json::json;
use vh_comp::campaign::*;
use vh_comp::pool::Pool;
use vh_comp::worker::BuildSpec;

fn main() {
    let a = vhcore::parse_args();
    vh_comp::maybe_serve_worker(&a);
    let code = match a.cmd.as_str() {
        "check" => run(&a),
        "replay" => vh_comp::replay::replay_case(&a),
        _ => vhcore::machinery_failure("usage: c07 check C07 --tier quick|thorough"),
    };
    std::process::exit(code);
}

fn run(a: &vhcore::Args) -> i32 {
    let mut rep = vhcore::Reporter::from_args(a, "exploration");
    let thorough = a.tier == vhcore::Tier::Thorough;
    let mut cases = vh_comp::spaces::corpus(thorough);
    cases.extend(vh_comp::spaces::asm_shapes());
    let pool = Pool::new(a.jobs, vhcore::work_dir("C07"));
    let noopt = |label: &str, release: bool| BuildSpec { label: label.into(), release, run_tests: true, skip_asm_opt: true, ..Default::default() };
    let specs = vec![spec("debug", false), noopt("debug-noasmopt", false), spec("release", true), noopt("release-noasmopt", true)];
    let res = run_campaign(&pool, "c07", &cases, 250, &specs);
    let mut outcomes = vhcore::Distinct::default();
    let mut pairs = 0u64;
    for cr in &res.per_case {
        let case = &cases[cr.case_idx];
        for (on, off) in [("debug", "debug-noasmopt"), ("release", "release-noasmopt")] {
            let (Some(x), Some(y)) = (cr.builds.get(on), cr.builds.get(off)) else { continue };
            pairs += 1;
            if let CaseBuild::Ran(o) = x {
                outcomes.add(&format!("{o:?}"));
            }
            if let Some((kind, msg)) = diff_builds(y, x) {
                let key = match case.known_class {
                    Some(k) => format!("C07|{k}"),
                    None => format!("C07|{}|{on}|{kind}", shape_of(case)),
                };
                let mut rj = vh_comp::replay::case_replay_json(case, on, on == "release");
                rj["how"] = json!("build with and without AbstractInstructionSet::optimize (cfg fuellabs_sway_verif, sway_core::verif::set_skip_asm_opt) and compare test t0");
                rep.violation(&key, &format!("{} [{on}]: asm optimiser off vs on: {msg}", case.desc), rj);
            }
        }
    }
    if outcomes.len() < 2 {
        vhcore::machinery_failure("vacuous: fewer than 2 distinct outcomes");
    }
    let mut differing = 0u64;
    for b in &res.batches {
        for pair in b.outs.chunks(2) {
            if pair.len() == 2 && pair[0].ok && pair[1].ok && pair[0].bytecode_hash != pair[1].bytecode_hash {
                differing += 1;
            }
        }
    }
    if differing == 0 {
        vhcore::machinery_failure("vacuous: skipping the asm optimiser never changed any bytecode (hook H2 not effective?)");
    }
    rep.set("evaluations", pairs);
    rep.set("distinct_nontrivial", outcomes.len() as u64);
    rep.set("rule", "every case of the standard corpus plus asm-optimiser shapes, each profile built with the abstract-instruction optimiser on and off (hook H2); compared: ordered log ids+payloads, revert status and code; distinct_nontrivial = distinct outcomes");
    rep.set("package_builds_whose_bytecode_differs_on_vs_off", differing);
    rep.set("packages_built", res.packages_built as u64);
    rep.set("exhaustive", true);
    for c in cases.iter().step_by((cases.len() / 6).max(1)) {
        rep.sample(json!({"case": c.desc}));
    }
    rep.assume("the un-optimised instruction stream is the reference: a bug shared by both variants is C01's to find");
    rep.finish()
}

//! Scratch probe (not a registered check): compile one package in both modes, run tests.
use vh_comp::worker::*;
fn main() {
    let a = vhcore::parse_args();
    vh_comp::maybe_serve_worker(&a);
    vh_comp::install_panic_hook();
    let src = std::fs::read_to_string(&a.rest[0]).unwrap();
    let root = vhcore::work_dir("probe");
    let mut w = Worker::new(root);
    let req = Request {
        id: 1,
        name: "probe_pkg".into(),
        src,
        extra_files: vec![],
        with_std: true,
        existing_dir: None,
        builds: vec![
            BuildSpec { label: "F-debug".into(), release: false, run_tests: true, check_regalloc: true, verify_each: true, roundtrip_stages: vec![usize::MAX], want_diagnostics: true, ..Default::default() },
            BuildSpec { label: "F-release".into(), release: true, run_tests: true, check_regalloc: true, verify_each: true, roundtrip_stages: vec![usize::MAX], ..Default::default() },
            BuildSpec { label: "F-debug2".into(), release: false, run_tests: true, skip_asm_opt: true, ..Default::default() },
            BuildSpec { label: "A-debug".into(), release: false, mode_a: true, run_tests: true, ..Default::default() },
            BuildSpec { label: "A-release".into(), release: true, mode_a: true, run_tests: true, ..Default::default() },
        ],
    };
    let resp = w.handle(&req);
    for b in &resp.builds {
        println!("{} ok={} err={} panic={:?}@{} bc={} len={} ms={} regalloc={:?} reports={:?} passes={} vf={:?} rt={}/{:?} diags={:?}", b.label, b.ok, b.error, b.panic, b.panic_loc, b.bytecode_hash, b.bytecode_len, b.millis, b.regalloc_stats, b.regalloc_reports, b.passes_run.len(), b.verify_failures, b.roundtrip_stages_checked, b.roundtrip_failures.iter().take(2).collect::<Vec<_>>(), b.diagnostics);
        for t in &b.tests { println!("   {} {:?} passed={} gas={}", t.name, t.outcome, t.passed, t.gas); }
        if !b.run_error.is_empty() { println!("   run_error {}", b.run_error); }
    }
}

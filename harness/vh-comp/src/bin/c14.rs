//! C14 — Match exhaustiveness and reachability are exact.
//!
//! Bounded-exhaustive: every pattern matrix with ≤ N arms over six scrutinee types and fixed
//! per-type pattern alphabets (vh_comp::matchgen) becomes one Sway function
//! `fn mK(x: T) -> u64 { match x { p1 => 1, … } }`; hundreds of functions per generated package.
//! Oracle: brute force over the full value space of the type (u8 fully). Compared with the
//! compiler: (1) non-exhaustive error iff some value is uncovered, (2) every listed witness denotes
//! an uncovered value of the scrutinee type, (3) unreachable-arm warning iff the arm matches nothing
//! left by earlier arms, (4) the compiled function returns the brute-force arm index on every
//! value, debug and release.
//!
//! Per batch: package 1 (all functions, no tests) gives the diagnostics; the functions with errors
//! are removed and package 2 (remaining functions + one `#[test]` each) is built in debug and
//! release and run. Both packages of a batch go to the same long-lived worker subprocess
//! (`<this binary> worker <scratch>`, protocol of vh_comp::worker), so std is type-checked once per
//! worker and profile.

use serde_json::{json, Value};
use std::collections::{BTreeMap, HashMap};
use std::io::{BufRead, BufReader, Write};
use std::path::PathBuf;
use std::process::{Child, ChildStdin, Command, Stdio};
use std::sync::atomic::{AtomicUsize, Ordering};
use std::sync::mpsc;
use std::sync::Mutex;
use std::time::{Duration, Instant};
use vh_comp::matchgen::*;
use vh_comp::worker::*;

const ID: &str = "C14";
const UNREACHABLE_MSG: &str = "This match arm is unreachable.";
const NO_ARM_MATCHED_REVERT: u64 = 0xcccc_cccc_cccc_0002;
/// cases confirmed alone (own package, Mode A) per class key
const CONFIRM_PER_KEY: usize = 1;
const BATCH: usize = 160;

fn main() {
    let a = vhcore::parse_args();
    vh_comp::maybe_serve_worker(&a);
    vh_comp::install_panic_hook();
    let code = match a.cmd.as_str() {
        "check" => run(&a),
        "replay" => replay(&a),
        "dev" => dev(&a),
        _ => vhcore::machinery_failure("usage: c14 check C14 --tier quick|thorough | replay C14 <path>"),
    };
    std::process::exit(code);
}

// ---------------------------------------------------------------------------------------------
// Declared space

struct Space {
    cases: Vec<Case>,
    closed_form: u64,
    description: Vec<String>,
    caps: Vec<String>,
    levels: Vec<String>,
}

fn push_matrices(out: &mut Vec<Case>, ty: Ty, alpha: &[Pat], arms: usize) {
    let k = alpha.len();
    let total = k.pow(arms as u32);
    for code in 0..total {
        let mut c = code;
        let mut idx = vec![0usize; arms];
        for j in (0..arms).rev() {
            idx[j] = c % k;
            c /= k;
        }
        out.push(Case {
            ty,
            arms: idx.iter().map(|i| alpha[*i].clone()).collect(),
        });
    }
}

/// Alphabet level per arm count.
/// quick:    1–2 arms Full, 3 arms Mini.
/// thorough: 1–2 arms Full, 3 arms Mid, 4 arms Mini.
fn levels(tier: vhcore::Tier) -> Vec<Level> {
    tier.pick(
        vec![Level::Full, Level::Full, Level::Mini],
        vec![Level::Full, Level::Full, Level::Mid, Level::Mini],
    )
}

fn space(tier: vhcore::Tier) -> Space {
    let lv = levels(tier);
    let mut cases = vec![];
    let mut closed = 0u64;
    let mut description = vec![];
    // simplest first: by arm count, then by type
    for (k, level) in lv.iter().enumerate() {
        let arms = k + 1;
        for ty in ALL_TYS {
            let alpha = alphabet(ty, *level);
            closed += (alpha.len() as u64).pow(arms as u32);
            push_matrices(&mut cases, ty, &alpha, arms);
        }
    }
    // every matrix that contains an integer literal also in its suffixed spelling (`0u8`): the
    // compiler analyses suffixed literals on the type's own range (Pattern::U8), unsuffixed ones as
    // Pattern::Numeric on the u64 range — two different code paths of the usefulness algorithm
    let twins: Vec<Case> = cases
        .iter()
        .filter(|c| {
            let mut has = false;
            for a in &c.arms {
                a.walk(&mut |p| {
                    if matches!(p, vh_comp::matchgen::Pat::Int(_)) {
                        has = true;
                    }
                });
            }
            has
        })
        .map(|c| Case { ty: c.ty, arms: c.arms.iter().map(vh_comp::matchgen::suffix_ints).collect() })
        .collect();
    closed += twins.len() as u64;
    description.push(format!("{} matrices with integer literals are repeated with suffixed literals (`255u8`)", twins.len()));
    cases.extend(twins);
    description.push(format!(
        "alphabet level per arm count: {}",
        lv.iter().enumerate().map(|(k, l)| format!("{} arm(s): {}", k + 1, l.name())).collect::<Vec<_>>().join(", ")
    ));
    let mut used: Vec<Level> = vec![];
    for l in &lv {
        if !used.contains(l) {
            used.push(*l);
        }
    }
    for ty in ALL_TYS {
        for l in &used {
            let al = alphabet(ty, *l);
            description.push(format!(
                "{} ({} values) {} alphabet, {} patterns: {}",
                ty.sway(),
                ty.n_values(),
                l.name(),
                al.len(),
                al.iter().map(|p| p.print()).collect::<Vec<_>>().join("  ;  ")
            ));
        }
    }
    let caps = vec![
        format!(
            "matrices with ≥ 3 arms are enumerated over reduced alphabets ({}) instead of the Full alphabets (10–47 patterns per type): the measured cost of a function that compiles (debug + release build + run on every value) is ≈ 10–35 ms, not the 1.5 ms assumed in DESIGN.md",
            lv.iter().enumerate().skip(2).map(|(k, l)| format!("{} arms: {}", k + 1, l.name())).collect::<Vec<_>>().join(", ")
        ),
    ];
    Space {
        cases,
        closed_form: closed,
        description,
        caps,
        levels: lv.iter().map(|l| l.name().to_string()).collect(),
    }
}

// ---------------------------------------------------------------------------------------------
// Observations and evaluation

#[derive(Clone, Debug)]
enum RunResult {
    Words(Vec<u64>),
    Reverted(u64),
    Failed(String),
}

#[derive(Clone, Debug, Default)]
struct Observed {
    /// messages of all compile errors whose span lies inside the function
    errors: Vec<String>,
    /// unreachable-arm warning per arm
    warned: Vec<bool>,
    /// (build label, outcome of the function's `#[test]`); present only when the function compiled
    runs: Vec<(String, RunResult)>,
    /// the compiler died / panicked on this function alone
    crashed: Option<String>,
}

#[derive(Clone, Debug)]
struct Finding {
    key: String,
    what: String,
}

fn first_line(s: &str) -> String {
    s.lines().next().unwrap_or("").trim().to_string()
}

fn tuple_alternatives(w: &WPat) -> Vec<&WPat> {
    match w {
        WPat::Or(ws) => ws.iter().flat_map(tuple_alternatives).collect(),
        w => vec![w],
    }
}

#[derive(PartialEq)]
enum Misprint {
    No,
    /// some re-ordering / repetition of the printed tuple elements denotes an uncovered value
    DenotesUncovered,
    /// some re-ordering is a pattern of the type whose u8 interval lies entirely above 255
    AboveU8Max,
}

/// Would the witness denote an uncovered value if the printed tuple elements were put back in
/// some order / multiplicity (the message prints tuple elements sorted and de-duplicated)?
fn misprint_hypothesis(w: &WPat, sh: &Shape, values: &[Val], uncovered: &[&Val]) -> Misprint {
    let Shape::Tuple(ss) = sh else { return Misprint::No };
    let mut res = Misprint::No;
    for alt in tuple_alternatives(w) {
        if let WPat::Tuple(printed) = alt {
            for cand in unscramble_tuple(printed, ss.len()) {
                if &cand == alt || !cand.well_typed(sh) {
                    continue;
                }
                if uncovered.iter().any(|v| cand.denotes(v, sh)) {
                    return Misprint::DenotesUncovered;
                }
                if cand.has_interval_above_u8(sh) && !values.iter().any(|v| cand.denotes(v, sh)) {
                    res = Misprint::AboveU8Max;
                }
            }
        }
    }
    res
}

fn evaluate(case: &Case, orc: &Oracle, values: &[Val], obs: &Observed) -> Vec<Finding> {
    let sh = case.ty.shape();
    let kind = sh.kind();
    let feats = features(&case.arms);
    let feat = feats.key();
    let mut out = vec![];
    if let Some(c) = &obs.crashed {
        out.push(Finding {
            key: format!("compiler-crash|{}|{kind}|{feat}", vhcore::truncate(&first_line(c), 80)),
            what: format!("{}: the compiler crashed: {c}", case.show()),
        });
        return out;
    }
    let nonexh: Vec<&String> = obs.errors.iter().filter(|e| e.starts_with(NON_EXHAUSTIVE_PREFIX)).collect();
    let internal: Vec<&String> = obs.errors.iter().filter(|e| e.contains("Internal compiler error")).collect();
    let other: Vec<&String> = obs
        .errors
        .iter()
        .filter(|e| !e.starts_with(NON_EXHAUSTIVE_PREFIX) && !e.contains("Internal compiler error"))
        .collect();
    for e in &other {
        out.push(Finding {
            key: format!("unexpected-compile-error|{}|{kind}|{feat}", vhcore::truncate(&first_line(e), 80)),
            what: format!("{}: unexpected compile error: {e}", case.show()),
        });
    }
    for e in &internal {
        out.push(Finding {
            key: format!(
                "analysis-internal-error|{}|{kind}|{feat}",
                first_line(e).trim_start_matches("Internal compiler error: ")
            ),
            what: format!(
                "{}: usefulness analysis aborted with `{}` (brute force: {})",
                case.show(),
                first_line(e),
                if orc.exhaustive { "exhaustive" } else { "not exhaustive" }
            ),
        });
    }
    if !other.is_empty() || !internal.is_empty() {
        // the analysis did not complete: nothing else can be compared
        return out;
    }
    let rejected = !nonexh.is_empty();
    // (1) exhaustiveness verdict
    if rejected && orc.exhaustive {
        out.push(Finding {
            key: format!("exhaustive-match-rejected|{kind}|{feat}"),
            what: format!("{}: every value is covered but the compiler says: {}", case.show(), nonexh[0]),
        });
    }
    if !rejected && !orc.exhaustive {
        let k = orc.first.iter().position(|f| *f == 0).unwrap();
        out.push(Finding {
            key: format!("non-exhaustive-match-accepted|{kind}|{feat}"),
            what: format!(
                "{}: value {} is matched by no arm but the compiler accepts the match",
                case.show(),
                show_val(&values[k], &sh)
            ),
        });
    }
    // (2) witnesses
    if rejected && !orc.exhaustive {
        let uncovered: Vec<&Val> = values.iter().zip(&orc.first).filter(|(_, f)| **f == 0).map(|(v, _)| v).collect();
        for msg in &nonexh {
            let texts = match witness_texts(msg) {
                Ok(t) => t,
                Err(e) => {
                    out.push(Finding {
                        key: format!("witness-list-unparsable|{kind}|{feat}"),
                        what: format!("{}: {e}", case.show()),
                    });
                    continue;
                }
            };
            let mut seen: Vec<String> = vec![];
            for t in texts {
                if seen.contains(&t) {
                    continue;
                }
                seen.push(t.clone());
                let w = match parse_witness(&t) {
                    Ok(w) => w,
                    Err(e) => {
                        out.push(Finding {
                            key: format!("witness-unparsable|{kind}|{feat}"),
                            what: format!("{}: witness `{t}`: {e}", case.show()),
                        });
                        continue;
                    }
                };
                if uncovered.iter().any(|v| w.denotes(v, &sh)) {
                    continue;
                }
                let ex = show_val(uncovered[0], &sh);
                let misprint = misprint_hypothesis(&w, &sh, values, &uncovered);
                let vacuous_above = (
                    "witness-vacuous|scrutinee-position-is-u8|interval-entirely-above-255".to_string(),
                    "denotes no value of the scrutinee type: its integer interval lies entirely above u8::MAX".to_string(),
                );
                let misprinted = (
                    "witness-misprinted|tuple-elements-sorted-or-deduplicated".to_string(),
                    "does not denote an uncovered value as printed; re-ordering / repeating the printed tuple elements (the message prints them sorted and de-duplicated) gives a pattern that does".to_string(),
                );
                let (key, why) = if misprint == Misprint::DenotesUncovered {
                    misprinted
                } else if !w.well_typed(&sh) {
                    if misprint == Misprint::AboveU8Max {
                        (
                            vacuous_above.0,
                            format!("(tuple elements printed sorted) {}", vacuous_above.1),
                        )
                    } else {
                        (
                            format!("witness-not-a-pattern-of-the-scrutinee-type|{kind}|{feat}"),
                            "is not a pattern of the scrutinee type, so it denotes no value of it".to_string(),
                        )
                    }
                } else if !values.iter().any(|v| w.denotes(v, &sh)) {
                    if w.has_interval_above_u8(&sh) {
                        vacuous_above
                    } else {
                        (
                            format!("witness-vacuous|other|{kind}|{feat}"),
                            "denotes no value of the scrutinee type".to_string(),
                        )
                    }
                } else {
                    (
                        format!("witness-covered|{kind}|{feat}"),
                        "denotes only values that are covered by the arms".to_string(),
                    )
                };
                out.push(Finding {
                    key,
                    what: format!(
                        "{}: reported missing pattern `{t}` {why} (a really uncovered value: {ex}; full message: {msg})",
                        case.show()
                    ),
                });
            }
        }
    }
    // (3) reachability
    for j in 0..case.arms.len() {
        let warned = obs.warned.get(j).copied().unwrap_or(false);
        let unreachable = !orc.reachable[j];
        if unreachable && !warned {
            let catch_all = case.arms[j].is_catch_all_like_compiler();
            let first_interior_catch_all = catch_all
                && j + 1 < case.arms.len()
                && !case.arms[..j].iter().any(|p| p.is_catch_all_like_compiler());
            let key = if first_interior_catch_all {
                // kind and features are part of the key: on a tree where the interior catch-all
                // arm IS checked, the remaining cases are the ones whose cause is the analysis itself
                format!("unreachable-arm-not-warned|arm-is-first-interior-catch-all|{kind}|{feat}")
            } else {
                format!("unreachable-arm-not-warned|{kind}|{feat}")
            };
            out.push(Finding {
                key,
                what: format!(
                    "{}: arm {} (`{}`) matches no value left by the earlier arms but no unreachable-arm warning was issued for it",
                    case.show(),
                    j + 1,
                    case.arms[j].print()
                ),
            });
        }
        if !unreachable && warned {
            let k = orc.first.iter().position(|f| *f as usize == j + 1).unwrap();
            out.push(Finding {
                key: format!("reachable-arm-warned|{kind}|{feat}"),
                what: format!(
                    "{}: arm {} (`{}`) is reported unreachable but it is the first arm matching {}",
                    case.show(),
                    j + 1,
                    case.arms[j].print(),
                    show_val(&values[k], &sh)
                ),
            });
        }
    }
    // (4) run time
    if !rejected && orc.exhaustive && !obs.runs.is_empty() {
        let want = expected_words(&orc.first);
        let mut bad: Vec<(String, String)> = vec![]; // (profile, description)
        for (label, r) in &obs.runs {
            let profile = if label.contains("release") { "release" } else { "debug" };
            match r {
                RunResult::Words(w) if *w == want => {}
                RunResult::Words(w) => {
                    let got = unpack_words(w, values.len());
                    let k = (0..values.len()).find(|k| got.get(*k) != orc.first.get(*k)).unwrap_or(0);
                    bad.push((
                        profile.to_string(),
                        format!(
                            "[{label}] on value {} the compiled function returned {:?}, the first matching arm is {}",
                            show_val(&values[k], &sh),
                            got.get(k),
                            orc.first[k]
                        ),
                    ));
                }
                RunResult::Reverted(code) => bad.push((
                    profile.to_string(),
                    format!("[{label}] the test reverted with code {code:#x} although every value has a matching arm"),
                )),
                RunResult::Failed(e) => bad.push((profile.to_string(), format!("[{label}] {e}"))),
            }
        }
        if !bad.is_empty() {
            // root-cause hypothesis: irrefutable or-alternatives are dropped from the disjunction
            let model: Vec<u8> = values
                .iter()
                .map(|v| {
                    case.arms
                        .iter()
                        .position(|p| p.matches_dropping_irrefutable_or_alternatives(v, &sh))
                        .map(|j| (j + 1) as u8)
                        .unwrap_or(0)
                })
                .collect();
            let model_reverts = model.iter().any(|f| *f == 0);
            let model_words = expected_words(&model);
            let explained = feats.or_irrefutable_alt
                && obs.runs.iter().all(|(_, r)| match r {
                    RunResult::Words(w) => !model_reverts && *w == model_words,
                    RunResult::Reverted(c) => model_reverts && *c == NO_ARM_MATCHED_REVERT,
                    RunResult::Failed(_) => false,
                });
            let mut profiles: Vec<&str> = bad.iter().map(|(p, _)| p.as_str()).collect();
            profiles.sort();
            profiles.dedup();
            let key = if explained {
                "runtime-first-matching-arm-not-executed|irrefutable-or-alternative-is-ignored".to_string()
            } else {
                format!("runtime-first-matching-arm-not-executed|{}|{kind}|{feat}", profiles.join("+"))
            };
            out.push(Finding {
                key,
                what: format!(
                    "{}: {}",
                    case.show(),
                    bad.iter().map(|(_, d)| d.clone()).collect::<Vec<_>>().join("; ")
                ),
            });
        }
    }
    out
}

// ---------------------------------------------------------------------------------------------
// Long-lived worker subprocesses (protocol of vh_comp::worker: one JSON request per line on stdin,
// one `@@RESP <json>` line per response)

struct Proc {
    child: Child,
    stdin: ChildStdin,
    rx: mpsc::Receiver<Option<String>>,
    served: usize,
}

fn spawn_worker(scratch: &PathBuf) -> Proc {
    let exe = std::env::current_exe().expect("current_exe");
    let mut child = Command::new(exe)
        .arg("worker")
        .arg(scratch)
        .stdin(Stdio::piped())
        .stdout(Stdio::piped())
        .stderr(Stdio::null())
        .spawn()
        .unwrap_or_else(|e| vhcore::machinery_failure(&format!("cannot spawn worker: {e}")));
    let stdin = child.stdin.take().unwrap();
    let stdout = child.stdout.take().unwrap();
    let (tx, rx) = mpsc::channel();
    std::thread::spawn(move || {
        let rd = BufReader::new(stdout);
        for line in rd.lines() {
            match line {
                Ok(l) => {
                    if let Some(rest) = l.strip_prefix("@@RESP ") {
                        if tx.send(Some(rest.to_string())).is_err() {
                            return;
                        }
                    }
                }
                Err(_) => break,
            }
        }
        let _ = tx.send(None);
    });
    Proc {
        child,
        stdin,
        rx,
        served: 0,
    }
}

struct Handle {
    scratch: PathBuf,
    proc: Option<Proc>,
    timeout: Duration,
    recycle_after: usize,
    seq: usize,
    tag: String,
    requests: usize,
    builds: usize,
    /// summed `BuildOut.millis` per build label
    millis: BTreeMap<String, u64>,
}

impl Handle {
    fn new(scratch: PathBuf, tag: String) -> Handle {
        Handle {
            scratch,
            proc: None,
            timeout: Duration::from_secs(900),
            recycle_after: 40,
            seq: 0,
            tag,
            requests: 0,
            builds: 0,
            millis: BTreeMap::new(),
        }
    }
    fn shutdown(&mut self) {
        if let Some(mut p) = self.proc.take() {
            drop(p.stdin);
            let _ = p.child.wait();
        }
    }
    fn kill(&mut self) {
        if let Some(mut p) = self.proc.take() {
            let _ = p.child.kill();
            let _ = p.child.wait();
        }
    }
    fn call(&mut self, src: &str, builds: Vec<BuildSpec>) -> Result<Response, String> {
        if self.proc.as_ref().map(|p| p.served >= self.recycle_after).unwrap_or(false) {
            self.shutdown();
        }
        if self.proc.is_none() {
            self.proc = Some(spawn_worker(&self.scratch));
        }
        self.seq += 1;
        self.requests += 1;
        self.builds += builds.len();
        let req = Request {
            id: self.seq as u64,
            name: format!("c14_{}_{}", self.tag, self.seq),
            src: src.to_string(),
            extra_files: vec![],
            with_std: true,
            existing_dir: None,
            builds,
        };
        let line = serde_json::to_string(&req).unwrap();
        let timeout = self.timeout;
        let t_call = Instant::now();
        let p = self.proc.as_mut().unwrap();
        let res: Result<Response, String> = (|| {
            p.stdin
                .write_all(line.as_bytes())
                .and_then(|_| p.stdin.write_all(b"\n"))
                .and_then(|_| p.stdin.flush())
                .map_err(|e| format!("worker died before request: {e}"))?;
            match p.rx.recv_timeout(timeout) {
                Ok(Some(l)) => serde_json::from_str::<Response>(&l).map_err(|e| format!("bad response: {e}")),
                Ok(None) => {
                    let st = p.child.wait().ok();
                    Err(format!("worker exited during request: {st:?}"))
                }
                Err(_) => Err(format!("timeout after {timeout:?}")),
            }
        })();
        *self.millis.entry("(wall time of worker calls)".into()).or_default() += t_call.elapsed().as_millis() as u64;
        match &res {
            Ok(r) => {
                p.served += 1;
                for b in &r.builds {
                    *self.millis.entry(b.label.clone()).or_default() += b.millis;
                }
            }
            Err(_) => self.kill(),
        }
        res
    }
}

/// Run `f(handle, item index)` for every item on `jobs` threads, each thread owning one worker
/// subprocess for its whole life. Results in index order; also (requests, builds) sent.
fn with_workers<R: Send>(
    jobs: usize,
    scratch: &PathBuf,
    tag: &str,
    n: usize,
    f: &(dyn Fn(&mut Handle, usize) -> R + Sync),
) -> (Vec<R>, usize, usize, BTreeMap<String, u64>) {
    let next = AtomicUsize::new(0);
    let out: Mutex<Vec<(usize, R)>> = Mutex::new(Vec::with_capacity(n));
    let counts: Mutex<(usize, usize, BTreeMap<String, u64>)> = Mutex::new((0, 0, BTreeMap::new()));
    std::thread::scope(|s| {
        for w in 0..jobs.max(1).min(n.max(1)) {
            let (next, out, counts) = (&next, &out, &counts);
            s.spawn(move || {
                let mut h = Handle::new(scratch.join(format!("w{w}")), format!("{tag}{w}"));
                let t_thread = Instant::now();
                let mut n_items = 0usize;
                loop {
                    let i = next.fetch_add(1, Ordering::Relaxed);
                    if i >= n {
                        break;
                    }
                    let r = f(&mut h, i);
                    n_items += 1;
                    out.lock().unwrap().push((i, r));
                }
                h.shutdown();
                if std::env::var("C14_TRACE").is_ok() {
                    eprintln!(
                        "C14 trace: worker {tag}{w}: {n_items} items, {} requests, {:.1}s in calls, {:.1}s total",
                        h.requests,
                        h.millis.get("(wall time of worker calls)").copied().unwrap_or(0) as f64 / 1000.0,
                        t_thread.elapsed().as_secs_f64()
                    );
                }
                let mut c = counts.lock().unwrap();
                c.0 += h.requests;
                c.1 += h.builds;
                for (l, ms) in &h.millis {
                    *c.2.entry(l.clone()).or_default() += ms;
                }
            });
        }
    });
    let mut v = out.into_inner().unwrap();
    v.sort_by_key(|(i, _)| *i);
    let c = counts.into_inner().unwrap();
    (v.into_iter().map(|(_, r)| r).collect(), c.0, c.1, c.2)
}

// ---------------------------------------------------------------------------------------------
// Driving the compiler on one group of cases

fn spec(label: &str, release: bool, mode_a: bool, run_tests: bool) -> BuildSpec {
    BuildSpec {
        label: label.into(),
        release,
        mode_a,
        run_tests,
        want_diagnostics: true,
        ..Default::default()
    }
}

fn split_group(g: &[usize]) -> Vec<Vec<usize>> {
    let parts = 4.min(g.len());
    let sz = g.len().div_ceil(parts);
    g.chunks(sz).map(|c| c.to_vec()).collect()
}

type Attributed = HashMap<usize, (Vec<String>, Vec<bool>)>;

/// Attribute the diagnostics of one build to the functions of its source (by byte span).
/// Err(reason) when something cannot be attributed (⇒ the group is bisected).
fn attribute(src: &Source, b: &BuildOut, cases: &[Case]) -> Result<Attributed, String> {
    let mut m: Attributed = HashMap::new();
    for id in src.ids.iter() {
        m.insert(*id, (vec![], vec![false; cases[*id].arms.len()]));
    }
    let find_fn = |start: usize, end: usize| -> Option<usize> {
        // spans are sorted by start
        let k = src.spans.partition_point(|s| s.end <= start);
        let s = src.spans.get(k)?;
        if s.start <= start && end <= s.end {
            Some(k)
        } else {
            None
        }
    };
    for d in &b.diagnostics {
        if !d.is_error {
            continue;
        }
        match find_fn(d.start, d.end) {
            Some(k) => m.get_mut(&src.ids[k]).unwrap().0.push(d.message.clone()),
            None => {
                return Err(format!(
                    "error outside every generated function [{}..{}]: {}",
                    d.start,
                    d.end,
                    vhcore::truncate(&d.message, 200)
                ))
            }
        }
    }
    for w in &b.warnings {
        if w.message != UNREACHABLE_MSG {
            continue;
        }
        let Some(k) = find_fn(w.start, w.end) else {
            return Err(format!("unreachable-arm warning outside every generated function [{}..{}]", w.start, w.end));
        };
        let Some(j) = src.spans[k].arms.iter().position(|(s, e)| *s == w.start && *e == w.end) else {
            return Err(format!(
                "unreachable-arm warning span [{}..{}] is not exactly one arm pattern of fn m{}",
                w.start, w.end, src.ids[k]
            ));
        };
        m.get_mut(&src.ids[k]).unwrap().1[j] = true;
    }
    Ok(m)
}

#[derive(Default)]
struct GroupOut {
    obs: Vec<(usize, Observed)>,
    /// Some(true) when this group carried the Mode F = Mode A self-check and it passed
    self_check: Option<bool>,
}

/// Phase 1 (diagnostics) for a group, bisecting on worker death / compiler panic.
fn phase1(h: &mut Handle, cases: &[Case], g: &[usize], mode_a: bool, out: &mut HashMap<usize, Observed>) {
    if g.is_empty() {
        return;
    }
    let cs: Vec<(usize, &Case)> = g.iter().map(|i| (*i, &cases[*i])).collect();
    let src = gen_source(&cs, false);
    let label = if mode_a { "A-debug" } else { "F-debug" };
    let res: Result<Attributed, String> = (|| {
        let r = h.call(&src.text, vec![spec(label, false, mode_a, false)])?;
        let b = r.builds.first().ok_or("no build output")?;
        if let Some(p) = &b.panic {
            return Err(format!("compiler panic: {} at {}", vhcore::truncate(p, 200), b.panic_loc));
        }
        if !b.ok && !b.diagnostics.iter().any(|d| d.is_error) {
            return Err(format!("build failed without diagnostics: {}", vhcore::truncate(&b.error, 200)));
        }
        attribute(&src, b, cases)
    })();
    match res {
        Ok(m) => {
            for (id, (errors, warned)) in m {
                let o = out.entry(id).or_default();
                o.errors = errors;
                o.warned = warned;
            }
        }
        Err(reason) => {
            if g.len() == 1 {
                let o = out.entry(g[0]).or_default();
                o.warned = vec![false; cases[g[0]].arms.len()];
                o.crashed = Some(reason);
            } else {
                for part in split_group(g) {
                    phase1(h, cases, &part, mode_a, out);
                }
            }
        }
    }
}

/// Phase 2 (tests, debug + release) for the functions of a group that compile.
fn phase2(
    h: &mut Handle,
    cases: &[Case],
    g: &[usize],
    mode_a: bool,
    self_check: &mut Option<bool>,
    want_self_check: bool,
    out: &mut HashMap<usize, Observed>,
) {
    if g.is_empty() {
        return;
    }
    let cs: Vec<(usize, &Case)> = g.iter().map(|i| (*i, &cases[*i])).collect();
    let src = gen_source(&cs, true);
    let checking = want_self_check && self_check.is_none() && !mode_a;
    let mut builds = if mode_a {
        vec![spec("A-debug", false, true, true), spec("A-release", true, true, true)]
    } else {
        vec![spec("F-debug", false, false, true), spec("F-release", true, false, true)]
    };
    if checking {
        builds.push(spec("A-debug", false, true, true));
        builds.push(spec("A-release", true, true, true));
    }
    type PerFn = HashMap<usize, Vec<(String, RunResult)>>;
    let res: Result<PerFn, String> = (|| {
        let r = h.call(&src.text, builds)?;
        let mut per: PerFn = HashMap::new();
        for b in &r.builds {
            if let Some(p) = &b.panic {
                return Err(format!("[{}] compiler panic: {} at {}", b.label, vhcore::truncate(p, 200), b.panic_loc));
            }
            if !b.ok {
                let e = b
                    .diagnostics
                    .iter()
                    .find(|d| d.is_error)
                    .map(|d| d.message.clone())
                    .unwrap_or_else(|| b.error.clone());
                return Err(format!("[{}] build failed: {}", b.label, vhcore::truncate(&e, 300)));
            }
            if !b.run_error.is_empty() {
                return Err(format!("[{}] test run failed: {}", b.label, vhcore::truncate(&b.run_error, 300)));
            }
            let m = attribute(&src, b, cases)?;
            let tests = tests_map(b);
            for id in g {
                if out.get(id).map(|o| o.warned != m[id].1).unwrap_or(true) {
                    vhcore::machinery_failure(&format!(
                        "[{}] unreachable-arm warnings of m{id} differ between the diagnosing compile and the test build",
                        b.label
                    ));
                }
                let r = match tests.get(&format!("t{id}")) {
                    None => RunResult::Failed("test entry missing from the test run".to_string()),
                    Some(vh_comp::engine::Outcome::Revert { code, .. }) => RunResult::Reverted(*code),
                    Some(vh_comp::engine::Outcome::Ok { logs }) => {
                        let mut ws = vec![];
                        let mut bad = None;
                        for l in logs {
                            if l.data.len() != 8 {
                                bad = Some(format!("log of {} bytes", l.data.len()));
                                break;
                            }
                            ws.push(u64::from_be_bytes(l.data[..8].try_into().unwrap()));
                        }
                        match bad {
                            Some(e) => RunResult::Failed(e),
                            None => RunResult::Words(ws),
                        }
                    }
                };
                per.entry(*id).or_default().push((b.label.clone(), r));
            }
        }
        if checking {
            let by = |l: &str| r.builds.iter().find(|b| b.label == l).cloned();
            for (fl, al) in [("F-debug", "A-debug"), ("F-release", "A-release")] {
                let (Some(f), Some(a)) = (by(fl), by(al)) else {
                    vhcore::machinery_failure("self-check builds missing");
                };
                if f.bytecode_hash != a.bytecode_hash
                    || f.abi_hash != a.abi_hash
                    || f.storage_hash != a.storage_hash
                    || f.bytecode_hash.is_empty()
                {
                    vhcore::machinery_failure(&format!(
                        "Mode F and Mode A artefacts differ for {fl} ({} vs {})",
                        f.bytecode_hash, a.bytecode_hash
                    ));
                }
            }
        }
        Ok(per)
    })();
    match res {
        Ok(per) => {
            if checking {
                *self_check = Some(true);
            }
            for (id, runs) in per {
                out.entry(id).or_default().runs.extend(runs);
            }
        }
        Err(reason) => {
            if g.len() == 1 {
                out.entry(g[0])
                    .or_default()
                    .runs
                    .push((if mode_a { "A-debug" } else { "F-debug" }.into(), RunResult::Failed(reason)));
            } else {
                for part in split_group(g) {
                    phase2(h, cases, &part, mode_a, self_check, want_self_check, out);
                }
            }
        }
    }
}

fn do_group(h: &mut Handle, cases: &[Case], g: &[usize], mode_a: bool, run: bool, want_self_check: bool) -> GroupOut {
    let mut m: HashMap<usize, Observed> = HashMap::new();
    phase1(h, cases, g, mode_a, &mut m);
    let ok: Vec<usize> = g
        .iter()
        .copied()
        .filter(|i| m[i].errors.is_empty() && m[i].crashed.is_none())
        .collect();
    let mut sc = None;
    if run {
        phase2(h, cases, &ok, mode_a, &mut sc, want_self_check, &mut m);
    }
    let mut obs: Vec<(usize, Observed)> = m.into_iter().collect();
    obs.sort_by_key(|(i, _)| *i);
    GroupOut { obs, self_check: sc }
}

fn values_table() -> HashMap<Ty, Vec<Val>> {
    let mut m = HashMap::new();
    for ty in ALL_TYS {
        let v = ty.values();
        if v.len() != ty.n_values() {
            vhcore::machinery_failure("value enumerator disagrees with the closed-form count");
        }
        m.insert(ty, v);
    }
    m
}

fn hex_words(w: &[u64]) -> Vec<String> {
    w.iter().map(|x| format!("{x:#x}")).collect()
}

fn oracle_json(orc: &Oracle, case: &Case, values: &[Val]) -> Value {
    let sh = case.ty.shape();
    let uncovered: Vec<String> = values
        .iter()
        .zip(&orc.first)
        .filter(|(_, f)| **f == 0)
        .take(6)
        .map(|(v, _)| show_val(v, &sh))
        .collect();
    json!({
        "exhaustive": orc.exhaustive,
        "reachable_arms": orc.reachable,
        "uncovered_values_first6": uncovered,
        "uncovered_count": orc.first.iter().filter(|f| **f == 0).count(),
        "expected_logged_words_when_compiled": if orc.exhaustive { json!(hex_words(&expected_words(&orc.first))) } else { Value::Null },
    })
}

fn obs_json(o: &Observed) -> Value {
    let runs: Vec<Value> = o
        .runs
        .iter()
        .map(|(l, r)| {
            let outcome = match r {
                RunResult::Words(w) => json!({"logged_words": hex_words(w)}),
                RunResult::Reverted(c) => json!({"reverted": format!("{c:#x}")}),
                RunResult::Failed(e) => json!({"failed": e}),
            };
            json!({"build": l, "outcome": outcome})
        })
        .collect();
    json!({
        "errors": o.errors,
        "unreachable_warning_per_arm": o.warned,
        "runs": runs,
        "crashed": o.crashed,
    })
}

/// Build each listed case alone (own single-function packages, Mode A) and evaluate it.
fn check_alone(
    jobs: usize,
    scratch: &PathBuf,
    cases: &[Case],
    idxs: &[(usize, bool)],
    values: &HashMap<Ty, Vec<Val>>,
) -> Vec<(Observed, Vec<Finding>)> {
    let (outs, _, _, _) = with_workers(jobs, scratch, "alone", idxs.len(), &|h, k| {
        let (i, run) = idxs[k];
        do_group(h, cases, &[i], true, run, false)
    });
    idxs.iter()
        .zip(outs)
        .map(|((i, _), go)| {
            let c = &cases[*i];
            let vals = &values[&c.ty];
            let orc = oracle(c, vals);
            let o = go.obs.into_iter().next().map(|(_, o)| o).unwrap_or_default();
            let f = evaluate(c, &orc, vals, &o);
            (o, f)
        })
        .collect()
}

fn run(a: &vhcore::Args) -> i32 {
    let t_start = Instant::now();
    let mut rep = vhcore::Reporter::from_args(a, "exploration");
    // scratch for the worker subprocesses; /verif/work/C14 itself also holds fix-*.patch files, so
    // only the scratch sub-directory is wiped
    let work = vhcore::verif_root().join("work").join(ID).join("scratch");
    let _ = std::fs::remove_dir_all(&work);
    std::fs::create_dir_all(&work).unwrap_or_else(|e| vhcore::machinery_failure(&format!("work dir: {e}")));
    let values = values_table();

    // 1. the declared space
    let sp = space(a.tier);
    let cases = &sp.cases;
    if cases.len() as u64 != sp.closed_form {
        vhcore::machinery_failure(&format!(
            "enumerator produced {} matrices, closed form says {}",
            cases.len(),
            sp.closed_form
        ));
    }
    for c in &sp.caps {
        rep.cap(c);
    }
    eprintln!("C14: {} matrices", cases.len());

    // 2. brute-force oracle
    let oracles: Vec<Oracle> = vhcore::par_map(cases, a.jobs, |c| oracle(c, &values[&c.ty]));
    let t_oracle = t_start.elapsed().as_secs_f64();

    // 3. compile (diagnostics) + build with tests + run, batch by batch on long-lived workers
    let all: Vec<usize> = (0..cases.len()).collect();
    let groups: Vec<Vec<usize>> = all.chunks(BATCH).map(|c| c.to_vec()).collect();
    let n_batches = groups.len();
    let done = AtomicUsize::new(0);
    let (outs, n_requests, n_builds, build_millis) = with_workers(a.jobs, &work, "b", groups.len(), &|h, k| {
        let r = do_group(h, cases, &groups[k], false, true, k == 0);
        let d = done.fetch_add(1, Ordering::Relaxed) + 1;
        if d % 50 == 0 {
            eprintln!("C14: {d}/{n_batches} batches at {:.0}s", t_start.elapsed().as_secs_f64());
        }
        r
    });
    let mut obs: Vec<Observed> = vec![Observed::default(); cases.len()];
    let mut seen = vec![false; cases.len()];
    let mut self_check = None;
    for go in outs {
        if go.self_check.is_some() {
            self_check = go.self_check;
        }
        for (i, o) in go.obs {
            obs[i] = o;
            seen[i] = true;
        }
    }
    if seen.iter().any(|s| !*s) {
        vhcore::machinery_failure("some matrices were not compiled");
    }
    if self_check != Some(true) {
        vhcore::machinery_failure("Mode F / Mode A self-check did not run on the first batch");
    }
    let t_build = t_start.elapsed().as_secs_f64();
    eprintln!("C14: builds done at {t_build:.1}s");

    // 4. evaluate
    let findings: Vec<Vec<Finding>> =
        vhcore::par_map_idx(cases.len(), a.jobs, |i| evaluate(&cases[i], &oracles[i], &values[&cases[i].ty], &obs[i]));

    // coverage counters (all measured)
    let mut distinct = vhcore::Distinct::default();
    let mut compiler_outcomes = vhcore::Distinct::default();
    let (mut n_exh, mut n_nonexh, mut n_unreach, mut n_rejected, mut n_warned_arms, mut n_witnesses) =
        (0u64, 0u64, 0u64, 0u64, 0u64, 0u64);
    let (mut n_run_values, mut n_run_fns) = (0u64, 0u64);
    let mut per_type: BTreeMap<&'static str, u64> = BTreeMap::new();
    let mut run_per_type_arms: BTreeMap<String, u64> = BTreeMap::new();
    for (i, c) in cases.iter().enumerate() {
        let o = &oracles[i];
        distinct.add(&(c.ty, &o.first));
        *per_type.entry(c.ty.sway()).or_default() += 1;
        if o.exhaustive {
            n_exh += 1
        } else {
            n_nonexh += 1
        }
        if o.reachable.iter().any(|r| !*r) {
            n_unreach += 1
        }
        let ob = &obs[i];
        compiler_outcomes.add(&(ob.errors.is_empty(), &ob.warned));
        for e in &ob.errors {
            if e.starts_with(NON_EXHAUSTIVE_PREFIX) {
                n_rejected += 1;
                n_witnesses += witness_texts(e).map(|t| t.len()).unwrap_or(0) as u64;
            }
        }
        n_warned_arms += ob.warned.iter().filter(|w| **w).count() as u64;
        let ok_runs = ob
            .runs
            .iter()
            .filter(|(l, r)| l.starts_with("F-") && matches!(r, RunResult::Words(_)))
            .count() as u64;
        if ok_runs > 0 {
            *run_per_type_arms.entry(format!("{} / {} arms", c.ty.sway(), c.arms.len())).or_default() += 1;
            n_run_fns += 1;
            n_run_values += ok_runs * c.ty.n_values() as u64;
        }
    }
    if distinct.len() < 2
        || compiler_outcomes.len() < 2
        || n_exh == 0
        || n_nonexh == 0
        || n_unreach == 0
        || n_rejected == 0
        || n_warned_arms == 0
        || n_run_fns == 0
    {
        vhcore::machinery_failure(&format!(
            "vacuity guard: distinct={} compiler_outcomes={} exhaustive={n_exh} non_exhaustive={n_nonexh} with_unreachable={n_unreach} rejected={n_rejected} warned_arms={n_warned_arms} run_fns={n_run_fns}",
            distinct.len(),
            compiler_outcomes.len()
        ));
    }

    // 5. group by class key, confirm alone, report
    let mut by_key: BTreeMap<String, Vec<(usize, String)>> = BTreeMap::new();
    for (i, fs) in findings.iter().enumerate() {
        for f in fs {
            by_key.entry(f.key.clone()).or_default().push((i, f.what.clone()));
        }
    }
    // Known classes are re-confirmed alone only in the thorough tier (a Mode A build costs seconds).
    let confirm_known = a.tier == vhcore::Tier::Thorough;
    let mut to_confirm: Vec<(usize, bool)> = vec![];
    let mut skipped_known = vec![];
    for (key, v) in &by_key {
        if rep.is_known(key) && !confirm_known {
            skipped_known.push(key.clone());
            continue;
        }
        let needs_run = key.starts_with("runtime-");
        for (i, _) in v.iter().take(CONFIRM_PER_KEY) {
            match to_confirm.iter_mut().find(|(x, _)| x == i) {
                Some(e) => e.1 |= needs_run,
                None => to_confirm.push((*i, needs_run)),
            }
        }
    }
    let alone = if to_confirm.is_empty() {
        vec![]
    } else {
        eprintln!("C14: confirming {} cases alone (Mode A)", to_confirm.len());
        check_alone(a.jobs, &work, cases, &to_confirm, &values)
    };
    let t_confirm = t_start.elapsed().as_secs_f64();
    let mut confirmed_alone = 0u64;
    let mut class_summary = vec![];
    for (key, v) in &by_key {
        let known_unconfirmed = skipped_known.contains(key);
        let mut confirmed: Vec<(usize, &String, Value)> = vec![];
        let mut unconfirmed: Vec<(usize, &String, Value)> = vec![];
        if !known_unconfirmed {
            for (i, what) in v.iter().take(CONFIRM_PER_KEY) {
                let pos = to_confirm.iter().position(|(x, _)| x == i).unwrap();
                let (o, fs) = &alone[pos];
                let c = &cases[*i];
                let cs = [(*i, c)];
                let replay = json!({
                    "case_index": i,
                    "case": c,
                    "show": c.show(),
                    "package_without_tests": gen_source(&cs, false).text,
                    "package_with_tests": gen_source(&cs, true).text,
                    "expected_brute_force": oracle_json(&oracles[*i], c, &values[&c.ty]),
                    "observed_in_batch_mode_f": obs_json(&obs[*i]),
                    "observed_alone_mode_a": obs_json(o),
                });
                if fs.iter().any(|f| &f.key == key) {
                    confirmed.push((*i, what, replay));
                } else {
                    unconfirmed.push((*i, what, replay));
                }
            }
        }
        if known_unconfirmed {
            for (i, what) in v.iter() {
                rep.violation(key, what, json!({"case_index": i, "case": &cases[*i], "show": cases[*i].show()}));
            }
        } else if !confirmed.is_empty() {
            confirmed_alone += confirmed.len() as u64;
            let first = &confirmed[0];
            rep.violation(key, first.1, first.2.clone());
            // further cases of the confirmed class (same classifier key) are counted under it
            for (i, what) in v.iter() {
                if *i != first.0 {
                    rep.violation(key, what, json!({"case_index": i, "case": &cases[*i], "show": cases[*i].show()}));
                }
            }
        } else {
            let k2 = format!("{key}|not-reproduced-alone");
            for (_, what, replay) in &unconfirmed {
                let mut r = replay.clone();
                r["note"] = json!("seen inside a batch package but NOT when the function is compiled alone in Mode A");
                rep.violation(&k2, what, r);
            }
        }
        class_summary.push(json!({
            "key": key,
            "cases": v.len(),
            "confirmed_alone_mode_a": confirmed.len(),
            "not_reproduced_alone": unconfirmed.len(),
            "known_and_not_reconfirmed_in_this_tier": known_unconfirmed,
            "smallest_case": cases[v[0].0].show(),
            "smallest_case_what": v[0].1,
        }));
    }

    // evidence
    rep.set("evaluations", cases.len() as u64);
    rep.set("distinct_nontrivial", distinct.len() as u64);
    rep.set(
        "rule",
        "distinct brute-force outcome tables (scrutinee type, first matching arm for every value of the type) among the enumerated matrices",
    );
    rep.set("exhaustive", true);
    rep.set("matrices_closed_form", sp.closed_form);
    rep.set("matrices_per_type", json!(per_type));
    rep.set("space", json!(sp.description));
    rep.set(
        "bounds",
        json!({
            "max_arms": sp.levels.len(),
            "alphabet_level_per_arm_count": sp.levels,
            "batch_size": BATCH,
            "batches": n_batches,
        }),
    );
    rep.set("oracle_exhaustive_matrices", n_exh);
    rep.set("oracle_non_exhaustive_matrices", n_nonexh);
    rep.set("oracle_matrices_with_unreachable_arm", n_unreach);
    rep.set("compiler_non_exhaustive_errors", n_rejected);
    rep.set("compiler_witnesses_checked", n_witnesses);
    rep.set("compiler_unreachable_arm_warnings", n_warned_arms);
    rep.set("compiler_distinct_outcomes", compiler_outcomes.len() as u64);
    rep.set("functions_compiled_and_run", n_run_fns);
    rep.set("functions_compiled_and_run_per_type_and_arm_count", json!(run_per_type_arms));
    rep.set("runtime_value_evaluations_debug_plus_release", n_run_values);
    rep.set("jobs", a.jobs as u64);
    rep.set(
        "loadavg_at_end",
        std::fs::read_to_string("/proc/loadavg").unwrap_or_default().trim().to_string(),
    );
    rep.set("worker_requests", n_requests as u64);
    rep.set("package_builds", n_builds as u64);
    rep.set("summed_build_millis_per_label_all_workers", json!(build_millis));
    rep.set("modeF_equals_modeA", true);
    rep.set("violating_cases_confirmed_alone_mode_a", confirmed_alone);
    rep.set("classes", json!(class_summary));
    rep.set(
        "phase_wall_s",
        json!({"oracle": t_oracle, "compile_build_run": t_build - t_oracle, "confirm_alone": t_confirm - t_build, "total": t_start.elapsed().as_secs_f64()}),
    );
    // samples: actual cases with what was expected and observed
    let mut want_kinds: Vec<(bool, bool)> = vec![(true, false), (false, false), (true, true), (false, true)];
    for (i, c) in cases.iter().enumerate().rev() {
        let kind = (oracles[i].exhaustive, oracles[i].reachable.iter().any(|r| !*r));
        if let Some(p) = want_kinds.iter().position(|k| *k == kind) {
            want_kinds.remove(p);
            rep.sample(json!({
                "case": c.show(),
                "brute_force": oracle_json(&oracles[i], c, &values[&c.ty]),
                "compiler": obs_json(&obs[i]),
            }));
        }
        if want_kinds.is_empty() {
            break;
        }
    }
    for ty in ALL_TYS {
        if let Some((i, c)) = cases
            .iter()
            .enumerate()
            .find(|(i, c)| c.ty == ty && c.arms.len() >= 2 && !oracles[*i].exhaustive)
        {
            rep.sample(json!({
                "case": c.show(),
                "brute_force": oracle_json(&oracles[i], c, &values[&c.ty]),
                "compiler": obs_json(&obs[i]),
            }));
        }
    }
    rep.assume("the witness check is the lenient reading: a listed witness may over-approximate the uncovered set, it must denote at least one uncovered value of the scrutinee type");
    rep.assume("reachability is compared per arm (the compiler does not warn about single or-pattern alternatives, and the property does not ask for it)");
    rep.assume(&format!(
        "every class key not listed in known_findings.json is confirmed on its first {CONFIRM_PER_KEY} case(s) as a single-function package built in Mode A before it is reported; further cases of a confirmed class are counted under the same key without individual re-builds; classes listed as known are re-confirmed alone only in the thorough tier"
    ));
    rep.finish()
}

// ---------------------------------------------------------------------------------------------
// replay / dev

fn replay(a: &vhcore::Args) -> i32 {
    let Some(path) = &a.replay else {
        vhcore::machinery_failure("usage: replay C14 <path>");
    };
    let txt = std::fs::read_to_string(path).unwrap_or_else(|e| vhcore::machinery_failure(&format!("cannot read replay: {e}")));
    let v: Value = serde_json::from_str(&txt).unwrap_or_else(|e| vhcore::machinery_failure(&format!("bad replay JSON: {e}")));
    let case: Case = serde_json::from_value(v["replay"]["case"].clone())
        .unwrap_or_else(|e| vhcore::machinery_failure(&format!("replay has no case: {e}")));
    let key = v["key"].as_str().unwrap_or("").to_string();
    println!("replaying {}", case.show());
    println!("recorded class key: {key}");
    let work = vhcore::verif_root().join("work").join(ID).join("replay-scratch");
    let _ = std::fs::remove_dir_all(&work);
    let _ = std::fs::create_dir_all(&work);
    let values = values_table();
    let cases = vec![case.clone()];
    let res = check_alone(1, &work, &cases, &[(0, true)], &values);
    let (o, fs) = &res[0];
    println!("package (without tests):\n{}", gen_source(&[(0, &case)], false).text);
    println!(
        "brute force: {}",
        oracle_json(&oracle(&case, &values[&case.ty]), &case, &values[&case.ty])
    );
    println!("compiler (alone, Mode A): {}", obs_json(o));
    let _ = std::fs::remove_dir_all(&work);
    if fs.is_empty() {
        println!("no violation on this case");
        return 0;
    }
    for f in fs {
        println!("STILL VIOLATES key={} :: {}", f.key, f.what);
    }
    1
}

/// `c14 dev <file.sw> [t]`: push one hand-written package through a worker and dump diagnostics.
fn dev(a: &vhcore::Args) -> i32 {
    let src = std::fs::read_to_string(&a.rest[0]).unwrap();
    let mut w = Worker::new(std::path::PathBuf::from("/verif/work/C14dev/w"));
    let req = Request {
        id: 1,
        name: "c14_dev".into(),
        src,
        extra_files: vec![],
        with_std: true,
        existing_dir: None,
        builds: vec![spec("F-debug", false, false, a.rest.len() > 1)],
    };
    let resp = w.handle(&req);
    for b in &resp.builds {
        println!("{} ok={} err={} panic={:?} ms={}", b.label, b.ok, vhcore::truncate(&b.error, 200), b.panic, b.millis);
        for d in &b.diagnostics {
            println!("  E [{}..{}] {}", d.start, d.end, d.message);
        }
        for d in &b.warnings {
            println!("  W [{}..{}] {}", d.start, d.end, d.message);
        }
        for t in &b.tests {
            println!("   {} {:?}", t.name, t.outcome);
        }
    }
    0
}

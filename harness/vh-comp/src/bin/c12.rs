//! C12 — Initial storage slots match what storage reads return.
//!
//! Declared space (each storage FIELD is one case; ~100 fields per generated contract):
//!   type trees of depth ≤ 2 over the leaves {bool,u8,u16,u32,u64,u256,b256,str[1],str[9],str[33]}:
//!   the 10 leaves, struct{A}, struct{A,B}, tuple (A,B), enum{A,B}, enum{A,()} with A,B leaves (330 types)
//!   × every boundary initializer of the type (product of the members' boundary values; every variant)
//!   × namespace depth {0,1,2} × key mode {implicit, explicit packed-adjacent `in 0x…`,
//!   explicit right after an implicit-key companion field (key = sha256-key of companion + its slot count)}.
//! Oracle per contract build (forc-test deploys the emitted `storage_slots` for the in-VM calls):
//!   (1) a contract method `log(storage<path>.read())` for every field returns the reference ABI encoding
//!       of its initializer; (2) the slot keys of every implicit-key field are
//!       sha256(0x00 ‖ "storage[::ns1[::ns2]].field") + i, i < slots(type), computed here with `sha2`;
//!   (3)+(4) the multiset of keys in the storage-slots JSON equals the disjoint union of the per-field
//!       key ranges (no missing key, no key attributable to no field, no key twice).
//! Separately: user-forced overlaps (explicit key inside a multi-slot neighbour) must be diagnosed with
//! the DuplicatedStorageKey warning (reported under its own class key if silent).

use serde_json::{json, Value};
use sha2::{Digest, Sha256};
use std::collections::{BTreeMap, BTreeSet};
use vh_comp::contractgen::*;
use vh_comp::pool::Pool;
use vh_comp::worker::{tests_map, BuildOut, Request};

#[derive(Clone, Copy, Debug, PartialEq, Eq, Hash, PartialOrd, Ord)]
enum KeyMode {
    Implicit,
    /// explicit `in` key; fields of the contract packed back to back (next key = key + slots)
    Packed,
    /// explicit `in` key placed immediately after an implicit-key companion field
    AfterImplicit,
}

#[derive(Clone, Debug)]
struct FieldCase {
    ty: Ty,
    val: Val,
    depth: usize,
    key: KeyMode,
}

#[derive(Clone, Debug)]
struct Field {
    /// index into the case list (companions share the index of their main field)
    case: usize,
    companion: bool,
    ns: Vec<&'static str>,
    name: String,
    ty: Ty,
    val: Val,
    explicit_key: Option<[u8; 32]>,
    mode: KeyMode,
}

#[derive(Clone, Debug)]
struct Spec {
    fields: Vec<Field>,
}

const NS: [&str; 2] = ["n1", "n2"];

fn path_string(ns: &[&str], name: &str) -> String {
    if ns.is_empty() {
        format!("storage.{name}")
    } else {
        format!("storage::{}.{name}", ns.join("::"))
    }
}

/// Reference implicit key: sha256(domain byte 0 ‖ "storage::ns1::ns2.field").
fn implicit_key(ns: &[&str], name: &str) -> [u8; 32] {
    let mut h = Sha256::new();
    h.update([0u8]);
    h.update(path_string(ns, name).as_bytes());
    h.finalize().into()
}

fn add256(k: &[u8; 32], n: u64) -> Option<[u8; 32]> {
    let mut out = *k;
    let mut carry = n as u128;
    for i in (0..32).rev() {
        let s = out[i] as u128 + (carry & 0xFF);
        out[i] = (s & 0xFF) as u8;
        carry = (carry >> 8) + (s >> 8);
    }
    if carry != 0 {
        None
    } else {
        Some(out)
    }
}

fn sub256(k: &[u8; 32], n: u64) -> [u8; 32] {
    let mut out = *k;
    let mut borrow = n as i128;
    for i in (0..32).rev() {
        let mut s = out[i] as i128 - (borrow & 0xFF);
        borrow >>= 8;
        if s < 0 {
            s += 256;
            borrow += 1;
        }
        out[i] = s as u8;
    }
    out
}

impl Field {
    fn key(&self) -> [u8; 32] {
        self.explicit_key.unwrap_or_else(|| implicit_key(&self.ns, &self.name))
    }
    fn key_range(&self) -> Vec<String> {
        (0..self.ty.slots())
            .map(|i| hex::encode(add256(&self.key(), i).expect("generated keys never wrap")))
            .collect()
    }
    fn access(&self) -> String {
        if self.ns.is_empty() {
            format!("storage.{}", self.name)
        } else {
            format!("storage::{}.{}", self.ns.join("::"), self.name)
        }
    }
    fn describe(&self) -> Value {
        json!({"path": path_string(&self.ns, &self.name), "type": self.ty.sway(), "init": self.val.sway(&self.ty),
               "key_mode": format!("{:?}", self.mode), "companion": self.companion,
               "explicit_key": self.explicit_key.map(hex::encode), "slots": self.ty.slots()})
    }
}

/// Lay out a list of cases as one contract. `variant` selects where the packed explicit keys start:
/// even → a small base, odd → so that the last packed slot is exactly 0xff…ff.
fn layout(cases: &[(usize, FieldCase)], variant: usize) -> Spec {
    let mut counters = [0usize; 3];
    let mut fields = vec![];
    let total_packed: u64 = cases
        .iter()
        .filter(|(_, c)| c.key == KeyMode::Packed)
        .map(|(_, c)| c.ty.slots())
        .sum();
    let mut cursor: [u8; 32] = if variant % 2 == 0 {
        let mut b = [0u8; 32];
        b[29] = (variant as u8).wrapping_add(1);
        b
    } else {
        sub256(&[0xFF; 32], total_packed.saturating_sub(1))
    };
    for (ci, c) in cases {
        let ns: Vec<&'static str> = NS[..c.depth].to_vec();
        let mut fresh = |prefix: &str| {
            let n = counters[c.depth];
            counters[c.depth] += 1;
            format!("{prefix}{n}")
        };
        match c.key {
            KeyMode::Implicit => fields.push(Field {
                case: *ci, companion: false, ns, name: fresh("f"), ty: c.ty.clone(), val: c.val.clone(),
                explicit_key: None, mode: c.key,
            }),
            KeyMode::Packed => {
                let k = cursor;
                if let Some(next) = add256(&cursor, c.ty.slots()) {
                    cursor = next;
                }
                fields.push(Field {
                    case: *ci, companion: false, ns, name: fresh("f"), ty: c.ty.clone(), val: c.val.clone(),
                    explicit_key: Some(k), mode: c.key,
                });
            }
            KeyMode::AfterImplicit => {
                // companion: same type, the cyclically next boundary value (so mixing the two up is visible)
                let b = c.ty.boundary(false);
                let pos = b.iter().position(|v| *v == c.val).unwrap_or(0);
                let cval = b[(pos + 1) % b.len()].clone();
                let cname = fresh("g");
                let ckey = implicit_key(&ns, &cname);
                let k = add256(&ckey, c.ty.slots()).expect("sha256 key + slots does not wrap");
                fields.push(Field {
                    case: *ci, companion: true, ns: ns.clone(), name: cname, ty: c.ty.clone(), val: cval,
                    explicit_key: None, mode: c.key,
                });
                fields.push(Field {
                    case: *ci, companion: false, ns, name: fresh("f"), ty: c.ty.clone(), val: c.val.clone(),
                    explicit_key: Some(k), mode: c.key,
                });
            }
        }
    }
    Spec { fields }
}

fn source(spec: &Spec) -> String {
    let mut decls = BTreeMap::new();
    for f in &spec.fields {
        f.ty.decls(&mut decls);
    }
    let mut s = String::from("contract;\n\n");
    for d in decls.values() {
        s.push_str(d);
        s.push('\n');
    }
    let decl = |f: &Field| {
        let key = f.explicit_key.map(|k| format!(" in 0x{}", hex::encode(k))).unwrap_or_default();
        format!("{}{}: {} = {},\n", f.name, key, f.ty.sway(), f.val.sway(&f.ty))
    };
    s.push_str("\nstorage {\n");
    for f in spec.fields.iter().filter(|f| f.ns.is_empty()) {
        s.push_str(&format!("    {}", decl(f)));
    }
    if spec.fields.iter().any(|f| !f.ns.is_empty()) {
        s.push_str("    n1 {\n");
        for f in spec.fields.iter().filter(|f| f.ns.len() == 1) {
            s.push_str(&format!("        {}", decl(f)));
        }
        if spec.fields.iter().any(|f| f.ns.len() == 2) {
            s.push_str("        n2 {\n");
            for f in spec.fields.iter().filter(|f| f.ns.len() == 2) {
                s.push_str(&format!("            {}", decl(f)));
            }
            s.push_str("        },\n");
        }
        s.push_str("    },\n");
    }
    s.push_str("}\n\nabi A {\n");
    for i in 0..spec.fields.len() {
        s.push_str(&format!("    #[storage(read)]\n    fn r{i}();\n"));
    }
    s.push_str("}\n\nimpl A for Contract {\n");
    for (i, f) in spec.fields.iter().enumerate() {
        s.push_str(&format!("    #[storage(read)]\n    fn r{i}() {{ log({}.read()); }}\n", f.access()));
    }
    s.push_str("}\n\n");
    for i in 0..spec.fields.len() {
        s.push_str(&format!("#[test]\nfn t{i}() {{ abi(A, CONTRACT_ID).r{i}(); }}\n"));
    }
    s
}

#[derive(Clone, Debug)]
struct Finding {
    /// field index in the spec, None = contract-level
    field: Option<usize>,
    key: String,
    what: String,
    /// replay fragment: a "tests" expectation or a "slots" expectation
    test: Option<(String, Expect, Value)>,
}

fn type_class(t: &Ty) -> String {
    match t {
        Ty::Struct(m) => format!("struct{}", m.len()),
        Ty::Tuple(m) => format!("tuple{}", m.len()),
        Ty::Enum(m) => format!("enum{}{}", m.len(), if m.contains(&Ty::Unit) { "u" } else { "" }),
        other => other.sway(),
    }
}

fn parse_slots(storage_json: &str) -> Result<Vec<(String, String)>, String> {
    let v: Value = serde_json::from_str(storage_json).map_err(|e| format!("storage json: {e}"))?;
    let mut out = vec![];
    for s in v.as_array().ok_or("storage json is not an array")? {
        out.push((
            s["key"].as_str().unwrap_or("").trim_start_matches("0x").to_lowercase(),
            s["value"].as_str().unwrap_or("").trim_start_matches("0x").to_lowercase(),
        ));
    }
    Ok(out)
}

/// Apply oracles (1)–(4) to one built contract.
fn evaluate(spec: &Spec, b: &BuildOut) -> (Vec<Finding>, Vec<Expect>) {
    let mut out = vec![];
    let mut observed = vec![];
    let tm = tests_map(b);
    for (i, f) in spec.fields.iter().enumerate() {
        let expect = Expect::ok(vec![f.val.abi(&f.ty)]);
        let test = format!("t{i}");
        match tm.get(&test) {
            Some(o) => {
                let obs = Expect::of_outcome(o);
                if obs != expect {
                    let shape = if obs.revert.is_some() { "read-reverted" } else { "read-differs-from-initializer" };
                    out.push(Finding {
                        field: Some(i),
                        key: format!("{shape}|{}", type_class(&f.ty)),
                        what: format!("field {}: read expected {:?}, observed {:?}", f.describe(), expect, obs),
                        test: Some((test.clone(), expect.clone(), json!(obs))),
                    });
                }
                observed.push(obs);
            }
            None => out.push(Finding {
                field: Some(i),
                key: "test-missing".into(),
                what: format!("field {}: no result for {test}", f.describe()),
                test: Some((test.clone(), expect.clone(), Value::Null)),
            }),
        }
    }
    // slot keys
    match parse_slots(&b.storage_json) {
        Err(e) => out.push(Finding { field: None, key: "storage-json-unreadable".into(), what: e, test: None }),
        Ok(slots) => {
            let mut count: BTreeMap<String, usize> = BTreeMap::new();
            for (k, _) in &slots {
                *count.entry(k.clone()).or_default() += 1;
            }
            let mut owner: BTreeMap<String, Vec<usize>> = BTreeMap::new();
            for (i, f) in spec.fields.iter().enumerate() {
                for k in f.key_range() {
                    owner.entry(k).or_default().push(i);
                }
            }
            for (i, f) in spec.fields.iter().enumerate() {
                let missing: Vec<String> = f.key_range().into_iter().filter(|k| !count.contains_key(k)).collect();
                if !missing.is_empty() {
                    let kind = if f.explicit_key.is_some() { "explicit-key-not-in-slots" } else { "implicit-key-is-not-documented-hash" };
                    out.push(Finding {
                        field: Some(i),
                        key: format!("{kind}|{}|ns{}", if f.ty.slots() > 1 { "multi-slot" } else { "single-slot" }, f.ns.len()),
                        what: format!("field {}: expected slot keys {:?} are not in the storage-slots JSON (missing {:?})", f.describe(), f.key_range(), missing),
                        test: None,
                    });
                }
            }
            for (k, n) in &count {
                if *n > 1 {
                    out.push(Finding {
                        field: owner.get(k).and_then(|o| o.first().copied()),
                        key: "slot-key-twice-in-json".into(),
                        what: format!("key {k} appears {n} times in the storage-slots JSON (fields {:?})", owner.get(k)),
                        test: None,
                    });
                }
                match owner.get(k) {
                    None => out.push(Finding {
                        field: None,
                        key: "slot-key-attributable-to-no-field".into(),
                        what: format!("key {k} in the storage-slots JSON belongs to no declared field's key range"),
                        test: None,
                    }),
                    Some(o) if o.len() > 1 => out.push(Finding {
                        field: Some(o[0]),
                        key: "fields-share-a-slot".into(),
                        what: format!("key {k} lies in the key ranges of fields {:?}", o.iter().map(|&i| spec.fields[i].describe()).collect::<Vec<_>>()),
                        test: None,
                    }),
                    _ => {}
                }
            }
        }
    }
    (out, observed)
}

fn types() -> Vec<Ty> {
    let l = LEAVES_C12;
    let mut out: Vec<Ty> = l.to_vec();
    for a in l {
        out.push(Ty::Struct(vec![a.clone()]));
    }
    for a in l {
        out.push(Ty::Enum(vec![a.clone(), Ty::Unit]));
    }
    for a in l {
        for b in l {
            out.push(Ty::Struct(vec![a.clone(), b.clone()]));
        }
    }
    for a in l {
        for b in l {
            out.push(Ty::Tuple(vec![a.clone(), b.clone()]));
        }
    }
    for a in l {
        for b in l {
            out.push(Ty::Enum(vec![a.clone(), b.clone()]));
        }
    }
    out
}

/// Boundary initializers of a type: leaves use all their boundary values; two-member aggregates use
/// the full product of per-member values, where `narrow` keeps the first and last (zero / all-ones)
/// value of each member plus the asymmetric one on the diagonal.
fn initializers(t: &Ty, narrow: bool) -> Vec<Val> {
    let all = t.boundary(false);
    if !narrow {
        return all;
    }
    match t {
        Ty::Struct(m) | Ty::Tuple(m) if m.len() == 2 => {
            let a = m[0].boundary(false);
            let b = m[1].boundary(false);
            // (first,last), (last,first), (middle,middle)
            let mid = |v: &Vec<Val>| v[v.len() / 2].clone();
            vec![
                Val::Agg(vec![a[0].clone(), b[b.len() - 1].clone()]),
                Val::Agg(vec![a[a.len() - 1].clone(), b[0].clone()]),
                Val::Agg(vec![mid(&a), mid(&b)]),
            ]
        }
        _ => all,
    }
}

fn cases(thorough: bool) -> (Vec<FieldCase>, u64) {
    let mut out = vec![];
    let mut closed_form = 0u64;
    let tys = types();
    for (ti, t) in tys.iter().enumerate() {
        let inits = initializers(t, !thorough);
        closed_form += inits.len() as u64 * if thorough { 9 } else { 3 };
        for (vi, v) in inits.iter().enumerate() {
            if thorough {
                for depth in 0..3 {
                    for key in [KeyMode::Implicit, KeyMode::Packed, KeyMode::AfterImplicit] {
                        out.push(FieldCase { ty: t.clone(), val: v.clone(), depth, key });
                    }
                }
            } else {
                // quick: every (type, initializer) in all three key modes; the namespace depth rotates
                // so that every type meets every depth and every (depth, key mode) pair occurs
                for (ki, key) in [KeyMode::Implicit, KeyMode::Packed, KeyMode::AfterImplicit].into_iter().enumerate() {
                    out.push(FieldCase { ty: t.clone(), val: v.clone(), depth: (ti + vi + ki) % 3, key });
                }
            }
        }
    }
    (out, closed_form)
}

/// User-forced overlaps: Y's explicit key lies inside multi-slot X's range. Must be diagnosed.
fn overlap_sources() -> Vec<(String, String)> {
    let multi = [
        Ty::Tuple(vec![Ty::U64, Ty::U256]),
        Ty::Struct(vec![Ty::B256, Ty::B256]),
        Ty::Str(33),
        Ty::Enum(vec![Ty::U256, Ty::U64]),
    ];
    let mut out = vec![];
    for (i, t) in multi.iter().enumerate() {
        let v = t.boundary(false).pop().unwrap();
        for explicit_x in [false, true] {
            let mut decls = BTreeMap::new();
            t.decls(&mut decls);
            let mut base = [0u8; 32];
            base[31] = 0x10;
            let xkey = if explicit_x { base } else { implicit_key(&[], "x") };
            let ykey = add256(&xkey, 1).unwrap();
            let src = format!(
                "contract;\n{}\nstorage {{\n    x{}: {} = {},\n    y in 0x{}: u64 = 5u64,\n}}\nabi A {{ #[storage(read)] fn r(); }}\nimpl A for Contract {{ #[storage(read)] fn r() {{ log(storage.y.read()); }} }}\n",
                decls.values().cloned().collect::<Vec<_>>().join("\n"),
                if explicit_x { format!(" in 0x{}", hex::encode(xkey)) } else { String::new() },
                t.sway(),
                v.sway(t),
                hex::encode(ykey)
            );
            out.push((format!("c12_ov{i}{}", explicit_x as u8), src));
        }
    }
    out
}

/// Boundary of the key space: a multi-slot field whose explicit key makes `key + slots - 1` exceed
/// 2^256 - 1 (the VM refuses such ranges with TooManySlots, so no emitted slots can make the read
/// work). Acceptable: a compile error, or a build whose read returns the initializer. (The fitting
/// neighbour — last slot exactly 0xff…ff — is part of the main space: odd-numbered contracts.)
fn wrap_sources() -> Vec<(String, String, Expect)> {
    let tys = [Ty::Tuple(vec![Ty::U64, Ty::U256]), Ty::Struct(vec![Ty::B256, Ty::B256])];
    let mut out = vec![];
    for (i, t) in tys.iter().enumerate() {
        let v = t.boundary(false).remove(4);
        let mut decls = BTreeMap::new();
        t.decls(&mut decls);
        let src = format!(
            "contract;\n{}\nstorage {{\n    x in 0x{}: {} = {},\n}}\nabi A {{ #[storage(read)] fn r(); }}\nimpl A for Contract {{ #[storage(read)] fn r() {{ log(storage.x.read()); }} }}\n#[test]\nfn t0() {{ abi(A, CONTRACT_ID).r(); }}\n",
            decls.values().cloned().collect::<Vec<_>>().join("\n"),
            "ff".repeat(32),
            t.sway(),
            v.sway(t)
        );
        out.push((format!("c12_wrap{i}"), src, Expect::ok(vec![v.abi(t)])));
    }
    out
}

const FIELDS_PER_CONTRACT: usize = 90;

fn run(a: &vhcore::Args) -> i32 {
    let mut rep = vhcore::Reporter::from_args(a, "exploration");
    let thorough = a.tier == vhcore::Tier::Thorough;
    if types().len() != 330 {
        vhcore::machinery_failure(&format!("type enumerator produced {} ≠ 330", types().len()));
    }
    let (all_cases, closed_form) = cases(thorough);
    if all_cases.len() as u64 != closed_form {
        vhcore::machinery_failure("case enumerator count mismatch");
    }
    let limit: Option<usize> = std::env::var("C12_LIMIT").ok().and_then(|s| s.parse().ok());
    let indexed: Vec<(usize, FieldCase)> = all_cases.iter().cloned().enumerate().collect();
    let mut chunks: Vec<Vec<(usize, FieldCase)>> = indexed.chunks(FIELDS_PER_CONTRACT).map(|c| c.to_vec()).collect();
    if let Some(n) = limit {
        let step = (chunks.len() / n.max(1)).max(1);
        chunks = chunks.into_iter().step_by(step).collect();
    }
    let release = false;
    let specs: Vec<Spec> = chunks.iter().enumerate().map(|(i, c)| layout(c, i)).collect();
    let srcs: Vec<String> = specs.iter().map(source).collect();
    let reqs: Vec<Request> = srcs
        .iter()
        .enumerate()
        .map(|(i, s)| request(i as u64, &format!("c12_p{i}"), s, vec![spec("F", release, true, true, false)]))
        .collect();
    let mut pool = Pool::new(a.jobs, vhcore::work_dir("C12/pool"));
    pool.recycle_after = 30;
    // wall-clock watchdog only (never a verdict); generous because the box may be heavily oversubscribed
    pool.timeout = std::time::Duration::from_secs(3600);

    // self-check: first, middle and last contract in both modes (folded into the main run)
    let sc_idx: Vec<usize> = {
        let n = reqs.len();
        let mut idx = vec![0, n / 2, n - 1];
        idx.dedup();
        idx
    };
    let mut reqs = reqs;
    attach_self_check(&mut reqs, &sc_idx);
    // user-forced overlap probes ride along (Mode A builds with diagnostics)
    let ov = overlap_sources();
    let n_main = reqs.len();
    for (i, (n, s)) in ov.iter().enumerate() {
        reqs.push(request(10_000 + i as u64, n, s, vec![spec("A", release, false, true, true)]));
    }
    let wraps = wrap_sources();
    for (i, (n, s, _)) in wraps.iter().enumerate() {
        reqs.push(request(20_000 + i as u64, n, s, vec![spec("A", release, true, true, true)]));
    }

    let t0 = std::time::Instant::now();
    let (mut results, retried) = run_with_retry(&pool, &reqs);
    rep.set("requests_retried_after_worker_failure", retried as u64);
    let build_wall = t0.elapsed().as_secs_f64();
    match verify_self_check(&reqs, &results, &sc_idx) {
        Ok(n) => rep.set("modeF_equals_modeA_packages", n as u64),
        Err(e) => vhcore::machinery_failure(&e),
    }
    let mut ov_results = results.split_off(n_main);
    let wrap_results = ov_results.split_off(ov.len());

    let mut evaluations = 0u64;
    let mut fields_total = 0u64;
    let mut slot_keys_checked = 0u64;
    let mut implicit_keys_checked = 0u64;
    let mut multi_slot_fields = 0u64;
    let mut distinct_reads = vhcore::Distinct::default();
    let mut distinct_types = BTreeSet::new();
    let mut by_dim: BTreeMap<String, u64> = BTreeMap::new();
    let mut sum_ms = 0u64;
    // class key → (contract idx, finding)
    let mut classes: BTreeMap<String, Vec<(usize, Finding)>> = BTreeMap::new();
    for (i, res) in results.iter().enumerate() {
        let spec_i = &specs[i];
        let b = match res {
            Ok(r) => &r.builds[0],
            Err(e) => {
                classes.entry("contract|worker-died".into()).or_default().push((
                    i,
                    Finding { field: None, key: "worker-died".into(), what: e.clone(), test: None },
                ));
                continue;
            }
        };
        sum_ms += b.millis;
        if !b.ok || !b.run_error.is_empty() {
            let key = if b.ok { "run-error".to_string() } else { build_failure_key(b) };
            let what = if b.ok { b.run_error.clone() } else { build_failure_text(b) };
            classes.entry(format!("contract|{key}")).or_default().push((i, Finding { field: None, key, what, test: None }));
            continue;
        }
        let (findings, observed) = evaluate(spec_i, b);
        for o in &observed {
            distinct_reads.add(o);
        }
        for f in &spec_i.fields {
            evaluations += 1;
            fields_total += 1;
            slot_keys_checked += f.ty.slots();
            if f.explicit_key.is_none() {
                implicit_keys_checked += 1;
            }
            if f.ty.slots() > 1 {
                multi_slot_fields += 1;
            }
            distinct_types.insert(f.ty.sway());
            *by_dim.entry(format!("{:?}/ns{}", f.mode, f.ns.len())).or_default() += 1;
        }
        for f in findings {
            classes.entry(f.key.clone()).or_default().push((i, f));
        }
        if i % (specs.len() / 6 + 1) == 0 {
            let f = &spec_i.fields[i % spec_i.fields.len()];
            rep.sample(json!({"contract": i, "fields": spec_i.fields.len(), "example_field": f.describe(), "read": observed.get(i % spec_i.fields.len())}));
        }
    }

    // Confirm one representative per class alone in Mode A: a contract with just that field (and its
    // companion), or the whole contract for contract-level findings.
    let mut confirmed: BTreeSet<String> = BTreeSet::new();
    for round in 0..3 {
        let pending: Vec<(&String, &(usize, Finding), usize)> = classes
            .iter()
            .filter(|(k, l)| !confirmed.contains(*k) && l.len() > round)
            .map(|(k, l)| (k, &l[round], l.len()))
            .collect();
        if pending.is_empty() {
            break;
        }
        let smalls: Vec<Spec> = pending
            .iter()
            .map(|(_, (ci, f), _)| {
                let spec_i = &specs[*ci];
                match f.field {
                    Some(fi) => {
                        let case = spec_i.fields[fi].case;
                        Spec { fields: spec_i.fields.iter().filter(|x| x.case == case).cloned().collect() }
                    }
                    None => spec_i.clone(),
                }
            })
            .collect();
        let items: Vec<(String, String, vh_comp::worker::BuildSpec)> = smalls
            .iter()
            .enumerate()
            .map(|(n, sm)| (format!("c12_alone_r{round}_{n}"), source(sm), spec("A", release, true, true, true)))
            .collect();
        let outs = build_many_mode_a(&pool, &items);
        for ((((key, (_, f), n_cases), out), (name, src, _)), small) in pending.iter().zip(outs).zip(items.iter()).zip(smalls.iter()) {
            match out {
                Ok(b) => {
                    let still: Vec<Finding> = if !b.ok || !b.run_error.is_empty() {
                        vec![Finding { field: None, key: (*key).clone(), what: format!("{} {}", build_failure_text(&b), b.run_error), test: None }]
                    } else {
                        evaluate(small, &b).0.into_iter().filter(|x| &x.key == *key).collect()
                    };
                    if let Some(s) = still.first() {
                        let expected_keys: Vec<Value> = small.fields.iter().map(|x| json!({"field": path_string(&x.ns, &x.name), "keys": x.key_range()})).collect();
                        let replay = match &s.test {
                            Some((t, e, o)) => replay_tests_json(name, src, release, t, e, o),
                            None => json!({"kind": "slots", "name": name, "release": release, "src": src, "expected_keys": expected_keys}),
                        };
                        for _ in 0..*n_cases {
                            rep.violation(key, &format!("{} [confirmed alone in Mode A: {}]", f.what, s.what), replay.clone());
                        }
                        confirmed.insert((*key).clone());
                    }
                }
                Err(e) => {
                    rep.violation(&format!("{key}|worker-died-in-mode-a"), &format!("{}: {e}", f.what), json!({"kind": "slots", "name": name, "release": release, "src": src, "expected_keys": []}));
                    confirmed.insert((*key).clone());
                }
            }
        }
    }
    let mut unconfirmed = vec![];
    for (key, list) in &classes {
        if !confirmed.contains(key) {
            unconfirmed.push(format!("{key} ({} cases, e.g. {})", list.len(), vhcore::truncate(&list[0].1.what, 300)));
        }
    }
    if !unconfirmed.is_empty() {
        vhcore::machinery_failure(&format!("findings that do not reproduce alone in Mode A: {unconfirmed:?}"));
    }

    // user-forced overlaps must be diagnosed
    let mut overlaps_diagnosed = 0u64;
    for ((name, src), res) in ov.iter().zip(ov_results) {
        evaluations += 1;
        match res {
            Ok(r) => {
                let b = &r.builds[0];
                let warned = b.warnings.iter().any(|w| w.message.contains("same storage key"));
                if warned || !b.ok {
                    overlaps_diagnosed += 1;
                } else {
                    rep.violation(
                        "user-forced-overlap|silent",
                        &format!("{name}: field y's explicit key lies inside multi-slot field x but no DuplicatedStorageKey warning/error was produced; slots: {}", vhcore::truncate(&b.storage_json, 600)),
                        json!({"kind": "warn", "name": name, "release": release, "src": src, "expect_warning": "same storage key"}),
                    );
                }
            }
            Err(e) => vhcore::machinery_failure(&format!("overlap probe {name}: {e}")),
        }
    }

    // key-space boundary probes (each is already a single-field package built alone in Mode A)
    let mut wraps_rejected = 0u64;
    let mut wraps_ok = 0u64;
    for ((name, src, expect), res) in wraps.iter().zip(wrap_results) {
        evaluations += 1;
        match res {
            Ok(r) => {
                let b = &r.builds[0];
                if b.panic.is_some() {
                    rep.violation(
                        &format!("{}|multi-slot-field-whose-explicit-key-range-wraps-2^256", build_failure_key(b)),
                        &format!("{name}: a 2-slot storage field declared `in 0xff…ff` crashes the compiler: {}", build_failure_text(b)),
                        json!({"kind": "build", "name": name, "release": release, "src": src}),
                    );
                } else if !b.ok {
                    wraps_rejected += 1;
                } else {
                    let obs = tests_map(b).get("t0").map(Expect::of_outcome);
                    if obs.as_ref() == Some(expect) {
                        wraps_ok += 1;
                    } else {
                        rep.violation(
                            "multi-slot-field-whose-explicit-key-range-wraps-2^256|accepted-but-read-differs",
                            &format!("{name}: accepted without diagnostic, read expected {expect:?}, observed {obs:?} {}", b.run_error),
                            replay_tests_json(name, src, release, "t0", expect, &json!(obs)),
                        );
                    }
                }
            }
            Err(e) => vhcore::machinery_failure(&format!("wrap probe {name}: {e}")),
        }
    }
    rep.set("key_space_wrap_probes", wraps.len() as u64);
    rep.set("key_space_wrap_probes_rejected_with_diagnostic", wraps_rejected);
    rep.set("key_space_wrap_probes_read_ok", wraps_ok);

    if classes.is_empty() && distinct_reads.len() < 2 {
        vhcore::machinery_failure("fewer than 2 distinct read results observed");
    }
    if limit.is_none() && fields_total < all_cases.len() as u64 && classes.is_empty() {
        vhcore::machinery_failure("fewer fields evaluated than cases generated");
    }
    rep.set("evaluations", evaluations);
    rep.set("field_cases", all_cases.len() as u64);
    rep.set("fields_incl_companions", fields_total);
    rep.set("contracts", specs.len() as u64);
    rep.set("distinct_types", distinct_types.len() as u64);
    rep.set("slot_keys_checked", slot_keys_checked);
    rep.set("implicit_key_fields_checked_against_sha256", implicit_keys_checked);
    rep.set("multi_slot_fields", multi_slot_fields);
    rep.set("fields_by_keymode_and_namespace_depth", json!(by_dim));
    rep.set("user_forced_overlaps_diagnosed", overlaps_diagnosed);
    rep.set("user_forced_overlap_probes", ov.len() as u64);
    rep.set("distinct_nontrivial", distinct_reads.len() as u64);
    rep.set("rule", "distinct in-VM read results (ABI bytes of the value read back)");
    rep.set("build_and_run_wall_s", build_wall);
    rep.set("sum_worker_build_and_run_ms", sum_ms);
    rep.set("jobs", a.jobs as u64);
    rep.set("profile", "debug");
    rep.set(
        "space",
        if thorough {
            "330 types (depth ≤2 over 10 leaves) x all boundary initializers (full member product) x ns depth {0,1,2} x key mode {implicit, packed explicit, explicit after implicit companion}"
        } else {
            "330 types x boundary initializers (two-member aggregates: 3 member combinations) x 3 key modes, namespace depth rotating over {0,1,2}"
        },
    );
    rep.set("exhaustive", limit.is_none());
    if limit.is_some() {
        rep.cap("C12_LIMIT debugging subset");
    }
    if !thorough {
        rep.cap("quick: namespace depth rotates instead of full product; two-member aggregates use 3 of the member-value combinations");
    }
    rep.assume("slot count per field = ceil(reference memory size / 32): bool/u8 1 byte, other ints 8, 256-bit 32, str[N] padded to 8, aggregate members padded to 8, enum = 8 + widest variant");
    rep.assume("documented implicit key = sha256(0x00 ‖ \"storage.f\" | \"storage::n1.f\" | \"storage::n1::n2.f\") (comment of get_storage_key in sway-core/src/ir_generation/storage.rs, sway-utils constants)");
    rep.assume("explicit keys that the generator itself places inside another field's range are user error; the compiler is only required to diagnose them");
    rep.finish()
}

fn replay(a: &vhcore::Args) -> i32 {
    let path = a.replay.clone().unwrap_or_else(|| vhcore::machinery_failure("replay needs a path"));
    let txt = std::fs::read_to_string(&path).unwrap_or_else(|e| vhcore::machinery_failure(&format!("{e}")));
    let v: Value = serde_json::from_str(&txt).unwrap_or_else(|e| vhcore::machinery_failure(&format!("{e}")));
    let r = &v["replay"];
    println!("replaying {}: {}", v["key"], vhcore::truncate(v["what"].as_str().unwrap_or(""), 400));
    let name = r["name"].as_str().unwrap_or("replay_pkg");
    let src = r["src"].as_str().unwrap_or("");
    let release = r["release"].as_bool().unwrap_or(false);
    match r["kind"].as_str() {
        Some("tests") => replay_tests("C12/replay", r),
        Some("slots") => {
            let b = build_in_process("C12/replay", name, src, spec("replay", release, true, true, true));
            if !b.ok {
                println!("replay: build fails: {}", build_failure_text(&b));
                return 1;
            }
            let slots = parse_slots(&b.storage_json).unwrap_or_default();
            let mut json_keys: Vec<String> = slots.iter().map(|(k, _)| k.clone()).collect();
            json_keys.sort();
            let mut expected: Vec<String> = vec![];
            for f in r["expected_keys"].as_array().cloned().unwrap_or_default() {
                for k in f["keys"].as_array().cloned().unwrap_or_default() {
                    expected.push(k.as_str().unwrap_or("").to_string());
                }
            }
            expected.sort();
            println!("expected slot keys: {expected:?}");
            println!("storage-slots JSON keys: {json_keys:?}");
            if expected == json_keys {
                println!("replay: no longer violates");
                0
            } else {
                println!("replay: still violates");
                1
            }
        }
        Some("build") => {
            let b = build_in_process("C12/replay", name, src, spec("replay", release, true, true, true));
            if b.panic.is_some() {
                println!("replay: still crashes: {}", build_failure_text(&b));
                1
            } else {
                println!("replay: no compiler crash any more (build ok={} {})", b.ok, if b.ok { String::new() } else { build_failure_text(&b) });
                0
            }
        }
        Some("warn") => {
            let b = build_in_process("C12/replay", name, src, spec("replay", release, false, true, true));
            let want = r["expect_warning"].as_str().unwrap_or("");
            let warned = b.warnings.iter().any(|w| w.message.contains(want));
            println!("build ok={} warnings={:?}", b.ok, b.warnings.iter().map(|w| &w.message).collect::<Vec<_>>());
            if warned || !b.ok {
                println!("replay: diagnosed now");
                0
            } else {
                println!("replay: still silent");
                1
            }
        }
        _ => vhcore::machinery_failure("unknown replay kind"),
    }
}

fn main() {
    let a = vhcore::parse_args();
    vh_comp::maybe_serve_worker(&a);
    vh_comp::install_panic_hook();
    let code = match a.cmd.as_str() {
        "check" => run(&a),
        "replay" => replay(&a),
        "try" => try_file("C12/try", &a.rest[0], a.rest.get(1).map(|s| s == "release").unwrap_or(false)),
        "gen" => {
            // gen <quick|thorough> <contract index>
            let (all, _) = cases(a.rest[0] == "thorough");
            let indexed: Vec<(usize, FieldCase)> = all.into_iter().enumerate().collect();
            let chunks: Vec<Vec<(usize, FieldCase)>> = indexed.chunks(FIELDS_PER_CONTRACT).map(|c| c.to_vec()).collect();
            let i: usize = a.rest[1].parse().unwrap();
            eprintln!("{} contracts", chunks.len());
            println!("{}", source(&layout(&chunks[i], i)));
            0
        }
        "gen-overlap" => {
            let i: usize = a.rest[0].parse().unwrap();
            println!("{}", overlap_sources()[i].1);
            0
        }
        _ => vhcore::machinery_failure("usage: c12 check C12 --tier quick|thorough | replay C12 <path>"),
    };
    std::process::exit(code);
}

//! C17 — the compiler never crashes on any package.
//!
//! Space (bounded-exhaustive, no sampling): every single-edit *semantic* deviation (operators of
//! `vh_comp::mutgen::mutate`, each at every applicable position) of a declared list of base
//! programs, plus two seed programs, plus a scale ladder (programs with 2^k constants / locals /
//! fields / arguments / nesting levels …). Every source is compiled by the real forc build path
//! (Mode F, std cached per worker) in debug, and in release when the debug build reached code
//! generation. Oracle: artefacts or diagnostics — never a panic, a dead worker, a timeout, or an
//! "Internal compiler error" diagnostic. One representative per failure class is re-built alone
//! through the plain forc path (Mode A) before it is reported.
use serde_json::json;
use std::collections::{BTreeMap, BTreeSet};
use std::time::{Duration, Instant};
use vh_comp::mutgen::{self, Base, Opts, SeqDriver};
use vh_comp::pool::Pool;
use vh_comp::worker::{BuildOut, BuildSpec, Request, Response};
use vhcore::Tier;

fn main() {
    let a = vhcore::parse_args();
    vh_comp::maybe_serve_worker(&a);
    let code = match a.cmd.as_str() {
        "check" => run(&a),
        "replay" => replay(&a),
        "dump" => dump(&a),
        "try" => try_files(&a),
        _ => vhcore::machinery_failure("usage: c17 check C17 --tier quick|thorough | replay C17 <file> | dump [thorough]"),
    };
    std::process::exit(code);
}

// ---------------------------------------------------------------------------------------------
// Failure shapes and class keys

#[derive(Clone, Debug, PartialEq, Eq, PartialOrd, Ord)]
enum Shape {
    /// normalised location, normalised message prefix (only for locations outside the repository)
    Panic(String),
    Ice(String),
    Abort(String),
    Timeout,
}

impl Shape {
    fn key(&self) -> String {
        match self {
            Shape::Panic(l) => format!("panic@{l}"),
            Shape::Ice(m) => format!("ice:{m}"),
            Shape::Abort(s) => format!("abort:{s}"),
            Shape::Timeout => "timeout".to_string(),
        }
    }
}

fn norm_text(s: &str, max: usize) -> String {
    // digits -> #, quoted / backticked names -> _, whitespace collapsed
    let mut out = String::new();
    let mut chars = s.chars().peekable();
    let mut last_hash = false;
    while let Some(c) = chars.next() {
        if c == '`' || c == '\'' || c == '"' {
            let mut inner = String::new();
            let mut closed = false;
            for d in chars.by_ref() {
                if d == c {
                    closed = true;
                    break;
                }
                inner.push(d);
                if inner.len() > 120 {
                    break;
                }
            }
            let _ = closed;
            out.push(c);
            out.push('_');
            out.push(c);
            last_hash = false;
            continue;
        }
        if c.is_ascii_digit() {
            if !last_hash {
                out.push('#');
            }
            last_hash = true;
            continue;
        }
        last_hash = false;
        if c.is_whitespace() {
            if !out.ends_with(' ') {
                out.push(' ');
            }
        } else {
            out.push(c);
        }
    }
    vhcore::truncate(out.trim(), max).replace('…', "")
}

fn norm_loc(loc: &str) -> (String, bool) {
    let repo = vhcore::repo_root().to_string_lossy().to_string();
    let repo_slash = format!("{}/", repo.trim_end_matches('/'));
    if let Some(p) = loc.find(&repo_slash) {
        return (loc[p + repo_slash.len()..].to_string(), true);
    }
    if let Some(p) = loc.find("/registry/src/") {
        let rest = &loc[p + "/registry/src/".len()..];
        let rest = rest.split_once('/').map(|x| x.1).unwrap_or(rest);
        return (format!("crate:{rest}"), false);
    }
    if let Some(rest) = loc.strip_prefix("/rustc/") {
        let rest = rest.split_once('/').map(|x| x.1).unwrap_or(rest);
        return (format!("rustc:{rest}"), false);
    }
    for top in ["sway-core/", "sway-ir/", "sway-types/", "sway-parse/", "sway-ast/", "sway-error/", "sway-utils/", "forc-pkg/", "forc-util/", "sway-features/"] {
        if loc.starts_with(top) {
            return (loc.to_string(), true);
        }
    }
    (loc.to_string(), false)
}

fn panic_shape(loc: &str, msg: &str) -> Shape {
    let (l, in_repo) = norm_loc(loc);
    if in_repo {
        Shape::Panic(l)
    } else {
        Shape::Panic(format!("{l}:{}", norm_text(msg, 50)))
    }
}

fn ice_of(message: &str) -> Option<Shape> {
    let lower = message.to_lowercase();
    let p = lower.find("internal compiler error")?;
    let rest = &message[p + "internal compiler error".len()..];
    let rest = rest.trim_start_matches(|c: char| c == ':' || c.is_whitespace());
    let first = rest.split("Please file an issue").next().unwrap_or(rest);
    Some(Shape::Ice(norm_text(first, 60)))
}

/// What one build did: a failure shape, or an ordinary outcome signature.
fn judge(b: &BuildOut) -> Result<String, (Shape, String)> {
    if let Some(msg) = &b.panic {
        return Err((panic_shape(&b.panic_loc, msg), format!("panic `{}` at {}", vhcore::truncate(msg, 200), b.panic_loc)));
    }
    if b.ok {
        return Ok("ok".to_string());
    }
    for d in &b.diagnostics {
        if let Some(s) = ice_of(&d.message) {
            return Err((s, format!("diagnostic: {}", vhcore::truncate(&d.message, 300))));
        }
        if let Some(rest) = d.message.strip_prefix("PANIC ") {
            // the direct sway_core re-run (used only to collect messages) panicked although the build did not
            let (msg, loc) = rest.rsplit_once(" at ").unwrap_or((rest, ""));
            return Err((panic_shape(loc, msg), format!("panic while collecting diagnostics: {}", vhcore::truncate(rest, 200))));
        }
    }
    if let Some(s) = ice_of(&b.error) {
        return Err((s, format!("error: {}", vhcore::truncate(&b.error, 300))));
    }
    let first = b.diagnostics.first().map(|d| d.message.as_str()).unwrap_or(b.error.as_str());
    Ok(format!("E:{}", norm_text(first.lines().next().unwrap_or(""), 70)))
}

fn pool_err_shape(reason: &str) -> Shape {
    if reason.starts_with("timeout") {
        return Shape::Timeout;
    }
    if let Some(p) = reason.find("unix_wait_status(") {
        let num: String = reason[p + "unix_wait_status(".len()..].chars().take_while(|c| c.is_ascii_digit()).collect();
        if let Ok(n) = num.parse::<i32>() {
            let sig = n & 0x7f;
            return if sig != 0 { Shape::Abort(format!("signal-{sig}")) } else { Shape::Abort(format!("exit-{}", (n >> 8) & 0xff)) };
        }
    }
    Shape::Abort("worker-died".into())
}

// ---------------------------------------------------------------------------------------------
// Cases

#[derive(Clone, Debug)]
struct Case {
    family: String,
    base: String,
    desc: String,
    src: String,
}

#[derive(Clone, Debug)]
struct Failure {
    case: usize,
    release: bool,
    shape: Shape,
    detail: String,
}

fn spec(label: &str, release: bool, mode_a: bool) -> BuildSpec {
    BuildSpec { label: label.into(), release, run_tests: false, mode_a, want_diagnostics: true, ..Default::default() }
}

fn req(id: usize, name: String, src: &str, builds: Vec<BuildSpec>) -> Request {
    Request { id: id as u64, name, src: src.to_string(), extra_files: vec![], with_std: true, builds, existing_dir: None }
}

fn opts(t: Tier) -> Opts {
    match t {
        Tier::Quick => Opts { ext_types: false, all_ops: false, ident_pool_cap: 12, ident_kws: 1 },
        Tier::Thorough => Opts { ext_types: true, all_ops: true, ident_pool_cap: 40, ident_kws: 3 },
    }
}

fn bases(t: Tier) -> Vec<Base> {
    let mut v = mutgen::hand_bases();
    v.extend(mutgen::generated_bases(t == Tier::Thorough));
    if t == Tier::Thorough {
        v.extend(mutgen::e2e_bases(12));
    }
    v
}

struct Generated {
    cases: Vec<Case>,
    per_family: BTreeMap<String, usize>,
    raw: usize,
    noop: usize,
    duplicates: usize,
}

fn generate(bases: &[Base], o: &Opts) -> Generated {
    let mut cases = vec![];
    let mut seen: BTreeSet<u64> = BTreeSet::new();
    let mut per_family: BTreeMap<String, usize> = BTreeMap::new();
    let (mut raw, mut noop, mut duplicates) = (0, 0, 0);
    let h = |s: &str| {
        use std::hash::{Hash, Hasher};
        let mut x = std::collections::hash_map::DefaultHasher::new();
        s.hash(&mut x);
        x.finish()
    };
    for (name, src) in mutgen::SEEDS {
        seen.insert(h(src));
        *per_family.entry("seed".into()).or_default() += 1;
        cases.push(Case { family: "seed".into(), base: name.into(), desc: name.into(), src: src.into() });
    }
    for b in bases {
        seen.insert(h(&b.src));
    }
    for b in bases {
        let (ms, expected) = match mutgen::mutate(&b.src, o) {
            Ok(x) => x,
            Err(e) => vhcore::machinery_failure(&format!("base {} does not scan: {e}", b.name)),
        };
        let mut got: BTreeMap<&str, usize> = BTreeMap::new();
        for m in &ms {
            *got.entry(m.family).or_default() += 1;
        }
        for (fam, exp) in &expected {
            if got.get(fam).copied().unwrap_or(0) != *exp {
                vhcore::machinery_failure(&format!(
                    "generator guard: base {} family {fam}: generated {} mutants, operator definition predicts {exp}",
                    b.name,
                    got.get(fam).copied().unwrap_or(0)
                ));
            }
        }
        for m in ms {
            raw += 1;
            if m.src == b.src {
                noop += 1;
                continue;
            }
            if !seen.insert(h(&m.src)) {
                duplicates += 1;
                continue;
            }
            *per_family.entry(m.family.to_string()).or_default() += 1;
            cases.push(Case { family: m.family.to_string(), base: b.name.clone(), desc: m.desc, src: m.src });
        }
    }
    Generated { cases, per_family, raw, noop, duplicates }
}

fn dump(a: &vhcore::Args) -> i32 {
    let t = if a.rest.first().map(|s| s == "thorough").unwrap_or(false) { Tier::Thorough } else { Tier::Quick };
    let bs = bases(t);
    let o = opts(t);
    let dir = vhcore::verif_root().join("work").join("C17dump");
    let _ = std::fs::create_dir_all(&dir);
    for (i, b) in bs.iter().enumerate() {
        let g = generate(std::slice::from_ref(b), &o);
        println!("{i:3} {:50} lines={:3} mutants={:6} {:?}", b.name, b.src.lines().count(), g.cases.len(), g.per_family);
        let _ = std::fs::write(dir.join(format!("base{i}.sw")), &b.src);
        if a.rest.iter().any(|s| s == "write") {
            let mut all = String::new();
            for c in &g.cases {
                all.push_str(&format!("//// [{}] {}\n{}\n", c.family, c.desc, c.src));
            }
            let _ = std::fs::write(dir.join(format!("base{i}.mutants.txt")), all);
        }
    }
    let g = generate(&bs, &o);
    println!("total: cases={} raw={} noop={} duplicates={} per_family={:?}", g.cases.len(), g.raw, g.noop, g.duplicates, g.per_family);
    0
}

/// `c17 try <file.sw>…` — development aid: build each file (debug + release, Mode F) and print the verdict.
fn try_files(a: &vhcore::Args) -> i32 {
    let work = vhcore::work_dir("C17try");
    let mut pool = Pool::new(1, work);
    pool.timeout = Duration::from_secs(1800);
    let mode_a = a.rest.iter().any(|s| s == "--mode-a");
    let files: Vec<&String> = a.rest.iter().filter(|s| !s.starts_with("--")).collect();
    let reqs: Vec<Request> = files
        .iter()
        .enumerate()
        .map(|(i, f)| {
            let src = std::fs::read_to_string(f).unwrap_or_else(|e| vhcore::machinery_failure(&format!("{f}: {e}")));
            req(i, format!("c17_try{i}"), &src, vec![spec("d", false, mode_a), spec("r", true, mode_a)])
        })
        .collect();
    for (f, r) in files.iter().zip(pool.run(&reqs)) {
        match r {
            Err(e) => println!("{f}: WORKER {e} => {}", pool_err_shape(&e).key()),
            Ok(resp) => {
                for b in &resp.builds {
                    match judge(b) {
                        Err((s, d)) => println!("{f} [{}] {} ms: CRASH {} — {}", b.label, b.millis, s.key(), vhcore::truncate(&d, 300)),
                        Ok(sig) => println!("{f} [{}] {} ms: {sig} {}", b.label, b.millis, b.diagnostics.iter().take(3).map(|d| vhcore::truncate(&d.message, 120)).collect::<Vec<_>>().join(" | ")),
                    }
                }
            }
        }
    }
    0
}

// ---------------------------------------------------------------------------------------------
// Ladder

struct Rung {
    family: &'static str,
    k: usize,
    n: usize,
    src_len: usize,
    debug_ms: u64,
    release_ms: u64,
    outcome: String,
}

struct LadderResult {
    rungs: Vec<Rung>,
    failures: Vec<(Case, bool, Shape, String)>,
    caps: Vec<String>,
    builds: usize,
}

fn ladder_kmax(family: &str, t: Tier) -> usize {
    let deep = matches!(
        family,
        "nested_blocks" | "nested_generics" | "nested_tuples" | "expr_chain" | "nested_if" | "nested_parens" | "nested_structs" | "nested_while" | "method_chain"
    );
    match (t, family) {
        // exponential in the nesting depth (measured: depth 24 = 85 s): the quick tier stays below the blow-up
        (Tier::Quick, "nested_generics") => 4,
        // type-checking time grows ~n^4 with struct nesting depth and depth 64 panics (known class): thorough only
        (Tier::Quick, "nested_structs") => 4,
        (Tier::Quick, _) => {
            if deep {
                6
            } else {
                7
            }
        }
        (Tier::Thorough, "array_repeat") | (Tier::Thorough, "str_len") => 20,
        (Tier::Thorough, _) => 13,
    }
}

fn run_ladder_family(family: &'static str, idx: usize, scratch: &std::path::Path, t: Tier, slowdown: f64) -> LadderResult {
    // the ladder's time-based rules use a bounded load factor so that the phase ends in bounded time
    let slowdown = slowdown.min(8.0);
    let slow_ms: u64 = (t.pick(15_000.0, 30_000.0) * slowdown) as u64;
    let timeout = Duration::from_secs((120.0 * slowdown) as u64);
    let mut drv = SeqDriver::new(scratch, idx, 24 << 30);
    let mut res = LadderResult { rungs: vec![], failures: vec![], caps: vec![], builds: 0 };
    // warm-up: std type-checked once per profile, not measured
    let warm = req(0, format!("c17_lw{idx}"), "script;\n\nfn main() {}\n", vec![spec("d", false, false), spec("r", true, false)]);
    if let Err(e) = drv.request(&warm, Duration::from_secs(1800)) {
        vhcore::machinery_failure(&format!("ladder warm-up failed: {e}"));
    }
    let kmax = ladder_kmax(family, t);
    let ks: Vec<usize> = (0..=kmax).collect();
    let mut prev_ms: u64 = 0;
    for k in ks {
        let n = 1usize << k;
        let src = mutgen::ladder_src(family, n);
        let case = Case { family: format!("ladder:{family}"), base: format!("ladder/{family}"), desc: format!("ladder {family} n=2^{k}={n}"), src: src.clone() };
        let mut rung = Rung { family, k, n, src_len: src.len(), debug_ms: 0, release_ms: 0, outcome: String::new() };
        let mut stop = false;
        for release in [false, true] {
            let r = req(k, format!("c17_l{idx}_{k}_{}", release as u8), &src, vec![spec(if release { "r" } else { "d" }, release, false)]);
            let t0 = Instant::now();
            res.builds += 1;
            let rung_timeout = timeout.max(Duration::from_millis(prev_ms.saturating_mul(40))).min(Duration::from_secs(2400));
            match drv.request(&r, rung_timeout) {
                Err(reason) => {
                    let shape = pool_err_shape(&reason);
                    rung.outcome = format!("{} ({})", shape.key(), if release { "release" } else { "debug" });
                    if shape == Shape::Timeout && prev_ms.saturating_mul(16) >= rung_timeout.as_millis() as u64 {
                        // doubling the size from a rung that already took > 1/16 of the limit: slow, not a hang
                        res.caps.push(format!("ladder {family}: n={n} exceeded {rung_timeout:?} (previous rung {prev_ms} ms); not climbed further"));
                    } else {
                        res.failures.push((case.clone(), release, shape, format!("{reason} after {:.1}s (previous rung: {prev_ms} ms)", t0.elapsed().as_secs_f64())));
                    }
                    stop = true;
                    break;
                }
                Ok(resp) => {
                    let b = &resp.builds[0];
                    if release {
                        rung.release_ms = b.millis;
                    } else {
                        rung.debug_ms = b.millis;
                    }
                    match judge(b) {
                        Err((shape, detail)) => {
                            rung.outcome = format!("{} ({})", shape.key(), if release { "release" } else { "debug" });
                            res.failures.push((case.clone(), release, shape, detail));
                            stop = true;
                            break;
                        }
                        Ok(sig) => {
                            rung.outcome = sig.clone();
                            if sig != "ok" {
                                res.caps.push(format!("ladder {family}: rejected with ordinary diagnostics at n={n} ({sig}); not climbed further"));
                                stop = true;
                                break;
                            }
                            if b.millis > slow_ms {
                                res.caps.push(format!("ladder {family}: stopped after n={n} ({} build took {} ms > {slow_ms} ms)", if release { "release" } else { "debug" }, b.millis));
                                stop = true;
                                break;
                            }
                        }
                    }
                }
            }
        }
        prev_ms = rung.debug_ms.max(rung.release_ms);
        res.rungs.push(rung);
        if stop {
            break;
        }
    }
    res
}

// ---------------------------------------------------------------------------------------------
// The check

fn run(a: &vhcore::Args) -> i32 {
    let mut rep = vhcore::Reporter::from_args(a, "exploration");
    let t = a.tier;
    let work = vhcore::work_dir("C17/run"); // /verif/work/C17/{repro,fix-*.patch} survive re-runs
    let t_start = Instant::now();
    let bs = bases(t);
    let o = opts(t);
    let g = generate(&bs, &o);
    eprintln!("[c17] {} bases, {} distinct mutants (raw {}, no-op {}, duplicate {}) {:?}", bs.len(), g.cases.len(), g.raw, g.noop, g.duplicates, g.per_family);
    for fam in mutgen::FAMILIES {
        if g.per_family.get(fam).copied().unwrap_or(0) == 0 {
            vhcore::machinery_failure(&format!("vacuous: mutation family `{fam}` produced no mutant"));
        }
    }
    let mut pool = Pool::new(a.jobs, work.join("pool"));
    pool.timeout = Duration::from_secs(120);
    pool.recycle_after = 400;

    // ---- phase A: base programs, Mode F vs Mode A self-check -----------------------------------
    let n_self = t.pick(6, 16).min(bs.len());
    // per base one Mode F request (debug + release); for the first `n_self` bases additionally two
    // single-build Mode A requests (each type-checks std from scratch)
    let mut base_reqs: Vec<Request> = bs
        .iter()
        .enumerate()
        .map(|(i, b)| req(i, format!("c17_base{i}"), &b.src, vec![spec("F-debug", false, false), spec("F-release", true, false)]))
        .collect();
    for i in 0..n_self {
        base_reqs.push(req(1000 + 2 * i, format!("c17_base{i}_ad"), &bs[i].src, vec![spec("A-debug", false, true)]));
        base_reqs.push(req(1001 + 2 * i, format!("c17_base{i}_ar"), &bs[i].src, vec![spec("A-release", true, true)]));
    }
    let mut base_pool = Pool::new(a.jobs, work.join("bases"));
    base_pool.timeout = Duration::from_secs(3600);
    let mut all_resps = base_pool.run(&base_reqs);
    let a_resps: Vec<Result<Response, String>> = all_resps.split_off(bs.len());
    // merge: base i gets builds [F-debug, F-release, A-debug, A-release] when all three requests answered
    let base_resps: Vec<Result<Response, String>> = all_resps
        .into_iter()
        .enumerate()
        .map(|(i, r)| {
            let mut r = r?;
            if i < n_self {
                for k in 0..2 {
                    match &a_resps[2 * i + k] {
                        Ok(x) => r.builds.extend(x.builds.iter().cloned()),
                        Err(e) => vhcore::machinery_failure(&format!("self-check: Mode A build of base {} did not answer: {e}", bs[i].name)),
                    }
                }
            }
            Ok(r)
        })
        .collect();
    let mut builds_total = 0usize;
    let mut self_checked = 0usize;
    let mut cold_ms: Vec<u64> = vec![];
    let mut f_cold_max: u64 = 0; // slowest Mode F base build = a worker's first build (std type-checked)
    let mut outcomes = vhcore::Distinct::default();
    let mut outcome_samples: BTreeMap<String, usize> = BTreeMap::new();
    let mut cases: Vec<Case> = vec![];
    let mut failures: Vec<Failure> = vec![];
    for (i, (b, r)) in bs.iter().zip(base_resps.iter()).enumerate() {
        let case_idx = cases.len();
        cases.push(Case { family: "base".into(), base: b.name.clone(), desc: format!("unmodified base {}", b.name), src: b.src.clone() });
        match r {
            Err(reason) => {
                eprintln!("[c17] base {} worker failure: {reason}", b.name);
                failures.push(Failure { case: case_idx, release: false, shape: pool_err_shape(reason), detail: reason.clone() })
            }
            Ok(resp) => {
                builds_total += resp.builds.len();
                eprintln!("[c17] base {}: {}", b.name, resp.builds.iter().map(|x| format!("{} ok={} {}ms", x.label, x.ok, x.millis)).collect::<Vec<_>>().join(", "));
                for (bi, bo) in resp.builds.iter().enumerate().take(2) {
                    match judge(bo) {
                        Err((shape, detail)) => failures.push(Failure { case: case_idx, release: bi == 1, shape, detail }),
                        Ok(sig) => {
                            outcomes.add(&sig);
                            *outcome_samples.entry(sig.clone()).or_default() += 1;
                            if b.origin == "hand" && sig != "ok" {
                                vhcore::machinery_failure(&format!("hand-written base {} does not build ({}): {sig} {:?}", b.name, bo.label, bo.diagnostics.first()));
                            }
                        }
                    }
                }
                if i < n_self && resp.builds.len() == 4 {
                    for (f, am) in [(0, 2), (1, 3)] {
                        let (f, am) = (&resp.builds[f], &resp.builds[am]);
                        if f.ok != am.ok || f.panic.is_some() != am.panic.is_some() {
                            vhcore::machinery_failure(&format!("self-check: base {} {}: Mode F ok={} vs Mode A ok={}", b.name, f.label, f.ok, am.ok));
                        }
                        if f.ok && (f.bytecode_hash != am.bytecode_hash || f.abi_hash != am.abi_hash || f.storage_hash != am.storage_hash) {
                            vhcore::machinery_failure(&format!(
                                "self-check: base {} {}: Mode F and Mode A artefacts differ (bytecode {} vs {}, abi {} vs {})",
                                b.name, f.label, f.bytecode_hash, am.bytecode_hash, f.abi_hash, am.abi_hash
                            ));
                        }
                        if f.ok {
                            self_checked += 1;
                        }
                        cold_ms.push(am.millis);
                        f_cold_max = f_cold_max.max(f.millis);
                    }
                }
            }
        }
    }
    if self_checked < 4 {
        vhcore::machinery_failure("self-check: fewer than 4 successful Mode F / Mode A comparisons");
    }
    // A build that type-checks std from scratch takes ~4 s on an idle 16-core machine; the hang
    // threshold (120 s idle) is scaled by the slowdown measured on this run's Mode A builds.
    cold_ms.sort();
    let cold_median = cold_ms.get(cold_ms.len() / 2).copied().unwrap_or(4000).max(f_cold_max);
    let slowdown = (cold_median as f64 / 4000.0).clamp(1.0, 40.0);
    // every fresh worker type-checks std first (and again after a caught panic), so the threshold
    // leaves room for that: 120 s + 3 cold builds (= 132 s on an idle machine)
    let hang_s = 120 + 3 * cold_median / 1000;
    pool.timeout = Duration::from_secs(hang_s);
    eprintln!(
        "[c17] phase A done: {} bases, {self_checked} Mode F = Mode A comparisons, cold build median {cold_median} ms, hang threshold {hang_s} s, {:.0}s",
        bs.len(),
        t_start.elapsed().as_secs_f64()
    );

    // ---- phase B: every mutant, debug ---------------------------------------------------------------
    let first_mutant = cases.len();
    cases.extend(g.cases.iter().cloned());
    let mreqs: Vec<Request> = (first_mutant..cases.len())
        .map(|ci| req(ci, format!("c17_m{ci}"), &cases[ci].src, vec![spec("d", false, false)]))
        .collect();
    let done = std::sync::atomic::AtomicUsize::new(0);
    let total = mreqs.len();
    let resps = pool.run_with(&mreqs, &|_, _| {
        let d = done.fetch_add(1, std::sync::atomic::Ordering::Relaxed) + 1;
        if d % 2000 == 0 {
            eprintln!("[c17] debug builds {d}/{total}");
        }
    });
    let mut reached_codegen: Vec<usize> = vec![];
    let mut retry: Vec<(usize, bool, String)> = vec![];
    let mut ms_sum: u64 = 0;
    let mut per_family_outcomes: BTreeMap<String, (usize, usize, usize)> = BTreeMap::new(); // ok, rejected, failed
    for (k, r) in resps.iter().enumerate() {
        let ci = first_mutant + k;
        let fam = cases[ci].family.clone();
        let e = per_family_outcomes.entry(fam).or_default();
        match r {
            Err(reason) => retry.push((ci, false, reason.clone())),
            Ok(resp) => {
                builds_total += 1;
                let b = &resp.builds[0];
                ms_sum += b.millis;
                match judge(b) {
                    Err((shape, detail)) => {
                        e.2 += 1;
                        failures.push(Failure { case: ci, release: false, shape, detail })
                    }
                    Ok(sig) => {
                        if sig == "ok" {
                            e.0 += 1;
                            reached_codegen.push(ci);
                        } else {
                            e.1 += 1;
                        }
                        outcomes.add(&sig);
                        *outcome_samples.entry(sig).or_default() += 1;
                    }
                }
            }
        }
    }
    eprintln!("[c17] phase B done: {} debug builds, {} reached codegen, {} failures so far, {:.0}s", total, reached_codegen.len(), failures.len(), t_start.elapsed().as_secs_f64());

    // ---- phase C: release builds where code generation was reached -------------------------------
    let rreqs: Vec<Request> = reached_codegen
        .iter()
        .map(|&ci| req(ci, format!("c17_r{ci}"), &cases[ci].src, vec![spec("r", true, false)]))
        .collect();
    let rresps = pool.run(&rreqs);
    let mut release_rejected = 0usize;
    for (k, r) in rresps.iter().enumerate() {
        let ci = reached_codegen[k];
        match r {
            Err(reason) => retry.push((ci, true, reason.clone())),
            Ok(resp) => {
                builds_total += 1;
                let b = &resp.builds[0];
                ms_sum += b.millis;
                match judge(b) {
                    Err((shape, detail)) => failures.push(Failure { case: ci, release: true, shape, detail }),
                    Ok(sig) => {
                        if sig != "ok" {
                            release_rejected += 1;
                        }
                        outcomes.add(&format!("release:{sig}"));
                    }
                }
            }
        }
    }
    eprintln!("[c17] phase C done: {} release builds, {:.0}s", rreqs.len(), t_start.elapsed().as_secs_f64());
    // journal: the failing builds of the mutation campaign survive an interrupted ladder / confirmation phase
    {
        let j: Vec<serde_json::Value> = failures
            .iter()
            .map(|f| {
                let c = &cases[f.case];
                json!({"key": format!("{}|{}", f.shape.key(), c.family), "base": c.base, "mutation": c.desc, "release": f.release,
                       "detail": vhcore::truncate(&f.detail, 300), "src": if c.src.len() < 20_000 { c.src.clone() } else { String::new() }})
            })
            .collect();
        let p = vhcore::verif_root().join("work").join("C17").join(format!("failures-unconfirmed.{}.json", t.as_str()));
        let _ = std::fs::write(p, serde_json::to_string_pretty(&j).unwrap());
    }

    // ---- worker deaths / timeouts: re-run each such request alone to attribute -------------------
    let mut transient = 0usize;
    if !retry.is_empty() {
        let mut solo = Pool::new(a.jobs.min(4), work.join("solo"));
        solo.timeout = Duration::from_secs(hang_s);
        let rq: Vec<Request> = retry
            .iter()
            .enumerate()
            .map(|(k, (ci, rel, _))| req(*ci, format!("c17_s{k}"), &cases[*ci].src, vec![spec("s", *rel, false)]))
            .collect();
        for ((ci, rel, first_reason), r) in retry.iter().zip(solo.run(&rq)) {
            builds_total += 1;
            match r {
                Err(reason) => failures.push(Failure { case: *ci, release: *rel, shape: pool_err_shape(&reason), detail: format!("{reason} (first run: {first_reason})") }),
                Ok(resp) => match judge(&resp.builds[0]) {
                    Err((shape, detail)) => failures.push(Failure { case: *ci, release: *rel, shape, detail }),
                    Ok(_) => transient += 1,
                },
            }
        }
    }

    // ---- phase D: scale ladder --------------------------------------------------------------------
    let fams: Vec<&'static str> = mutgen::LADDER_FAMILIES.to_vec();
    let ladder_scratch = work.join("ladder");
    let lres = vhcore::par_map_idx(fams.len(), a.jobs, |i| run_ladder_family(fams[i], i, &ladder_scratch, t, slowdown));
    let mut ladder_table = vec![];
    for lr in &lres {
        builds_total += lr.builds;
        for c in &lr.caps {
            rep.cap(c);
        }
        let last = lr.rungs.last();
        ladder_table.push(json!({
            "family": last.map(|r| r.family).unwrap_or(""),
            "rungs": lr.rungs.len(),
            "max_n": last.map(|r| r.n).unwrap_or(0),
            "last_outcome": last.map(|r| r.outcome.clone()).unwrap_or_default(),
            "last_debug_ms": last.map(|r| r.debug_ms).unwrap_or(0),
            "last_release_ms": last.map(|r| r.release_ms).unwrap_or(0),
            "last_src_bytes": last.map(|r| r.src_len).unwrap_or(0),
            "n_debug_ms_release_ms": lr.rungs.iter().map(|r| json!([r.n, r.debug_ms, r.release_ms])).collect::<Vec<_>>(),
        }));
        for r in &lr.rungs {
            outcomes.add(&format!("ladder:{}:{}:{}", r.family, r.k, r.outcome));
        }
        for (case, release, shape, detail) in &lr.failures {
            let ci = cases.len();
            cases.push(case.clone());
            failures.push(Failure { case: ci, release: *release, shape: shape.clone(), detail: detail.clone() });
        }
    }
    eprintln!("[c17] phase D done: ladder, {:.0}s", t_start.elapsed().as_secs_f64());

    // ---- phase E: classify, confirm one representative per class alone in Mode A --------------------
    let mut classes: BTreeMap<String, Vec<usize>> = BTreeMap::new(); // key -> failure indices
    for (fi, f) in failures.iter().enumerate() {
        let key = format!("{}|{}", f.shape.key(), cases[f.case].family);
        classes.entry(key).or_default().push(fi);
    }
    for v in classes.values_mut() {
        v.sort_by_key(|fi| (cases[failures[*fi].case].src.len(), *fi));
    }
    // up to 3 candidates per class, smallest first
    let mut conf_reqs: Vec<Request> = vec![];
    let mut conf_of: Vec<(String, usize)> = vec![];
    for (key, v) in &classes {
        for &fi in v.iter().take(3) {
            let f = &failures[fi];
            conf_reqs.push(req(conf_reqs.len(), format!("c17_c{}", conf_reqs.len()), &cases[f.case].src, vec![spec("A", f.release, true)]));
            conf_of.push((key.clone(), fi));
        }
    }
    let mut conf_pool = Pool::new(a.jobs, work.join("confirm"));
    conf_pool.timeout = Duration::from_secs(hang_s + 60);
    conf_pool.recycle_after = 1;
    let conf_resps = conf_pool.run(&conf_reqs);
    builds_total += conf_reqs.len();
    let mut confirmed: BTreeMap<String, (usize, String)> = BTreeMap::new(); // key -> (failure idx, Mode A detail)
    let mut unconfirmed: BTreeMap<String, String> = BTreeMap::new();
    for ((key, fi), r) in conf_of.iter().zip(conf_resps.iter()) {
        if confirmed.contains_key(key) {
            continue;
        }
        let got: Result<String, (Shape, String)> = match r {
            Err(reason) => Err((pool_err_shape(reason), reason.clone())),
            Ok(resp) => judge(&resp.builds[0]),
        };
        match got {
            Err((shape, detail)) if shape == failures[*fi].shape => {
                confirmed.insert(key.clone(), (*fi, detail));
                unconfirmed.remove(key);
            }
            Err((shape, detail)) => {
                unconfirmed.insert(key.clone(), format!("Mode A alone fails differently: {} ({detail})", shape.key()));
            }
            Ok(sig) => {
                unconfirmed.insert(key.clone(), format!("Mode A alone: {sig}"));
            }
        }
    }
    for k in confirmed.keys() {
        unconfirmed.remove(k);
    }

    // ---- report ----------------------------------------------------------------------------------------
    let repro_dir = vhcore::verif_root().join("work").join("C17").join("repro").join(t.as_str());
    let _ = std::fs::remove_dir_all(&repro_dir);
    let _ = std::fs::create_dir_all(&repro_dir);
    let mut class_table = vec![];
    for (n, (key, v)) in classes.iter().enumerate() {
        let Some((fi, mode_a_detail)) = confirmed.get(key) else {
            class_table.push(json!({"key": key, "cases": v.len(), "confirmed_mode_a": false, "note": unconfirmed.get(key)}));
            continue;
        };
        let f = &failures[*fi];
        let c = &cases[f.case];
        let repro_path = repro_dir.join(format!("{n}.sw"));
        if c.src.len() < 2_000_000 {
            let _ = std::fs::write(&repro_path, &c.src);
        }
        let what = format!(
            "{} [{}] on {} ({}): {}",
            f.shape.key(),
            if f.release { "release" } else { "debug" },
            c.base,
            c.desc,
            vhcore::truncate(mode_a_detail, 240)
        );
        let mut replay = json!({
            "family": c.family, "base": c.base, "mutation": c.desc, "release": f.release, "mode": "A",
            "expected_shape": f.shape.key(), "observed_mode_f": vhcore::truncate(&f.detail, 400),
            "observed_mode_a": vhcore::truncate(mode_a_detail, 400),
            "how": format!("put `src` in src/main.sw of a package that depends on std and run `forc build{}`", if f.release { " --release" } else { "" }),
        });
        if c.src.len() < 300_000 {
            replay["src"] = json!(c.src);
        } else if let Some(fam) = c.family.strip_prefix("ladder:") {
            replay["ladder_family"] = json!(fam);
            replay["ladder_n"] = json!(c.desc.rsplit('=').next().and_then(|s| s.parse::<usize>().ok()));
        }
        rep.violation(key, &what, replay);
        for &other in v.iter().filter(|x| **x != *fi) {
            let fo = &failures[other];
            let co = &cases[fo.case];
            rep.violation(key, &what, json!({"base": co.base, "mutation": co.desc, "release": fo.release}));
        }
        class_table.push(json!({
            "key": key, "cases": v.len(), "confirmed_mode_a": true, "repro": repro_path.to_string_lossy(),
            "smallest": {"base": c.base, "mutation": c.desc, "release": f.release, "bytes": c.src.len()},
            "detail": vhcore::truncate(mode_a_detail, 300),
        }));
    }
    let _ = std::fs::write(work.join("classes.json"), serde_json::to_string_pretty(&class_table).unwrap());
    for (k, why) in &unconfirmed {
        rep.cap(&format!("failure class `{k}` seen in Mode F was NOT reproduced alone in Mode A ({why}); treated as an engine artefact, not reported"));
    }

    if outcomes.len() < 2 {
        vhcore::machinery_failure("vacuous: fewer than 2 distinct outcomes");
    }
    let n_ok: usize = per_family_outcomes.values().map(|x| x.0).sum();
    let n_rej: usize = per_family_outcomes.values().map(|x| x.1).sum();
    if n_ok == 0 || n_rej == 0 {
        vhcore::machinery_failure("vacuous: mutants must include both accepted and rejected programs");
    }
    let states = cases.len() as u64;
    rep.set("evaluations", builds_total as u64);
    rep.set("states", states);
    rep.set("transitions", builds_total as u64);
    rep.set("traces_validated_against_impl", builds_total as u64);
    rep.set("distinct_nontrivial", outcomes.len() as u64);
    rep.set(
        "rule",
        "states = distinct program sources (bases, seeds, de-duplicated single-edit mutants, ladder rungs); one transition = one real forc build of one source in one profile; distinct_nontrivial = distinct normalised build outcomes (ok / first diagnostic with names and digits abstracted / ladder rung outcomes)",
    );
    rep.set("bases", bs.iter().map(|b| json!({"name": b.name, "lines": b.src.lines().count()})).collect::<Vec<_>>());
    rep.set("mutants_raw", g.raw as u64);
    rep.set("mutants_noop_dropped", g.noop as u64);
    rep.set("mutants_duplicate_dropped", g.duplicates as u64);
    rep.set("mutants_distinct", g.cases.len() as u64);
    rep.set("mutants_per_family", json!(g.per_family));
    rep.set(
        "outcomes_per_family_debug",
        json!(per_family_outcomes.iter().map(|(k, v)| (k.clone(), json!({"ok": v.0, "rejected": v.1, "crashed": v.2}))).collect::<BTreeMap<_, _>>()),
    );
    rep.set("mutants_reaching_codegen", reached_codegen.len() as u64);
    rep.set("release_builds", rreqs.len() as u64);
    rep.set("release_rejected_after_debug_ok", release_rejected as u64);
    rep.set("modeF_equals_modeA_comparisons", self_checked as u64);
    rep.set("transient_worker_failures_not_reproduced", transient as u64);
    rep.set("hang_threshold_s", hang_s);
    rep.set("cold_build_median_ms", cold_median);
    rep.set("mean_build_ms", if builds_total > 0 { ms_sum / (builds_total as u64).max(1) } else { 0 });
    rep.set("ladder", json!(ladder_table));
    rep.set("failure_classes", json!(class_table));
    rep.set("failing_builds", failures.len() as u64);
    rep.set("exhaustive", true);
    let mut top: Vec<(&String, &usize)> = outcome_samples.iter().collect();
    top.sort_by(|x, y| y.1.cmp(x.1));
    for (sig, n) in top.iter().take(6) {
        rep.sample(json!({"outcome": sig, "mutants": n}));
    }
    for c in g.cases.iter().step_by((g.cases.len() / 6).max(1)).take(6) {
        rep.sample(json!({"base": c.base, "family": c.family, "mutation": c.desc}));
    }
    rep.assume("single-edit deviations only (no pairs of edits); single-file packages that depend on std only; Fuel target; default experimental features; debug and release profiles");
    rep.assume("a failure class is reported when its smallest member reproduces alone through the plain forc path (Mode A); the per-class case counts come from the Mode F campaign");
    rep.assume("identifier scoping is approximated by: names bound in the enclosing top-level item plus names that occur anywhere in the file");
    rep.finish()
}

// ---------------------------------------------------------------------------------------------
// Replay

fn replay(a: &vhcore::Args) -> i32 {
    let Some(p) = &a.replay else { vhcore::machinery_failure("usage: c17 replay C17 <file>") };
    let txt = std::fs::read_to_string(p).unwrap_or_else(|e| vhcore::machinery_failure(&format!("cannot read {}: {e}", p.display())));
    let v: serde_json::Value = serde_json::from_str(&txt).unwrap_or_else(|e| vhcore::machinery_failure(&format!("bad replay: {e}")));
    let r = &v["replay"];
    let src = match r["src"].as_str() {
        Some(s) => s.to_string(),
        None => match (r["ladder_family"].as_str(), r["ladder_n"].as_u64()) {
            (Some(f), Some(n)) => mutgen::ladder_src(f, n as usize),
            _ => vhcore::machinery_failure("replay has neither src nor ladder parameters"),
        },
    };
    let release = r["release"].as_bool().unwrap_or(false);
    let work = vhcore::work_dir("C17replay");
    let mut pool = Pool::new(1, work);
    pool.timeout = Duration::from_secs(360);
    let rq = req(0, "c17_replay".into(), &src, vec![spec("A", release, true)]);
    let res = pool.run(&[rq]).pop().unwrap();
    let got: Result<String, (Shape, String)> = match &res {
        Err(reason) => Err((pool_err_shape(reason), reason.clone())),
        Ok(resp) => judge(&resp.builds[0]),
    };
    println!("replay of {} ({} build, plain forc path):", p.display(), if release { "release" } else { "debug" });
    println!("  expected failure shape: {}", r["expected_shape"].as_str().unwrap_or("?"));
    match got {
        Err((shape, detail)) => {
            println!("  STILL FAILS: {} — {}", shape.key(), detail);
            1
        }
        Ok(sig) => {
            println!("  no crash any more; outcome: {sig}");
            0
        }
    }
}

#[allow(dead_code)]
fn _unused(_: Response) {}

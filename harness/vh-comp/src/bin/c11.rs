//! C11 — Contract calls dispatch to the named method with intact arguments.
//!
//! Declared space: every ORDERED sequence of ≤3 distinct method names over
//! {a, b, ab, ba, aa, abc, bca, ab_, a1} (declaration order matters: `generate_contract_entry`
//! concatenates names and re-uses the offset of a name that is a substring of the names so far)
//! × a signature rotation over 5 argument lists × 5 return types × {fallback declared, not}.
//! One contract per package. Every declared method is called in-VM through `abi(A, CONTRACT_ID)` with
//! every boundary argument of its signature; every undeclared name of the alphabet is called through
//! a second `abi` declaration. Each method logs a tag unique to its name and a digest of its decoded
//! arguments and returns a value derived from both; the caller logs the decoded return value.

use serde_json::{json, Value};
use std::collections::BTreeMap;
use vh_comp::contractgen::*;
use vh_comp::pool::Pool;
use vh_comp::worker::{tests_map, Request};

const NAMES: [&str; 9] = ["a", "b", "ab", "ba", "aa", "abc", "bca", "ab_", "a1"];
const N_ARGS: usize = 5;
const N_RETS: usize = 5;
const MISMATCHED_SELECTOR_REVERT_CODE: u64 = 123;
const FALLBACK_MARK: u64 = 999;
const FALLBACK_RET: u64 = 4242;

fn tag(ni: usize) -> u64 {
    0xA0 + ni as u64
}

#[derive(Clone, Debug)]
struct Contract {
    /// indices into NAMES, declaration order
    names: Vec<usize>,
    /// (arg signature, return signature) per method
    sigs: Vec<(usize, usize)>,
    fallback: bool,
    rot: usize,
}

#[derive(Clone, Debug)]
struct Case {
    test: String,
    /// called name (index into NAMES)
    ni: usize,
    declared: bool,
    sig: (usize, usize),
    arg_text: String,
    expect: Expect,
}

fn arg_decl(a: usize) -> &'static str {
    match a {
        0 => "",
        1 => "x: u64",
        2 => "x: u8, y: bool",
        3 => "s: SArg",
        _ => "v: Vec<u8>",
    }
}

fn ret_decl(r: usize) -> &'static str {
    match r {
        0 => "",
        1 => " -> u64",
        2 => " -> b256",
        3 => " -> RRet",
        _ => " -> str",
    }
}

/// Sway expression computing the digest of the decoded arguments.
fn digest_expr(a: usize) -> &'static str {
    match a {
        0 => "0u64",
        1 => "x",
        2 => "(x.as_u64() << 1) ^ (if y { 1u64 } else { 0u64 })",
        3 => "s.a ^ (s.b.as_u64() << 32)",
        _ => "dv(v)",
    }
}

/// Boundary argument lists of a signature: (call-site text incl. set-up statements, digest).
fn arg_values(a: usize) -> Vec<(String, String, u64)> {
    // (setup statements, argument text, reference digest)
    match a {
        0 => vec![(String::new(), String::new(), 0)],
        1 => [0u64, 1, 1 << 63, u64::MAX]
            .iter()
            .map(|x| (String::new(), format!("{x}u64"), *x))
            .collect(),
        2 => [(0u64, false), (255, true), (1, true), (128, false)]
            .iter()
            .map(|(x, y)| (String::new(), format!("{x}u8, {y}"), (x << 1) ^ (*y as u64)))
            .collect(),
        3 => [(0u64, 0u64), (u64::MAX, 255), (1, 128), (0x0102030405060708, 1)]
            .iter()
            .map(|(sa, sb)| (String::new(), format!("SArg {{ a: {sa}u64, b: {sb}u8 }}"), sa ^ (sb << 32)))
            .collect(),
        _ => [vec![], vec![0u64], vec![255, 1], vec![1, 2, 3]]
            .iter()
            .map(|v| {
                let mut setup = String::from("let mut v: Vec<u8> = Vec::new(); ");
                let mut d = v.len() as u64;
                for e in v {
                    setup.push_str(&format!("v.push({e}u8); "));
                    d = (d << 8) ^ e;
                }
                (setup, "v".to_string(), d)
            })
            .collect(),
    }
}

/// Reference encoding of what the caller logs for return signature `r`.
fn ret_bytes(r: usize, ni: usize, d: u64) -> Vec<u8> {
    let t = tag(ni);
    match r {
        0 => u64be(7),
        1 => u64be((t << 48) ^ d),
        2 => [u64be(t), u64be(d), u64be(!d), u64be(t ^ d)].concat(),
        3 => [u64be((t << 48) ^ d), vec![t as u8], vec![(d & 1) as u8]].concat(),
        _ => {
            let s = if d & 1 == 0 {
                NAMES[ni].to_string()
            } else {
                format!("{}_odd_0123456789", NAMES[ni])
            };
            [u64be(s.len() as u64), s.into_bytes()].concat()
        }
    }
}

fn ret_expr(r: usize, ni: usize) -> String {
    let t = tag(ni);
    match r {
        0 => String::new(),
        1 => format!("({t}u64 << 48) ^ d"),
        2 => format!("mk({t}u64, d, !d, {t}u64 ^ d)"),
        3 => format!("RRet {{ x: ({t}u64 << 48) ^ d, y: {t}u8, z: (d & 1) == 1 }}"),
        _ => format!(
            "if (d & 1) == 0 {{ \"{n}\" }} else {{ \"{n}_odd_0123456789\" }}",
            n = NAMES[ni]
        ),
    }
}

/// Signature the second ABI gives to an undeclared name.
fn undeclared_takes_arg(ni: usize) -> bool {
    ni % 2 == 1
}

fn generate(c: &Contract) -> (String, Vec<Case>) {
    let mut s = String::from("contract;\n\nstruct SArg { a: u64, b: u8 }\nstruct RRet { x: u64, y: u8, z: bool }\n\n");
    s.push_str("abi A {\n");
    for (j, &ni) in c.names.iter().enumerate() {
        let (a, r) = c.sigs[j];
        s.push_str(&format!("    fn {}({}){};\n", NAMES[ni], arg_decl(a), ret_decl(r)));
    }
    s.push_str("}\n\nabi B {\n");
    let undeclared: Vec<usize> = (0..NAMES.len()).filter(|ni| !c.names.contains(ni)).collect();
    for &ni in &undeclared {
        if undeclared_takes_arg(ni) {
            s.push_str(&format!("    fn {}(x: u64) -> u64;\n", NAMES[ni]));
        } else {
            s.push_str(&format!("    fn {}() -> u64;\n", NAMES[ni]));
        }
    }
    s.push_str("}\n\n");
    s.push_str(
        "fn mk(w0: u64, w1: u64, w2: u64, w3: u64) -> b256 {\n    let t = (w0, w1, w2, w3);\n    asm(r: __addr_of(t)) { r: b256 }\n}\n\n\
         fn dv(v: Vec<u8>) -> u64 {\n    let mut d = v.len();\n    let mut i = 0;\n    while i < v.len() { d = (d << 8) ^ v.get(i).unwrap().as_u64(); i += 1; }\n    d\n}\n\n",
    );
    s.push_str("impl A for Contract {\n");
    for (j, &ni) in c.names.iter().enumerate() {
        let (a, r) = c.sigs[j];
        s.push_str(&format!(
            "    fn {}({}){} {{ let d: u64 = {}; log({}u64); log(d); {} }}\n",
            NAMES[ni],
            arg_decl(a),
            ret_decl(r),
            digest_expr(a),
            tag(ni),
            ret_expr(r, ni)
        ));
    }
    s.push_str("}\n\n");
    if c.fallback {
        s.push_str(&format!(
            "#[fallback]\nfn fb() -> u64 {{ log({FALLBACK_MARK}u64); {FALLBACK_RET}u64 }}\n\n"
        ));
    }
    let mut cases = vec![];
    let mut k = 0;
    for (j, &ni) in c.names.iter().enumerate() {
        let (a, r) = c.sigs[j];
        for (setup, args, d) in arg_values(a) {
            let test = format!("t{k}");
            k += 1;
            let call = format!("c.{}({})", NAMES[ni], args);
            let body = if r == 0 {
                format!("{setup}{call}; log(7u64);")
            } else {
                format!("{setup}let r = {call}; log(r);")
            };
            s.push_str(&format!("#[test]\nfn {test}() {{ let c = abi(A, CONTRACT_ID); {body} }}\n"));
            cases.push(Case {
                test,
                ni,
                declared: true,
                sig: (a, r),
                arg_text: format!("{setup}{args}"),
                expect: Expect::ok(vec![u64be(tag(ni)), u64be(d), ret_bytes(r, ni, d)]),
            });
        }
    }
    for &ni in &undeclared {
        let test = format!("t{k}");
        k += 1;
        let args = if undeclared_takes_arg(ni) { "5u64" } else { "" };
        s.push_str(&format!(
            "#[test]\nfn {test}() {{ let c = abi(B, CONTRACT_ID); let r = c.{}({args}); log(r); }}\n",
            NAMES[ni]
        ));
        let expect = if c.fallback {
            Expect::ok(vec![u64be(FALLBACK_MARK), u64be(FALLBACK_RET)])
        } else {
            Expect::revert(MISMATCHED_SELECTOR_REVERT_CODE, vec![])
        };
        cases.push(Case {
            test,
            ni,
            declared: false,
            sig: (if undeclared_takes_arg(ni) { 1 } else { 0 }, 1),
            arg_text: args.to_string(),
            expect,
        });
    }
    (s, cases)
}

/// All ordered sequences of ≤ 3 distinct names (closed form 1 + 9 + 72 + 504 = 586).
fn name_sequences() -> Vec<Vec<usize>> {
    let n = NAMES.len();
    let mut out = vec![vec![]];
    for a in 0..n {
        out.push(vec![a]);
    }
    for a in 0..n {
        for b in 0..n {
            if a != b {
                out.push(vec![a, b]);
            }
        }
    }
    for a in 0..n {
        for b in 0..n {
            for c in 0..n {
                if a != b && a != c && b != c {
                    out.push(vec![a, b, c]);
                }
            }
        }
    }
    out
}

fn contract_with(names: &[usize], rot: usize, fallback: bool) -> Contract {
    let (ra, rr) = (rot % N_ARGS, rot / N_ARGS);
    let sigs = (0..names.len())
        .map(|j| ((ra + j) % N_ARGS, (rr + 2 * j) % N_RETS))
        .collect();
    Contract { names: names.to_vec(), sigs, fallback, rot }
}

/// Relation of the called name to the declared names (the input predicate of the class key).
fn relation(c: &Contract, ni: usize) -> String {
    let me = NAMES[ni];
    let others: Vec<&str> = c.names.iter().filter(|&&o| o != ni).map(|&o| NAMES[o]).collect();
    let mut f = vec![];
    if others.iter().any(|o| o.len() == me.len()) {
        f.push("equal-length-sibling");
    }
    if others.iter().any(|o| o.contains(me)) {
        f.push("substring-of-sibling");
    }
    if others.iter().any(|o| me.contains(o)) {
        f.push("contains-sibling");
    }
    if f.is_empty() {
        f.push("unrelated");
    }
    f.join("+")
}

/// Failure shape of a wrong outcome.
fn shape(case: &Case, obs: &Expect) -> String {
    if let Some(code) = obs.revert {
        if case.expect.revert.is_none() {
            return format!("unexpected-revert({code})");
        }
        if Some(code) != case.expect.revert {
            return format!("wrong-revert-code({code})");
        }
    } else if case.expect.revert.is_some() {
        if obs.logs.first().map(|l| l == &hex::encode(u64be(FALLBACK_MARK))).unwrap_or(false) {
            return "fallback-ran-undeclared-no-fallback".into();
        }
        return "no-revert:some-method-ran".into();
    }
    if case.declared {
        let l = &obs.logs;
        if l.is_empty() {
            return "no-logs".into();
        }
        if l[0] == hex::encode(u64be(FALLBACK_MARK)) {
            return "fallback-ran-instead-of-method".into();
        }
        if l[0] != case.expect.logs[0] {
            return "wrong-method-ran".into();
        }
        if l.len() < 2 || l[1] != case.expect.logs[1] {
            return format!("args-mangled(argsig{})", case.sig.0);
        }
        if l.len() != 3 || l[2] != case.expect.logs[2] {
            return format!("wrong-return(retsig{})", case.sig.1);
        }
        "other".into()
    } else if obs.logs.first().map(|l| l != &hex::encode(u64be(FALLBACK_MARK))).unwrap_or(false) {
        "declared-method-ran-for-undeclared-name".into()
    } else {
        "wrong-fallback-result".into()
    }
}

fn pkg_name(idx: usize) -> String {
    format!("c11_p{idx}")
}

fn run(a: &vhcore::Args) -> i32 {
    let mut rep = vhcore::Reporter::from_args(a, "exploration");
    let thorough = a.tier == vhcore::Tier::Thorough;
    let seqs = name_sequences();
    if seqs.len() != 586 {
        vhcore::machinery_failure(&format!("name sequence enumerator produced {} ≠ 586", seqs.len()));
    }
    // signature rotations per (sequence, fallback): quick = 1 (rotating with the sequence index so all
    // 25 signatures occur at every method position across the run), thorough = ROT_T rotations.
    let rots_thorough: usize = std::env::var("C11_ROTS").ok().and_then(|s| s.parse().ok()).unwrap_or(5);
    let mut contracts: Vec<Contract> = vec![];
    for (si, names) in seqs.iter().enumerate() {
        for fb in [false, true] {
            // quick: sequences of length 3 get ONE fallback mode (alternating with the sequence index);
            // shorter sequences and the thorough tier get both
            if !thorough && names.len() == 3 && (si % 2 == 1) != fb {
                continue;
            }
            if thorough {
                // rotations r = (si + 5k + k) mod 25 for k in 0..rots: distinct, cover arg and ret axes
                for k in 0..rots_thorough {
                    let rot = (si + 6 * k + fb as usize * 3) % (N_ARGS * N_RETS);
                    contracts.push(contract_with(names, rot, fb));
                }
            } else {
                let rot = (si * 7 + fb as usize * 11) % (N_ARGS * N_RETS);
                contracts.push(contract_with(names, rot, fb));
            }
        }
    }
    let expected_contracts = if thorough { 586 * 2 * rots_thorough } else { 82 * 2 + 504 };
    if contracts.len() != expected_contracts {
        vhcore::machinery_failure("contract enumerator count mismatch");
    }
    // debugging aid only: C11_LIMIT=n keeps every (len/n)-th contract; the run is then not exhaustive
    let limit: Option<usize> = std::env::var("C11_LIMIT").ok().and_then(|s| s.parse().ok());
    if let Some(n) = limit {
        let step = (contracts.len() / n.max(1)).max(1);
        contracts = contracts.into_iter().step_by(step).collect();
    }
    let release = false;
    let gens: Vec<(String, Vec<Case>)> = contracts.iter().map(generate).collect();
    let reqs: Vec<Request> = gens
        .iter()
        .enumerate()
        .map(|(i, (src, _))| request(i as u64, &pkg_name(i), src, vec![spec("F", release, true, false, false)]))
        .collect();

    let mut pool = Pool::new(a.jobs, vhcore::work_dir("C11/pool"));
    // workers keep every compiled package in their engines; recycle to bound memory
    pool.recycle_after = 100;
    // wall-clock watchdog only (never a verdict); generous because the box may be heavily oversubscribed
    pool.timeout = std::time::Duration::from_secs(3600);

    // Mode F = Mode A self-check on a spread of contract shapes (folded into the main run).
    let sc_idx: Vec<usize> = {
        let n = reqs.len();
        let mut v = vec![0, n / 5, 2 * n / 5, 3 * n / 5, 4 * n / 5, n - 1];
        v.dedup();
        v
    };
    let mut reqs = reqs;
    attach_self_check(&mut reqs, &sc_idx);

    let t0 = std::time::Instant::now();
    let (results, retried) = run_with_retry(&pool, &reqs);
    rep.set("requests_retried_after_worker_failure", retried as u64);
    let build_wall = t0.elapsed().as_secs_f64();
    match verify_self_check(&reqs, &results, &sc_idx) {
        Ok(n) => rep.set("modeF_equals_modeA_packages", n as u64),
        Err(e) => vhcore::machinery_failure(&e),
    }

    let mut evaluations = 0u64;
    let mut sum_build_millis = 0u64;
    let mut declared_calls = 0u64;
    let mut undeclared_calls = 0u64;
    let mut outcomes = vhcore::Distinct::default();
    let mut sig_seen = vhcore::Distinct::default();
    let mut relations: BTreeMap<String, u64> = BTreeMap::new();
    let mut method_name_strings = vhcore::Distinct::default();
    // candidates: (contract idx, case idx, observed or build failure)
    let mut candidates: Vec<(usize, Option<usize>, String, Value)> = vec![];
    for (i, res) in results.iter().enumerate() {
        let c = &contracts[i];
        let (_, cases) = &gens[i];
        let b = match res {
            Ok(r) => &r.builds[0],
            Err(e) => {
                candidates.push((i, None, "worker-died".into(), json!(e)));
                continue;
            }
        };
        if !b.ok || !b.run_error.is_empty() {
            let key = if b.ok { "run-error".to_string() } else { build_failure_key(b) };
            candidates.push((i, None, key, json!(if b.ok { b.run_error.clone() } else { build_failure_text(b) })));
            continue;
        }
        let tm = tests_map(b);
        sum_build_millis += b.millis;
        method_name_strings.add(&c.names);
        for (ci, case) in cases.iter().enumerate() {
            evaluations += 1;
            if case.declared {
                declared_calls += 1;
                sig_seen.add(&(c.names.iter().position(|&n| n == case.ni), case.sig));
            } else {
                undeclared_calls += 1;
            }
            *relations.entry(format!("{}:{}", if case.declared { "declared" } else { "undeclared" }, relation(c, case.ni))).or_default() += 1;
            match tm.get(&case.test) {
                Some(o) => {
                    let obs = Expect::of_outcome(o);
                    outcomes.add(&obs);
                    if obs != case.expect {
                        candidates.push((i, Some(ci), shape(case, &obs), json!(obs)));
                    }
                }
                None => candidates.push((i, Some(ci), "test-missing".into(), Value::Null)),
            }
        }
        if i % (contracts.len() / 11 + 1) == 0 {
            rep.sample(json!({"names": c.names.iter().map(|&n| NAMES[n]).collect::<Vec<_>>(), "sigs": c.sigs, "fallback": c.fallback, "tests": cases.len()}));
        }
    }

    // Confirm every candidate alone in Mode A (one representative per (shape, relation) class, and at
    // most 40 confirmations overall; the rest are counted under the class of their representative).
    let mut by_class: BTreeMap<String, Vec<(usize, Option<usize>, Value)>> = BTreeMap::new();
    for (i, ci, sh, obs) in candidates {
        let c = &contracts[i];
        let key = match ci {
            Some(ci) => {
                let case = &gens[i].1[ci];
                format!(
                    "{}|{}|rel={}",
                    if case.declared { "declared-call" } else { "undeclared-call" },
                    sh,
                    relation(c, case.ni)
                )
            }
            None => format!("contract|{sh}"),
        };
        by_class.entry(key).or_default().push((i, ci, obs));
    }
    let mut confirmed: std::collections::BTreeSet<String> = Default::default();
    for round in 0..3 {
        let pending: Vec<(&String, &(usize, Option<usize>, Value), usize)> = by_class
            .iter()
            .filter(|(k, l)| !confirmed.contains(*k) && l.len() > round)
            .map(|(k, l)| (k, &l[round], l.len()))
            .collect();
        if pending.is_empty() {
            break;
        }
        // the contract with only the offending test entry, as its own package
        let items: Vec<(String, String, vh_comp::worker::BuildSpec)> = pending
            .iter()
            .enumerate()
            .map(|(n, (_, (i, ci, _), _))| {
                let (src, cases) = &gens[*i];
                let src = match ci {
                    Some(ci) => keep_only_test(src, &cases[*ci].test),
                    None => src.clone(),
                };
                (format!("c11_alone_r{round}_{n}"), src, spec("A", release, true, false, true))
            })
            .collect();
        let outs = build_many_mode_a(&pool, &items);
        for (((key, (i, ci, obs), n_cases), out), (name, src, _)) in pending.iter().zip(outs).zip(items.iter()) {
            let cases = &gens[*i].1;
            let c = &contracts[*i];
            let descr = json!({"names": c.names.iter().map(|&n| NAMES[n]).collect::<Vec<_>>(), "sigs": c.sigs, "fallback": c.fallback, "rot": c.rot});
            match (out, ci) {
                (Ok(b), Some(ci)) => {
                    let case = &cases[*ci];
                    let obs_a = tests_map(&b).get(&case.test).map(Expect::of_outcome);
                    if b.ok && obs_a.as_ref() == Some(&case.expect) {
                        continue; // did not reproduce alone
                    }
                    let what = format!(
                        "contract {descr}: call of {} `{}`({}) expected {:?}, observed {} (alone in Mode A: {:?}{})",
                        if case.declared { "declared" } else { "undeclared" },
                        NAMES[case.ni], case.arg_text, case.expect, obs, obs_a,
                        if b.ok { String::new() } else { format!(" / {}", build_failure_text(&b)) }
                    );
                    for _ in 0..*n_cases {
                        rep.violation(key, &what, replay_tests_json(name, src, release, &case.test, &case.expect, obs));
                    }
                    confirmed.insert((*key).clone());
                }
                (Ok(b), None) => {
                    if b.ok && b.run_error.is_empty() {
                        continue;
                    }
                    let what = format!("contract {descr} does not build/run: {} {}", build_failure_text(&b), b.run_error);
                    for _ in 0..*n_cases {
                        rep.violation(key, &what, json!({"kind": "build", "name": name, "release": release, "src": src, "observed": obs}));
                    }
                    confirmed.insert((*key).clone());
                }
                (Err(e), _) => {
                    let what = format!("contract {descr}: worker died in Mode A: {e}");
                    rep.violation(&format!("{key}|worker-died"), &what, json!({"kind": "build", "name": name, "release": release, "src": src}));
                    confirmed.insert((*key).clone());
                }
            }
        }
    }
    let mut unconfirmed = 0u64;
    for (key, list) in &by_class {
        if !confirmed.contains(key) {
            unconfirmed += list.len() as u64;
            let (i, ci, obs) = &list[0];
            eprintln!(
                "unconfirmed class {key} ({} cases), e.g. package {} test {:?} observed {} expected {:?}",
                list.len(),
                pkg_name(*i),
                ci.map(|ci| gens[*i].1[ci].test.clone()),
                obs,
                ci.map(|ci| gens[*i].1[ci].expect.clone())
            );
        }
    }
    if unconfirmed > 0 {
        // a mismatch that does not reproduce alone in Mode A is a harness problem, not a verdict
        vhcore::machinery_failure(&format!("{unconfirmed} mismatching cases did not reproduce alone in Mode A"));
    }

    // vacuity guards
    if by_class.is_empty() && outcomes.len() < 2 {
        vhcore::machinery_failure("fewer than 2 distinct outcomes observed");
    }
    rep.set("evaluations", evaluations);
    rep.set("contracts", contracts.len() as u64);
    rep.set("declared_method_calls", declared_calls);
    rep.set("undeclared_name_calls", undeclared_calls);
    rep.set("distinct_nontrivial", outcomes.len() as u64);
    rep.set("rule", "distinct observed test outcomes (log payloads + revert code); each contract is a distinct generated dispatch function");
    rep.set("distinct_name_sequences", method_name_strings.len() as u64);
    rep.set("distinct_position_signature_pairs", sig_seen.len() as u64);
    rep.set("calls_by_name_relation", json!(relations));
    rep.set("build_and_run_wall_s", build_wall);
    rep.set("sum_worker_build_and_run_ms", sum_build_millis);
    rep.set("jobs", a.jobs as u64);
    rep.set("profile", if release { "release" } else { "debug" });
    rep.set(
        "space",
        format!(
            "586 ordered name sequences (len 0..3 over 9 names) x {} x {} signature rotation(s) of 25 (5 arg lists x 5 return types)",
            if thorough { "2 fallback modes" } else { "fallback modes (both for len<=2, alternating for len 3)" },
            if thorough { rots_thorough } else { 1 }
        ),
    );
    rep.set("exhaustive", limit.is_none());
    if limit.is_some() {
        rep.cap("C11_LIMIT debugging subset");
    }
    if !thorough {
        rep.cap("quick: name sequences of length 3 are built with one of the two fallback modes (alternating)");
    }
    if (thorough && rots_thorough < 25) || !thorough {
        rep.cap(&format!(
            "signature product not complete: {} of 25 rotations per (name sequence, fallback); every (method position, arg list, return type) triple still occurs",
            if thorough { rots_thorough } else { 1 }
        ));
    }
    rep.assume("undeclared names are called through a second abi declaration with signature () -> u64 or (u64) -> u64; the fallback returns u64");
    rep.assume("revert code of a mismatched selector = 123 (sway-core compiler_constants::MISMATCHED_SELECTOR_REVERT_CODE)");
    rep.finish()
}

fn replay(a: &vhcore::Args) -> i32 {
    let path = a.replay.clone().unwrap_or_else(|| vhcore::machinery_failure("replay needs a path"));
    let txt = std::fs::read_to_string(&path).unwrap_or_else(|e| vhcore::machinery_failure(&format!("{e}")));
    let v: Value = serde_json::from_str(&txt).unwrap_or_else(|e| vhcore::machinery_failure(&format!("{e}")));
    let r = &v["replay"];
    println!("replaying {}: {}", v["key"], vhcore::truncate(v["what"].as_str().unwrap_or(""), 400));
    match r["kind"].as_str() {
        Some("tests") => replay_tests("C11/replay", r),
        Some("build") => {
            let b = build_in_process(
                "C11/replay",
                r["name"].as_str().unwrap_or("replay_pkg"),
                r["src"].as_str().unwrap_or(""),
                spec("replay", r["release"].as_bool().unwrap_or(false), true, false, true),
            );
            if b.ok && b.run_error.is_empty() {
                println!("replay: builds and runs now");
                0
            } else {
                println!("replay: still fails: {} {}", build_failure_text(&b), b.run_error);
                1
            }
        }
        _ => vhcore::machinery_failure("unknown replay kind"),
    }
}

fn main() {
    let a = vhcore::parse_args();
    vh_comp::maybe_serve_worker(&a);
    vh_comp::install_panic_hook();
    let code = match a.cmd.as_str() {
        "check" => run(&a),
        "replay" => replay(&a),
        "try" => try_file("C11/try", &a.rest[0], a.rest.get(1).map(|s| s == "release").unwrap_or(false)),
        "seq" => {
            // debugging: build the listed quick-tier contracts one after the other in ONE in-process worker (Mode F)
            let seqs = name_sequences();
            let mut w = vh_comp::worker::Worker::new(vhcore::work_dir("C11/seq"));
            for (n, arg) in a.rest.iter().enumerate() {
                let parts: Vec<usize> = arg.split(',').map(|x| x.parse().unwrap()).collect();
                let c = contract_with(&seqs[parts[0]], parts[1], parts[2] == 1);
                let (src, _) = generate(&c);
                let mode_a = parts.get(3) == Some(&1);
                let r = w.handle(&request(n as u64, &format!("c11_s{n}"), &src, vec![spec("F", false, true, false, mode_a)]));
                let b = &r.builds[0];
                println!("{arg}: ok={} {} tests={} ms={}", b.ok, if b.ok { String::new() } else { build_failure_text(b) }, b.tests.len(), b.millis);
            }
            0
        }
        "gen" => {
            // print one generated contract: gen <seq index> <rot> <fallback 0|1>
            let seqs = name_sequences();
            let si: usize = a.rest[0].parse().unwrap();
            let rot: usize = a.rest[1].parse().unwrap();
            let fb = a.rest[2] == "1";
            println!("{}", generate(&contract_with(&seqs[si], rot, fb)).0);
            0
        }
        _ => vhcore::machinery_failure("usage: c11 check C11 --tier quick|thorough | replay C11 <path>"),
    };
    std::process::exit(code);
}

//! C04 — IR passes keep the IR well-formed. Hook H1b runs `Context::verify()` with SSA dominance
//! checking after EVERY pass of: the default O0 and O1 pipelines, each transform inserted before
//! lowering, and all pass sequences of length ≤ 2 (thorough: ≤ 3 on one batch) spliced in after
//! init-aggr-lowering; a pass that panics on valid IR is a violation too.
use serde_json::json;
use vh_comp::gen::Case;
use vh_comp::pool::Pool;
use vh_comp::worker::{transform_passes, BuildSpec, PassOp, Request};

fn main() {
    let a = vhcore::parse_args();
    vh_comp::maybe_serve_worker(&a);
    let code = match a.cmd.as_str() {
        "check" => run(&a),
        "replay" => vh_comp::replay::replay_case(&a),
        _ => vhcore::machinery_failure("usage: c04 check C04 --tier quick|thorough"),
    };
    std::process::exit(code);
}

fn seq_spec(names: &[&str]) -> BuildSpec {
    BuildSpec {
        label: format!("seq:{}", names.join(",")),
        release: false,
        verify_each: true,
        pass_ops: vec![PassOp::Splice { names: names.iter().map(|s| s.to_string()).collect(), from: "const-demotion".into() }],
        ..Default::default()
    }
}

fn run(a: &vhcore::Args) -> i32 {
    let mut rep = vhcore::Reporter::from_args(a, "exploration");
    let thorough = a.tier == vhcore::Tier::Thorough;
    let cases = vh_comp::spaces::corpus_compact(thorough);
    let batch = 120usize;
    let batches: Vec<&[Case]> = cases.chunks(batch).collect();
    let passes = transform_passes();
    let mut base_specs = vec![
        BuildSpec { label: "O0".into(), release: false, verify_each: true, ..Default::default() },
        BuildSpec { label: "O1".into(), release: true, verify_each: true, ..Default::default() },
    ];
    for p in &passes {
        base_specs.push(seq_spec(&[p]));
    }
    let mut pair_specs = vec![];
    for p in &passes {
        for q in &passes {
            pair_specs.push(seq_spec(&[p, q]));
        }
    }
    let mut reqs: Vec<Request> = vec![];
    let mut req_batch: Vec<usize> = vec![];
    let mk = |id: usize, bi: usize, cs: &[Case], specs: Vec<BuildSpec>| Request {
        id: id as u64,
        name: format!("c04_b{bi}_{id}"),
        src: vh_comp::gen::render_package(cs),
        extra_files: vec![],
        with_std: true,
        existing_dir: None,
        builds: specs,
    };
    // which batches get the pair sequences: all (thorough) or every 4th (quick)
    for (bi, cs) in batches.iter().enumerate() {
        reqs.push(mk(reqs.len(), bi, cs, base_specs.clone()));
        req_batch.push(bi);
        if thorough || bi % 4 == 0 {
            for chunk in pair_specs.chunks(60) {
                reqs.push(mk(reqs.len(), bi, cs, chunk.to_vec()));
                req_batch.push(bi);
            }
        }
    }
    if thorough {
        // all triples on the first batch of aggregate/call shapes
        let bi = batches.len() / 2;
        let mut triples = vec![];
        for p in &passes {
            for q in &passes {
                for r in &passes {
                    triples.push(seq_spec(&[p, q, r]));
                }
            }
        }
        for chunk in triples.chunks(100) {
            reqs.push(mk(reqs.len(), bi, batches[bi], chunk.to_vec()));
            req_batch.push(bi);
        }
    }
    let pool = Pool::new(a.jobs, vhcore::work_dir("C04"));
    eprintln!("[C04] {} requests", reqs.len());
    let resps = pool.run(&reqs);
    let mut stages = 0u64;
    let mut builds = 0u64;
    let mut pipelines = vhcore::Distinct::default();
    for (ri, r) in resps.iter().enumerate() {
        let bi = req_batch[ri];
        match r {
            Err(e) => rep.violation(
                &format!("C04|worker-died|{}", reqs[ri].builds.first().map(|b| b.label.clone()).unwrap_or_default()),
                &format!("worker died on batch {bi}: {e}"),
                json!({"batch_first_case": batches[bi][0].desc, "specs": reqs[ri].builds.iter().map(|b| b.label.clone()).collect::<Vec<_>>()}),
            ),
            Ok(resp) => {
                for (spec, o) in reqs[ri].builds.iter().zip(&resp.builds) {
                    builds += 1;
                    stages += o.passes_run.len() as u64 + 1;
                    pipelines.add(&o.passes_run);
                    for f in &o.verify_failures {
                        // "stage N after pass `P`: msg" -> key on the pass and the verifier error kind
                        let pass = f.split('`').nth(1).unwrap_or("?");
                        let kind: String = f.split(": ").nth(1).unwrap_or("").chars().take(60).collect();
                        let producer = pass.is_empty();
                        rep.violation(
                            &format!("C04|{}|{}", if producer { "ir-generation".to_string() } else { format!("after-{pass}") }, kind),
                            &format!("batch {bi} [{}]: {f}", spec.label),
                            json!({"package_main_sw": reqs[ri].src, "build": spec.label, "pass_ops": spec.pass_ops, "release": spec.release, "failure": f}),
                        );
                    }
                    if let Some(p) = &o.panic {
                        rep.violation(
                            &format!("C04|panic@{}", o.panic_loc),
                            &format!("batch {bi} [{}]: compiler panicked: {p}", spec.label),
                            json!({"package_main_sw": reqs[ri].src, "build": spec.label, "pass_ops": spec.pass_ops, "release": spec.release}),
                        );
                    } else if !o.ok && o.verify_failures.is_empty() {
                        let kind: String = o.error.chars().take(80).collect();
                        rep.violation(
                            &format!("C04|build-error|{}|{kind}", spec.label.split(':').next().unwrap_or("")),
                            &format!("batch {bi} [{}]: build failed although every stage verified: {}", spec.label, o.error),
                            json!({"package_main_sw": reqs[ri].src, "build": spec.label, "pass_ops": spec.pass_ops, "release": spec.release}),
                        );
                    }
                }
            }
        }
    }
    if stages < builds * 3 {
        vhcore::machinery_failure("vacuous: the per-pass observer (hook H1b) did not run");
    }
    rep.set("evaluations", stages);
    rep.set("distinct_nontrivial", pipelines.len() as u64);
    rep.set("rule", "evaluations = (package build, pipeline stage) pairs at which the verifier ran with SSA dominance checking; pipelines = O0, O1, each of the 19 transforms alone and all ordered pairs (thorough: all triples on one batch) spliced in between init-aggr-lowering and the Fuel lowering group; distinct_nontrivial = distinct executed pass lists");
    rep.set("package_builds", builds);
    rep.set("programs", cases.len() as u64);
    rep.set("exhaustive", true);
    rep.sample(json!({"pipeline": "seq:mem2reg,sroa", "spliced_after": "lower-init-aggr", "followed_by": "const-demotion … simplify-cfg"}));
    rep.sample(json!({"first_case_of_batch_0": batches[0][0].desc}));
    rep.assume("a verifier error after pass P on IR that verified before P is attributed to P; the `modified` return flag of passes is not checked (not part of the property)");
    rep.finish()
}
